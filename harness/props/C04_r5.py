"""C04, round 5 additions (imported by C04.py): correspondence cases and predicates for
  * the validating constructors behind the PARAFAC2 / Tucker entry points (Model/TransformsApi.v): Parafac2Tensor(...),
    svd_decompress_parafac2_tensor, parafac2_normalise, Parafac2Tensor.from_CPTensor, TuckerTensor(...), tucker_mode_dot,
    tucker_normalize -- accepted / refused, and the shape / rank attributes of the object they return;
  * the heap model of cp_mode_dot's copy flag (Model/TransformsHeap.v): factor lists that name the same array twice, what
    happens to the caller's arrays and list, what the result shares with them."""
import numpy as np
from harness import common as C


def nat_lists(xss):
    xss = [list(map(int, x)) for x in xss]
    return "[" + "; ".join(C.nat_list(x) for x in xss) + "]" if xss else "(@nil (list nat))"


def _H():
    from harness.props import C04 as H
    return H


def zopt(w):
    return "None" if w is None else f"(Some {_H().zrow(w)})"


def qopt(w):
    return "None" if w is None else f"(Some {_H().qrow(w)})"


def shp(arrs):
    return tuple(tuple(np.asarray(a).shape) for a in arrs)


def small(shapes):
    return all(0 <= int(d) <= 4000 for s in shapes for d in s)


# ----------------------------------------------------------------------------- heap cases: the operand as the caller holds it
def build_heap_operand(inp):
    """arrays the caller holds (table), the factor list naming them (possibly one array twice), the operand"""
    from tensorly.cp_tensor import CPTensor
    arrs = [np.array(a, copy=True) for a in inp["table"]]
    facs = [arrs[i] for i in inp["ls"]]
    wv = None if inp["w_idx"] is None else arrs[inp["w_idx"]]
    operand = CPTensor((wv, facs)) if inp["is_class"] else (wv, facs)
    return arrs, facs, wv, operand


def pred_cp_mode_dot_alias(inp):
    """cp_mode_dot on an operand whose factor list may name one array twice: the result represents the mode product of what
    the operand represented; with copy=True nothing the caller holds changes"""
    H = _H()
    from tensorly.cp_tensor import cp_mode_dot
    arrs, facs, wv, operand = build_heap_operand(inp)
    before = [a.copy() for a in arrs]
    R = before[inp["ls"][0]].shape[1]
    w_eff = np.ones(R, dtype=np.int64) if wv is None else before[inp["w_idx"]]
    dense0 = H.dense_cp(w_eff, [before[i] for i in inp["ls"]])
    st, out = H.call(cp_mode_dot, operand, np.array(inp["x"], copy=True), inp["mode"], keep_dim=inp["keep_dim"], copy=inp["copy"])
    if st != "ok":
        return f"cp_mode_dot raised: {out}"
    exp = H.dense_mode_dot(dense0, inp["x"], inp["mode"], inp["keep_dim"])
    w2 = np.ones(R) if out[0] is None else np.asarray(out[0])
    got = H.dense_cp(w2, [np.asarray(f) for f in out[1]])
    if not H.close(got, exp, exact=H.is_int(exp)):
        return (f"cp_mode_dot(mode={inp['mode']}, keep_dim={inp['keep_dim']}, copy={inp['copy']}) on factors {inp['ls']} (indices into the caller's arrays) "
                "does not represent the mode product of the dense tensor")
    if tuple(out.shape) != exp.shape:
        return f"cp_mode_dot: advertised shape {tuple(out.shape)} but represents {exp.shape}"
    if inp["copy"]:
        if not H.same_arrays(arrs, before):
            return "cp_mode_dot(copy=True) modified an array of the caller"
        if len(facs) != len(inp["ls"]) or any(f is not arrs[i] for f, i in zip(facs, inp["ls"])):
            return "cp_mode_dot(copy=True) modified the caller's factor list"
        res = ([] if out[0] is None else [np.asarray(out[0])]) + [np.asarray(f) for f in out[1]]
        if any(np.shares_memory(a, r) for a in arrs for r in res):
            return "cp_mode_dot(copy=True) returned an array sharing memory with the caller's"
    return None


def clf_inplace_shared(f):
    """known finding: copy=False, vector contraction, and the factor that absorbs the vector IN PLACE is named by another
    remaining entry of the factor list as well"""
    inp = f.get("inputs", {})
    try:
        if f.get("predicate") != "cp_mode_dot_alias" or inp["copy"] or inp["keep_dim"] or np.asarray(inp["x"]).ndim != 1:
            return False
        ls = list(inp["ls"]); mode = int(inp["mode"])
        if not 0 <= mode < len(ls):
            return False
        rest = ls[:mode] + ls[mode + 1:]
        m2 = max(mode - 1, 0)
        return rest.count(rest[m2]) >= 2
    except Exception:  # noqa
        return False


def pred_compress_rank(inp):
    """max_rank is "the maximum rank to allow in the datasets after compression": a compressed slice has at most
    min(n_cols, max_rank) rows, and orthonormal loadings; an uncompressed one is the slice itself"""
    H = _H()
    from tensorly.preprocessing import svd_compress_tensor_slices
    slices = inp["slices"]
    st, out = H.call(svd_compress_tensor_slices, H.cps(slices), compression_threshold=inp["threshold"], max_rank=inp["max_rank"])
    if st != "ok":
        return f"svd_compress_tensor_slices raised: {out}"
    scores, loads = out
    n_cols = slices[0].shape[1]
    limit = n_cols if inp["max_rank"] is None else min(n_cols, inp["max_rank"])
    for i, X in enumerate(slices):
        S, L = np.asarray(scores[i]), loads[i]
        if L is None:
            if not (S.shape == X.shape and np.array_equal(S, X)):
                return f"slice {i} has no loading matrix but its score is not the slice itself"
            if not inp["threshold"] and X.shape[0] > limit:
                return f"slice {i} with {X.shape[0]} rows > rank limit {limit} was not compressed"
        else:
            if S.shape[0] > limit:
                return f"compressed slice {i} has {S.shape[0]} rows, more than min(n_cols, max_rank) = {limit}"
            if np.asarray(L).shape != (X.shape[0], S.shape[0]):
                return f"loading matrix {i} has shape {np.asarray(L).shape}, expected {(X.shape[0], S.shape[0])}"
    return None


class BrokenTie(Exception):
    pass


def inplace_from_source(module=None):
    """which variant of the contraction update the CURRENT source of cp_mode_dot has (selects the heap model variant):
    True  for `factors[mode] *= factor` (the array is updated in place),
    False for `factors[mode] = factors[mode] * factor` (or `factor * factors[mode]`): the product goes to a fresh array;
    anything else is a broken tie (fail closed)."""
    import ast, inspect, textwrap
    if module is None:
        import tensorly.cp_tensor as module
    src = module if isinstance(module, str) else textwrap.dedent(inspect.getsource(module))
    fn = [n for n in ast.walk(ast.parse(src)) if isinstance(n, ast.FunctionDef) and n.name == "cp_mode_dot"]
    if len(fn) != 1:
        raise BrokenTie("function cp_mode_dot not found")
    branch = [n for n in ast.walk(fn[0]) if isinstance(n, ast.If) and isinstance(n.test, ast.Name) and n.test.id == "contract"]
    if len(branch) != 1:
        raise BrokenTie("`if contract:` branch of cp_mode_dot not found")

    def is_slot(e):
        return (isinstance(e, ast.Subscript) and isinstance(e.value, ast.Name) and e.value.id == "factors"
                and isinstance(e.slice, ast.Name) and e.slice.id == "mode")

    def is_factor(e):
        return isinstance(e, ast.Name) and e.id == "factor"
    found = []
    for st in branch[0].body:
        if isinstance(st, ast.AugAssign) and is_slot(st.target):
            if isinstance(st.op, ast.Mult) and is_factor(st.value):
                found.append(True)
            else:
                raise BrokenTie("unreadable in-place update of factors[mode]")
        elif isinstance(st, ast.Assign) and any(is_slot(t) for t in st.targets):
            v = st.value
            if isinstance(v, ast.BinOp) and isinstance(v.op, ast.Mult) and ((is_slot(v.left) and is_factor(v.right)) or (is_factor(v.left) and is_slot(v.right))):
                found.append(False)
            else:
                raise BrokenTie("unreadable assignment to factors[mode] in the contraction branch")
    if len(found) != 1:
        raise BrokenTie(f"{len(found)} updates of factors[mode] in the contraction branch of cp_mode_dot")
    return found[0]


def setitem_refreshes_from_source(module=None):
    """does CPTensor.__setitem__ of the CURRENT source touch the cached shape (assign self.shape / self.rank, or call a validator)?
    False for the plain attribute rebinding (the current tree: C03's known finding wrapper_setitem_stale_cache_cp) -> setitem_h;
    True -> setitem_refresh_h; a __setitem__ that cannot be found is a broken tie."""
    import ast, inspect, textwrap
    if module is None:
        import tensorly.cp_tensor as module
    src = module if isinstance(module, str) else textwrap.dedent(inspect.getsource(module))
    cls = [n for n in ast.walk(ast.parse(src)) if isinstance(n, ast.ClassDef) and n.name == "CPTensor"]
    fn = [n for c in cls for n in c.body if isinstance(n, ast.FunctionDef) and n.name == "__setitem__"]
    if len(fn) != 1:
        raise BrokenTie("CPTensor.__setitem__ not found")
    for n in ast.walk(fn[0]):
        if isinstance(n, ast.Attribute) and isinstance(n.value, ast.Name) and n.value.id == "self" and n.attr in ("shape", "rank") and isinstance(n.ctx, ast.Store):
            return True
        if isinstance(n, ast.Call) and isinstance(n.func, ast.Name) and "validate" in n.func.id:
            return True
    return False


PRED = {"cp_mode_dot_alias": pred_cp_mode_dot_alias, "svd_compress_rank": pred_compress_rank}
ENTRY = {"cp_mode_dot_alias": "tensorly.cp_tensor.cp_mode_dot", "svd_compress_rank": "tensorly.preprocessing.svd_compress_tensor_slices"}
CLASSIFIERS = {"inplace_product_into_shared_factor": clf_inplace_shared}


# ----------------------------------------------------------------------------- the cases
def run_round5(chk, rng, judge, mult, emit):
    H = _H()
    import tensorly as tl
    from tensorly.cp_tensor import CPTensor, cp_mode_dot
    from tensorly.parafac2_tensor import Parafac2Tensor, parafac2_normalise
    from tensorly.preprocessing import svd_decompress_parafac2_tensor
    from tensorly.tucker_tensor import TuckerTensor, tucker_mode_dot, tucker_normalize
    zrow, zmat, zmats, qrow, qmat, qmats, ztens, qtens = H.zrow, H.zmat, H.zmats, H.qrow, H.qmat, H.qmats, H.ztens, H.qtens
    call, cps, sperm, rint = H.call, H.cps, H.sperm, H.rint

    def widen(M):
        return np.concatenate([M, M[:, :1]], axis=1)

    def pf2_attr(st, out):
        if st != "ok":
            return None
        shape = [list(map(int, s)) for s in out.shape]
        return shape if small(shape) else [[99999]]

    # --- (A) Parafac2Tensor(...) on well- and malformed contents; svd_decompress through the constructor (exact, integer data)
    for it in range(24 * mult):
        w, (A, B, Cm), Ps = H.gen_pf2_int(rng)
        R, I = len(w), A.shape[0]
        j = rng.randrange(I)
        def bad_proj(kind):
            P = Ps[j].copy()
            if kind == "scaled":
                P[:, rng.randrange(R)] *= 2
            elif kind == "dup" and R >= 2:
                P[:, 1] = P[:, 0]
            else:
                P[rng.randrange(P.shape[0]), rng.randrange(R)] += 1
            return [P if k == j else Q for k, Q in enumerate(Ps)]
        variants = {
            "ok": (w, [A, B, Cm], Ps), "w_none": (None, [A, B, Cm], Ps),
            "few_proj": (w, [A, B, Cm], Ps[:-1]), "many_proj": (w, [A, B, Cm], Ps + [sperm(rng, R + 1, R)]),
            "proj_cols": (w, [A, B, Cm], [sperm(rng, R + 2, R + 1) if k == j else Q for k, Q in enumerate(Ps)]),
            "non_ortho": (w, [A, B, Cm], bad_proj(rng.choice(["scaled", "dup", "bump"]))),
            "B_cols": (w, [A, widen(B), Cm], Ps), "C_cols": (w, [A, B, widen(Cm)], Ps), "A_cols": (w, [widen(A), B, Cm], Ps),
            "w_len": (np.concatenate([w, w[:1]]), [A, B, Cm], Ps),
            "two_factors": (w, [A, B], Ps), "four_factors": (w, [A, B, Cm, Cm], Ps)}
        names = ["ok", "w_none"] + rng.sample(sorted(set(variants) - {"ok", "w_none"}), 3)
        for name in names:
            wv, fv, pv = variants[name]
            st, out = call(lambda: Parafac2Tensor((None if wv is None else wv.copy(), cps(fv), cps(pv))))
            sh_ = pf2_attr(st, out)
            lit = "Err" if sh_ is None else f"(Ok ({nat_lists(sh_)}, {int(out.rank)}%nat))"
            emit(lambda: f"ZPf2New {zopt(wv)} {zmats(fv)} {zmats(pv)} {lit}", ("Parafac2Tensor", name, shp([A]), len(pv)))
            chk.count(key=("Parafac2Tensor", name, R, I), nontrivial=name not in ("ok", "w_none"))
            chk.hist("constructor", name + ":" + st)
            if name in ("ok", "w_none") and st == "ok":
                exp_shape = tuple((int(P.shape[0]), int(fv[2].shape[0])) for P in pv)
                if tuple(tuple(int(d) for d in s_) for s_ in out.shape) != exp_shape or int(out.rank) != R:
                    chk.finding("tensorly.parafac2_tensor.Parafac2Tensor", {"w": wv, "fs": fv, "Ps": pv},
                                f"Parafac2Tensor advertises shape {out.shape}, rank {out.rank} but holds slices of shape {exp_shape}, rank {R}", "pf2_attributes")
            if name in ("ok", "w_none") and st != "ok":
                chk.finding("tensorly.parafac2_tensor.Parafac2Tensor", {"w": wv, "fs": fv, "Ps": pv}, f"a valid PARAFAC2 tensor was refused: {out}", "pf2_constructor")
            if name not in ("ok", "w_none") and st == "ok":
                chk.finding("tensorly.parafac2_tensor.Parafac2Tensor", {"w": wv, "fs": fv, "Ps": pv}, f"a malformed PARAFAC2 tensor ({name}) was accepted", "pf2_constructor")
        # svd_decompress: orthonormal loadings are accepted, a loading whose columns are not orthonormal makes the constructor refuse L_i P_i
        for lname in ("ortho", "bad"):
            Ls = [None if rng.random() < 0.3 else sperm(rng, P.shape[0] + rng.randint(0, 2), P.shape[0]) for P in Ps]
            if lname == "bad":
                k = rng.randrange(I)
                L = sperm(rng, Ps[k].shape[0] + 1, Ps[k].shape[0])
                used = [c for c in range(L.shape[1]) if np.any(Ps[k][c])]      # a column of L that meets a non-zero row of P_k
                L[:, rng.choice(used)] *= 2; Ls[k] = L
            for is_class in (True, False):
                w_in = None if (not is_class and it % 2) else w
                def go():
                    t = (None if w_in is None else w_in.copy(), cps([A, B, Cm]), cps(Ps))
                    return svd_decompress_parafac2_tensor(Parafac2Tensor(t) if is_class else t, [None if L is None else L.copy() for L in Ls])
                st, out = call(go)
                sh_ = pf2_attr(st, out)
                if sh_ is None:
                    lit = "Err"
                elif H.integral(*out[2]) and all(np.asarray(p).ndim == 2 for p in out[2]):
                    lit = f"(Ok ({nat_lists(sh_)}, {zmats([np.asarray(p) for p in out[2]])}))"
                else:
                    lit = "(Ok ([[99999]], (@nil (list (list Z)))))"
                emit(lambda: f"ZDecompApi {C.boolc(is_class)} {zopt(w_in)} {zmats([A, B, Cm])} {zmats(Ps)} {H.zopt_mats(Ls)} {lit}",
                     ("svd_decompress", "constructor", lname, is_class, shp([A])))
                chk.count(key=("svd_decompress-api", lname, is_class, R, I), nontrivial=True)
                chk.hist("constructor", "decompress-" + lname + ":" + st)
                if (lname == "ortho") != (st == "ok"):
                    chk.finding("tensorly.preprocessing.svd_decompress_parafac2_tensor", {"w": w, "fs": [A, B, Cm], "Ps": Ps, "Ls": Ls},
                                "orthonormal loadings refused" if lname == "ortho" else "L_i P_i is not orthonormal but the decompressed tensor was accepted", "decompress_constructor")
        # from_CPTensor on a PARAFAC2 operand: passed through the constructor when allowed, refused otherwise
        for is_class in (True, False):
            for ok in (True, False):
                def go2():
                    t = (w.copy(), cps([A, B, Cm]), cps(Ps))
                    return Parafac2Tensor.from_CPTensor(Parafac2Tensor(t) if is_class else t, parafac2_tensor_ok=ok)
                st, out = call(go2)
                sh_ = pf2_attr(st, out)
                lit = "Err" if sh_ is None else f"(Ok {nat_lists(sh_)})"
                emit(lambda: f"ZFromPf2 {C.boolc(is_class)} {C.boolc(ok)} (Some {zrow(w)}) {zmats([A, B, Cm])} {zmats(Ps)} {lit}", ("from_CPTensor", "pf2-operand", is_class, ok))
                chk.count(key=("from_CPTensor-pf2", is_class, ok), nontrivial=False)

    # --- (B) parafac2_normalise / from_CPTensor through the constructor on Gaussian data (accepted / refused + shape attribute)
    for it in range(16 * mult):
        w, fs, Ps, feat = H.gen_pf2(rng)
        R = len(w)
        kind = rng.choice(["ok", "ok", "w_none", "non_ortho", "few_proj"])
        Pv = list(Ps); wv = w
        if kind == "non_ortho":
            k = rng.randrange(len(Ps)); Pv[k] = Pv[k] * 1.5
        elif kind == "few_proj":
            Pv = Pv[:-1]
        elif kind == "w_none":
            wv = None
        st, out = call(parafac2_normalise, (None if wv is None else wv.copy(), cps(fs), cps(Pv)))
        sh_ = pf2_attr(st, out)
        w_eff = np.ones(R) if wv is None else wv
        tape = [np.sqrt(np.sum(a * a, axis=0)) for a in [fs[0] * w_eff, fs[1], fs[2]]]
        tl_ = "[" + "; ".join(qrow(t) for t in tape) + "]"
        lit = "Err" if sh_ is None else f"(Ok {nat_lists(sh_)})"
        emit(lambda: f"QPf2NormApi {tl_} {qopt(wv)} {qmats(fs)} {qmats(Pv)} {lit}", ("parafac2_normalise", "constructor", kind))
        chk.count(key=("parafac2_normalise-api", kind, R), nontrivial=kind != "ok")
        chk.hist("constructor", "pf2norm-" + kind + ":" + st)
        if (kind in ("ok", "w_none")) != (st == "ok"):
            chk.finding("tensorly.parafac2_tensor.parafac2_normalise", {"w": w, "fs": fs, "Ps": Pv}, f"parafac2_normalise on a {kind} operand: {st}", "pf2_normalise_constructor")
        # from_CPTensor on plain tuples: 2 / 3 / 4 factors, weights None / wrong length, ragged ranks, B with fewer rows than columns
        A = fs[0]; Cm = fs[2]
        B = np.array([[rng.gauss(0, 1) for _ in range(R)] for _ in range(rng.randint(R, R + 2))])
        kind = rng.choice(["ok", "w_none", "two", "four", "w_len", "C_cols", "A_cols"] + (["B_short"] if R >= 2 else []))
        wv, fv = w, [A, B, Cm]
        if kind == "w_none":
            wv = None
        elif kind == "two":
            fv = [A, B]
        elif kind == "four":
            fv = [A, B, Cm, Cm]
        elif kind == "w_len":
            wv = np.concatenate([w, w[:1]])
        elif kind == "C_cols":
            fv = [A, B, widen(Cm)]
        elif kind == "A_cols":
            fv = [widen(A), B, Cm]
        elif kind == "B_short":
            fv = [A, B[:R - 1], Cm]
        st, out = call(Parafac2Tensor.from_CPTensor, (None if wv is None else wv.copy(), cps(fv)))
        sh_ = pf2_attr(st, out)
        if len(fv) == 3:
            Qm, Rm = tl.qr(fv[1].copy())
            ql, rl = H.qmat2(Qm), H.qmat2(Rm)
        else:
            ql = rl = "(@nil (list Q))"
        lit = "Err" if sh_ is None else f"(Ok {nat_lists(sh_)})"
        emit(lambda: f"QFromApi {ql} {rl} {qopt(wv)} {qmats(fv)} {lit}", ("from_CPTensor", "constructor", kind))
        chk.count(key=("from_CPTensor-api", kind, R), nontrivial=kind != "ok")
        chk.hist("constructor", "from_cp-" + kind + ":" + st)
        if (kind in ("ok", "w_none")) != (st == "ok"):
            chk.finding("tensorly.parafac2_tensor.Parafac2Tensor.from_CPTensor", {"w": wv, "fs": fv}, f"from_CPTensor on a {kind} operand: {st}: {out if st != 'ok' else ''}", "from_cp_constructor")

    # --- (C) TuckerTensor(...), tucker_mode_dot, tucker_normalize: accepted / refused, shape and rank attributes
    def tk_attr(st, out):
        if st != "ok":
            return "Err"
        held = (tuple(int(f.shape[0]) for f in out.factors), tuple(int(f.shape[1]) for f in out.factors))
        if (tuple(int(d) for d in out.shape), tuple(int(d) for d in out.rank)) != held or held[1] != tuple(np.asarray(out.core).shape):
            chk.finding("tensorly.tucker_tensor.TuckerTensor", {"core": np.asarray(out.core), "fs": [np.asarray(f) for f in out.factors]},
                        f"TuckerTensor advertises shape {out.shape}, rank {out.rank} but holds factors of shape {held[0]}, rank {held[1]}, core {np.asarray(out.core).shape}", "tucker_attributes")
        s, r = [int(d) for d in out.shape], [int(d) for d in out.rank]
        if not small([s, r]):
            return "(Ok ([99999], [99999]))"
        return f"(Ok ({C.nat_list(s)}, {C.nat_list(r)}))"

    for it in range(24 * mult):
        core, fs, feat = H.gen_tucker(rng)
        N = len(fs)
        k = rng.randrange(N)
        variants = {"ok": (core, fs), "cols": (core, [widen(f) if i == k else f for i, f in enumerate(fs)]),
                    "one_factor": (rint(rng, -2, 2, (fs[0].shape[1],)), fs[:1]),
                    "ndim": (core, fs[:-1]), "extra_factor": (core, fs + [fs[-1]])}
        for name in ["ok"] + rng.sample(["cols", "one_factor", "ndim", "extra_factor"], 2):
            cv, fv = variants[name]
            st, out = call(lambda: TuckerTensor((cv.copy(), cps(fv))))
            emit(lambda: f"ZTkNew {ztens(cv)} {zmats(fv)} {tk_attr(st, out)}", ("TuckerTensor", name, shp(fs)))
            chk.count(key=("TuckerTensor", name, N), nontrivial=name != "ok")
            chk.hist("constructor", "tucker-" + name + ":" + st)
            if (name == "ok") != (st == "ok"):
                chk.finding("tensorly.tucker_tensor.TuckerTensor", {"core": cv, "fs": fv}, f"TuckerTensor on a {name} operand: {st}", "tucker_constructor")
        for _ in range(3):
            mode = rng.randint(-N - 1, N)
            kind = rng.choice(["mat", "vec", "veck"])
            d = fs[mode].shape[0] if -N <= mode < N else 2
            x = H.gen_operand(rng, d, "vec" if kind == "veck" else kind)
            kd = kind == "veck"
            is_class = rng.random() < 0.5
            st, out = call(lambda: tucker_mode_dot(TuckerTensor((core.copy(), cps(fs))) if is_class else (core.copy(), cps(fs)), x.copy(), mode, keep_dim=kd, copy=rng.random() < 0.5))
            xl = f"(OpMat {zmat(x)})" if x.ndim == 2 else f"(OpVec {zrow(x)})"
            emit(lambda: f"ZTkDotApi {ztens(core)} {zmats(fs)} {xl} {C.z(mode)} {C.boolc(kd)} {tk_attr(st, out)}", ("tucker_mode_dot", "constructor", shp(fs), mode, kind, is_class))
            chk.count(key=("tucker_mode_dot-api", N, mode, kind, is_class), nontrivial=True)
        coreq, fsq, _ = H.gen_tucker(rng, float_=True)
        if it % 4 == 0:
            coreq, fsq = coreq.reshape(-1)[:fsq[0].shape[1]].copy(), fsq[:1]           # a single factor: the constructor must refuse the answer
        st, out = call(tucker_normalize, (coreq.copy(), cps(fsq)))
        tape = "[" + "; ".join(qrow(np.sqrt(np.sum(f * f, axis=0))) for f in fsq) + "]"
        emit(lambda: f"QTkNormApi {tape} {qtens(coreq)} {qmats(fsq)} {tk_attr(st, out)}", ("tucker_normalize", "constructor", len(fsq)))
        chk.count(key=("tucker_normalize-api", len(fsq)), nontrivial=len(fsq) == 1)
        if (len(fsq) >= 2) != (st == "ok"):
            chk.finding("tensorly.tucker_tensor.tucker_normalize", {"core": coreq, "fs": fsq}, f"tucker_normalize with {len(fsq)} factor(s): {st}", "tucker_normalize_constructor")

    # --- (D) the copy flag of cp_mode_dot on the heap: factor lists naming one array twice, caller's arrays / list afterwards
    try:
        inplace = inplace_from_source()
        chk.cov["cp_mode_dot_contraction_update"] = "in place (factors[mode] *= factor)" if inplace else "fresh array (factors[mode] = factors[mode] * factor)"
    except BrokenTie as e:
        chk.broken.append({"what": "source tie broken: the update of the absorbing factor in cp_mode_dot's contraction branch could not be read off the source "
                                   "(it selects the variant of the heap model)", "detail": str(e)})
        chk.cov["cp_mode_dot_contraction_update"] = "unreadable"
        inplace = True
    for it in range(40 * mult):
        N = rng.randint(1, 4)
        w, fs, feat = H.gen_cp(rng, N=N, maxdim=3)
        R = len(w)
        pattern = list(range(N))
        if N >= 2 and it % 2 == 0:                                   # symmetric tensors: one array under two (or all) modes
            i, j = rng.sample(range(N), 2)
            pattern[j] = pattern[i]
            if N >= 3 and rng.random() < 0.3:
                pattern = [pattern[i]] * N
        w_none = rng.random() < 0.25
        table = ([] if w_none else [w]) + fs
        off = 0 if w_none else 1
        ls = [off + p for p in pattern]
        for _ in range(3):
            mode = rng.randrange(N + (1 if rng.random() < 0.1 else 0))
            kind = rng.choice(["mat", "vec", "veck", "vec"])
            d = table[ls[mode]].shape[0] if mode < N else 2
            x = H.gen_operand(rng, d, "vec" if kind == "veck" else kind)
            kd = kind == "veck"
            copy = rng.random() < 0.5
            is_class = rng.random() < 0.5
            inp = {"table": table, "ls": ls, "w_idx": None if w_none else 0, "is_class": is_class, "copy": copy, "x": x, "mode": mode, "keep_dim": kd}
            st0, built = call(build_heap_operand, inp)
            if st0 != "ok":
                continue
            arrs, facs, wv, operand = built
            w_idx = inp["w_idx"]
            if is_class and w_none:                                   # the constructor's array of ones is an array the object holds
                arrs.append(operand.weights); w_idx = len(arrs) - 1
            before = [a.copy() for a in arrs]
            st, out = call(cp_mode_dot, operand, x.copy(), mode, keep_dim=kd, copy=copy)
            if st == "ok":
                res = ([] if out[0] is None else [np.asarray(out[0])]) + [np.asarray(f) for f in out[1]]
                shared = [any(np.shares_memory(a, r) for r in res) for a in arrs]
            else:
                shared = [False] * len(arrs)
            same = len(facs) == len(ls) and all(f is arrs[i] for f, i in zip(facs, ls))
            xl = f"(OpMat {zmat(x)})" if x.ndim == 2 else f"(OpVec {zrow(x)})"
            wl = "None" if w_idx is None else f"(Some {w_idx}%nat)"
            emit(lambda: f"ZHeapDot {C.boolc(inplace)} {zmats(before)} {C.nat_list(ls)} {wl} {C.boolc(is_class)} {C.boolc(copy)} {xl} {mode}%nat {C.boolc(kd)} {H.zobj_res(st, out)} "
                         f"{zmats(arrs)} [{'; '.join(C.boolc(b) for b in shared)}] {C.boolc(same)}",
                 ("cp_mode_dot", "heap", tuple(ls), is_class, copy, kind, mode))
            chk.hist("alias_pattern", "shared" if len(set(ls)) < len(ls) else "distinct")
            chk.count(key=("cp_mode_dot-heap", tuple(pattern), is_class, copy, kind, mode), nontrivial=len(set(ls)) < len(ls))
            if mode < N and not (kind == "vec" and N == 1):
                judge("cp_mode_dot_alias", inp, (tuple(pattern), is_class, copy, kind, mode))

    # --- (D2) histories of copy=True calls, each on ANY tensor seen so far (the caller's operand or an earlier result)
    for it in range(16 * mult):
        N = rng.randint(2, 4)
        w, fs, feat = H.gen_cp(rng, N=N, maxdim=3)
        pattern = list(range(N))
        if it % 2 == 0:
            i, j = rng.sample(range(N), 2); pattern[j] = pattern[i]
        table = [w] + fs
        ls = [1 + p for p in pattern]
        is_class = rng.random() < 0.5
        inp0 = {"table": table, "ls": ls, "w_idx": 0, "is_class": is_class}
        st0, built = call(build_heap_operand, inp0)
        if st0 != "ok":
            continue
        arrs, facs, wv, operand = built
        before = [a.copy() for a in arrs]
        tensors, shapes = [operand], [[int(table[i].shape[0]) for i in ls]]
        ops, results, failed = [], [], False
        dense = [H.dense_cp(before[0], [before[i] for i in ls])]
        for step in range(rng.randint(2, 4)):
            k = rng.randrange(len(tensors))
            shp_k = shapes[k]
            mode = rng.randrange(len(shp_k))
            kind = rng.choice(["mat", "veck"] + (["vec"] if len(shp_k) >= 2 else []))
            if rng.random() < 0.08:
                kind = "badvec"
            x = H.gen_operand(rng, shp_k[mode], "vec" if kind == "veck" else kind)
            kd = kind == "veck"
            st, out = call(cp_mode_dot, tensors[k], x.copy(), mode, keep_dim=kd, copy=True)
            ops.append(f"({k}%nat, {'(OpMat ' + zmat(x) + ')' if x.ndim == 2 else '(OpVec ' + zrow(x) + ')'}, {mode}%nat, {C.boolc(kd)})")
            if st != "ok":
                failed = True
                break
            exp_d = H.dense_mode_dot(dense[k], x, mode, kd)
            got = H.dense_cp(np.asarray(out[0]), [np.asarray(f) for f in out[1]])
            if not H.close(got, exp_d, exact=True) or tuple(out.shape) != exp_d.shape:
                chk.finding("tensorly.cp_tensor.cp_mode_dot", {"table": table, "ls": ls, "w_idx": 0, "is_class": is_class, "copy": True, "x": x, "mode": mode, "keep_dim": kd, "step": step},
                            f"step {step} of a history of copy=True calls does not represent the mode product of its operand", "cp_mode_dot_history")
            tensors.append(out); shapes.append([int(d) for d in out.shape]); dense.append(exp_d); results.append(out)
        res_arrays = [np.asarray(a) for o in results for a in ([o[0]] + list(o[1]))]
        shared = [any(np.shares_memory(a, r) for r in res_arrays) for a in arrs]
        same = len(facs) == len(ls) and all(f is arrs[i] for f, i in zip(facs, ls))
        if not failed and (not H.same_arrays(arrs, before) or any(shared) or not same):
            chk.finding("tensorly.cp_tensor.cp_mode_dot", {"table": table, "ls": ls, "w_idx": 0, "is_class": is_class, "copy": True, "n_ops": len(ops)},
                        "a history of cp_mode_dot(copy=True) calls touched the caller's arrays / list or returned memory shared with them", "cp_mode_dot_history")
        exp = "Err" if failed else "(Ok [" + "; ".join(H.zobj_res("ok", o)[4:-1] for o in results) + "])"
        emit(lambda: f"ZHeapSeq {zmats(before)} {C.nat_list(ls)} (Some 0%nat) {C.boolc(is_class)} [{'; '.join(ops)}] {exp} "
                     f"{zmats(arrs)} [{'; '.join(C.boolc(b) for b in shared)}] {C.boolc(same)}",
             ("cp_mode_dot", "history", tuple(ls), is_class, len(ops), failed))
        chk.count(key=("cp_mode_dot-history", tuple(pattern), is_class, len(ops), failed), nontrivial=True)
        chk.hist("history_length", len(ops))

    # --- (D3) the copy flag of tucker_mode_dot on the heap: arrays and core never change; copy=True: list untouched, nothing shared
    for it in range(30 * mult):
        core, fs, feat = H.gen_tucker(rng)
        N = len(fs)
        ls = list(range(N))
        if it % 2 == 0:                                               # one array under two modes when two factors have the same shape
            pairs = [(i, j) for i in range(N) for j in range(N) if i < j and fs[i].shape == fs[j].shape]
            if pairs:
                i, j = rng.choice(pairs); ls[j] = ls[i]
        for _ in range(2):
            mode = rng.randrange(N + (1 if rng.random() < 0.1 else 0))
            kind = rng.choice(["mat", "vec", "veck"])
            d = fs[ls[mode]].shape[0] if mode < N else 2
            x = H.gen_operand(rng, d, "vec" if kind == "veck" else kind)
            kd = kind == "veck"
            copy = rng.random() < 0.5
            is_class = rng.random() < 0.5
            arrs = [f.copy() for f in fs]; facs = [arrs[i] for i in ls]; core_c = core.copy()
            before = [a.copy() for a in arrs]
            st0, operand = call(lambda: TuckerTensor((core_c, facs)) if is_class else (core_c, facs))
            if st0 != "ok":
                continue
            st, out = call(tucker_mode_dot, operand, x.copy(), mode, keep_dim=kd, copy=copy)
            if st != "ok":
                lit, shared, cshared = "Err", [False] * len(arrs), False
            else:
                ofs = [np.asarray(f) for f in out[1]]
                ok_print = H.integral(out[0], *ofs) and all(f.ndim == 2 for f in ofs)
                lit = f"(Ok ({ztens(out[0])}, {zmats(ofs)}))" if ok_print else "(Ok (mk [99999]%nat (@nil Z), (@nil (list (list Z)))))"
                shared = [any(np.shares_memory(a, r) for r in ofs) or np.shares_memory(a, np.asarray(out[0])) for a in arrs]
                cshared = bool(np.shares_memory(core_c, np.asarray(out[0])) or any(np.shares_memory(core_c, r) for r in ofs))
            same = len(facs) == len(ls) and all(f is arrs[i] for f, i in zip(facs, ls))
            xl = f"(OpMat {zmat(x)})" if x.ndim == 2 else f"(OpVec {zrow(x)})"
            emit(lambda: f"ZTkHeap {ztens(core)} {zmats(before)} {C.nat_list(ls)} {C.boolc(copy)} {xl} {mode}%nat {C.boolc(kd)} {lit} "
                         f"{zmats(arrs)} {ztens(core_c)} [{'; '.join(C.boolc(b) for b in shared)}] {C.boolc(cshared)} {C.boolc(same)}",
                 ("tucker_mode_dot", "heap", tuple(ls), is_class, copy, kind, mode))
            chk.count(key=("tucker_mode_dot-heap", tuple(ls), is_class, copy, kind, mode), nontrivial=len(set(ls)) < len(ls))
            chk.hist("tucker_alias_pattern", "shared" if len(set(ls)) < len(ls) else "distinct")
            if st == "ok":
                dense0 = H.dense_tucker(core, [before[i] for i in ls])
                exp_d = H.dense_mode_dot(dense0, x, mode, kd)
                inp = {"core": core, "table": before, "ls": ls, "x": x, "mode": mode, "keep_dim": kd, "copy": copy, "is_class": is_class}
                if not H.close(H.dense_tucker(np.asarray(out[0]), ofs), exp_d, exact=True):
                    chk.finding("tensorly.tucker_tensor.tucker_mode_dot", inp, "tucker_mode_dot on a factor list naming one array twice does not represent the mode product", "tucker_mode_dot_alias")
                if not H.same_arrays(arrs, before) or not np.array_equal(core_c, core):
                    chk.finding("tensorly.tucker_tensor.tucker_mode_dot", inp, f"tucker_mode_dot(copy={copy}) overwrote an array / the core of the caller", "tucker_mode_dot_alias")
                if copy and (any(shared) or cshared or not same):
                    chk.finding("tensorly.tucker_tensor.tucker_mode_dot", inp, "tucker_mode_dot(copy=True) touched the caller's list or returned memory shared with the caller's", "tucker_mode_dot_alias")

    # --- (F) round 6: all-fresh transforms and object methods on the heap, item assignment (stale shape attribute)
    from tensorly.cp_tensor import cp_flip_sign, cp_normalize, cp_permute_factors

    def observe(arrs, facs, ls, res_objs):
        res = [np.asarray(a) for o in res_objs for a in ([o[0]] + list(o[1]))]
        shared = [any(np.shares_memory(a, r) for r in res) for a in arrs]
        same = len(facs) == len(ls) and all(f is arrs[i] for f, i in zip(facs, ls))
        return shared, same

    def qobj(st, out):
        if st != "ok":
            return "Err"
        try:
            fs_ = [np.asarray(f, dtype=float) for f in out[1]]
            if any(f.ndim != 2 for f in fs_) or not np.all(np.isfinite(np.asarray(out[0], dtype=float))):
                raise ValueError
            return f"(Ok ({C.nat_list([int(d) for d in out.shape])}, ({qrow(np.asarray(out[0], dtype=float))}, {qmats(fs_)})))"
        except Exception:  # noqa
            return "(Ok ([99999]%nat, ((@nil Q), (@nil (list (list Q))))))"

    def qmats1(arrs):
        return "[" + "; ".join(qmat(np.asarray(a, dtype=float).reshape(1, -1) if np.asarray(a).ndim == 1 else np.asarray(a, dtype=float)) for a in arrs) + "]"

    for it in range(24 * mult):
        N = rng.randint(1, 4)
        w, fs, feat = H.gen_cp(rng, N=N, maxdim=3)
        pattern = list(range(N))
        if N >= 2 and it % 2 == 0:
            i, j = rng.sample(range(N), 2); pattern[j] = pattern[i]
        w_none = rng.random() < 0.25
        table = ([] if w_none else [w]) + fs
        off = 0 if w_none else 1
        ls = [off + p_ for p_ in pattern]
        is_class = rng.random() < 0.5
        mode = rng.randrange(N + (1 if rng.random() < 0.1 else 0))
        inp = {"table": table, "ls": ls, "w_idx": None if w_none else 0, "is_class": is_class}
        st0, built = call(build_heap_operand, inp)
        if st0 == "ok":
            arrs, facs, wv, operand = built
            w_idx = inp["w_idx"]
            if is_class and w_none:
                arrs.append(operand.weights); w_idx = len(arrs) - 1
            before = [a.copy() for a in arrs]
            st, out = call(cp_flip_sign, operand, mode, tl.sum)
            shared, same = observe(arrs, facs, ls, [out] if st == "ok" else [])
            wl = "None" if w_idx is None else f"(Some {w_idx}%nat)"
            emit(lambda: f"ZHeapFlip {zmats(before)} {C.nat_list(ls)} {wl} {C.boolc(is_class)} {mode}%nat {H.zobj_res(st, out)} "
                         f"{zmats(arrs)} [{'; '.join(C.boolc(b) for b in shared)}] {C.boolc(same)}", ("cp_flip_sign", "heap", tuple(ls), is_class, mode))
            chk.count(key=("cp_flip_sign-heap", tuple(pattern), is_class, mode), nontrivial=len(set(ls)) < len(ls))
            if st == "ok" and (not H.same_arrays(arrs, before) or any(shared) or not same):
                chk.finding("tensorly.cp_tensor.cp_flip_sign", dict(inp, mode=mode), "cp_flip_sign touched the caller's arrays / list or returned memory shared with them", "cp_flip_sign_heap")
        # cp_normalize / CPTensor.normalize(inplace) on quarter-integer data
        wq, fsq, _ = H.gen_cp(rng, N=N, float_=True, maxdim=3)
        tableq = ([] if w_none else [wq]) + fsq
        meth = rng.choice([0, 0, 1, 2])
        cls_q = True if meth else is_class
        inpq = {"table": tableq, "ls": ls, "w_idx": None if w_none else 0, "is_class": cls_q}
        st0, built = call(build_heap_operand, inpq)
        if st0 == "ok":
            arrs, facs, wv, operand = built
            w_idx = inpq["w_idx"]
            if cls_q and w_none:
                arrs.append(operand.weights); w_idx = len(arrs) - 1
            before = [a.copy() for a in arrs]
            w_eff = np.ones(fsq[0].shape[1]) if w_none else wq
            fs_eff = [tableq[i_] for i_ in ls]
            inter = [fs_eff[0] * w_eff] + list(fs_eff[1:])
            tape = "[" + "; ".join(qrow(np.sqrt(np.sum(a * a, axis=0))) for a in inter) + "]"
            if meth == 0:
                st, out = call(cp_normalize, operand)
            else:
                st, out = call(lambda: operand.normalize(inplace=(meth == 1)))
            self_res = st == "ok" and out is operand
            shared, same = observe(arrs, facs, ls, [out] if st == "ok" else [])
            if meth == 2 and st == "ok":                              # inplace=False: the operand still holds its own list and weights
                same = same and (operand.factors is facs) and (operand.weights is arrs[w_idx])
            wl = "None" if w_idx is None else f"(Some {w_idx}%nat)"
            emit(lambda: f"QHeapNorm {tape} {qmats1(before)} {C.nat_list(ls)} {wl} {C.boolc(cls_q)} {meth}%nat {qobj(st, out)} "
                         f"{qmats1(arrs)} [{'; '.join(C.boolc(b) for b in shared)}] {C.boolc(same)} {C.boolc(self_res)}",
                 ("cp_normalize", "heap", tuple(ls), cls_q, meth))
            chk.count(key=("cp_normalize-heap", tuple(pattern), cls_q, meth), nontrivial=True)
            chk.hist("normalize_form", {0: "function", 1: "method inplace=True", 2: "method inplace=False"}[meth])
            if st == "ok":
                d0 = H.dense_cp(w_eff, fs_eff)
                if not H.close(H.dense_cp(np.asarray(out[0]), [np.asarray(f) for f in out[1]]), d0):
                    chk.finding("tensorly.cp_tensor.CPTensor.normalize" if meth else "tensorly.cp_tensor.cp_normalize", dict(inpq, meth=meth), "normalisation changed the represented tensor", "cp_normalize_heap")
                if not H.same_arrays(arrs, before) or any(shared) or not same:
                    chk.finding("tensorly.cp_tensor.CPTensor.normalize" if meth else "tensorly.cp_tensor.cp_normalize", dict(inpq, meth=meth), "normalisation overwrote an array of the caller / returned memory shared with the caller's", "cp_normalize_heap")
                if meth and (self_res != (meth == 1)):
                    chk.finding("tensorly.cp_tensor.CPTensor.normalize", dict(inpq, meth=meth), "normalize(inplace=True) must return the tensor itself, normalize(inplace=False) a copy", "cp_normalize_heap")
                if meth == 2 and not H.close(H.dense_cp(np.asarray(operand[0]), [np.asarray(f) for f in operand[1]]), d0):
                    chk.finding("tensorly.cp_tensor.CPTensor.normalize", dict(inpq, meth=meth), "normalize(inplace=False) changed the operand", "cp_normalize_heap")
        # item assignment on a CPTensor, then a mode product: the shape attribute is not refreshed (C03's known finding owns the defect;
        # here the model must follow the code: cached-shape test AND real row count)
        try:
            refresh = setitem_refreshes_from_source()
        except BrokenTie as e_:
            refresh = False
            if not any("__setitem__" in str(b.get("what")) for b in chk.broken):
                chk.broken.append({"what": "source tie broken: CPTensor.__setitem__ could not be read off the source (it selects the item-assignment variant of the heap model)", "detail": str(e_)})
        chk.cov["cptensor_setitem"] = "refreshes the cached shape" if refresh else "plain attribute rebinding (cached shape kept)"
        if N >= 1:
            kind = rng.choice(["same", "rows", "rows", "fewer", "more"])
            newfs = [H.rint(rng, -3, 3, f.shape) for f in fs]
            kbad = rng.randrange(N)
            if kind == "rows":
                newfs[kbad] = H.rint(rng, -3, 3, (fs[kbad].shape[0] + rng.choice([1, 2]), fs[kbad].shape[1]))
            elif kind == "fewer" and N >= 2:
                newfs = newfs[:-1]
            elif kind == "more":
                newfs = newfs + [H.rint(rng, -3, 3, (2, fs[0].shape[1]))]
            arrs = [w.copy()] + cps(fs) + cps(newfs)
            obj_ = CPTensor((arrs[0], [arrs[1 + i_] for i_ in range(N)]))
            newlist = [arrs[1 + N + i_] for i_ in range(len(newfs))]
            obj_[1] = newlist
            for _ in range(2):
                mode2 = rng.randrange(max(len(newfs), N))
                rows_new = newfs[mode2].shape[0] if mode2 < len(newfs) else 2
                rows_old = fs[mode2].shape[0] if mode2 < N else 2
                d = rng.choice([rows_new, rows_old])
                kind2 = rng.choice(["mat", "veck"] + (["vec"] if len(newfs) >= 2 else []))
                x = H.gen_operand(rng, d, "vec" if kind2 == "veck" else kind2)
                kd = kind2 == "veck"
                copy = True                                            # copy=False would update obj_ and spoil the second probe
                st, out = call(cp_mode_dot, obj_, x.copy(), mode2, keep_dim=kd, copy=copy)
                xl = f"(OpMat {zmat(x)})" if x.ndim == 2 else f"(OpVec {zrow(x)})"
                emit(lambda: f"ZHeapStale {C.boolc(inplace)} {C.boolc(refresh)} {zmats(arrs)} {C.nat_list(list(range(1, N + 1)))} {C.nat_list(list(range(N + 1, N + 1 + len(newfs))))} 0%nat "
                             f"{C.boolc(copy)} {xl} {mode2}%nat {C.boolc(kd)} {H.zobj_res(st, out)}", ("cp_mode_dot", "after-setitem", kind, mode2, kind2, d == rows_new, d == rows_old))
                chk.count(key=("cp_mode_dot-setitem", kind, kind2, d == rows_new, d == rows_old), nontrivial=kind != "same")
                chk.hist("setitem", kind + ":" + st)
                if st == "ok" and mode2 < len(newfs):
                    expd = H.dense_mode_dot(H.dense_cp(w, newfs), x, mode2, kd) if d == rows_new else None
                    if expd is None or not H.close(H.dense_cp(np.asarray(out[0]), [np.asarray(f) for f in out[1]]), expd, exact=True):
                        chk.finding("tensorly.cp_tensor.cp_mode_dot", {"w": w, "fs": newfs, "x": x, "mode": mode2, "keep_dim": kd, "copy": copy, "old_shape": [int(f.shape[0]) for f in fs]},
                                    "cp_mode_dot on a CPTensor whose factors were replaced by item assignment returned a tensor that is not the mode product of its contents", "cp_mode_dot_setitem")

    # cp_permute_factors on the heap: the permuted copy is all fresh, the operand (incl. aliased factors) untouched
    for it in range(12 * mult):
        R = rng.randint(1, 3); N = rng.randint(1, 3)
        w, fs, feat = H.gen_cp(rng, N=N, R=R, feat=rng.choice(["none", "neg_w", "pos"]))
        fs = [f.astype(np.float64) for f in fs]; w = w.astype(np.float64)
        for f in fs:
            for r_ in range(R):
                if not np.any(f[:, r_]):
                    f[0, r_] = 1.0
        w[w == 0] = 1.0
        pattern = list(range(N))
        if N >= 2 and it % 2 == 0 and fs[0].shape == fs[1].shape:
            pattern[1] = 0
        ls = [1 + p_ for p_ in pattern]
        arrs = [w.copy()] + cps(fs)
        facs = [arrs[i_] for i_ in ls]
        before = [a.copy() for a in arrs]
        p0 = list(range(R)); rng.shuffle(p0)
        ref = CPTensor((np.ones(R), [facs[k_][:, p0].copy() * rng.choice([1.0, -1.0, 2.0]) for k_ in range(N)]))
        t = CPTensor((arrs[0], facs))
        st, out = call(cp_permute_factors, ref, t)
        if st != "ok":
            continue
        pt, perms = out
        perm = [int(x_) for x_ in perms[0]]
        shared, same = observe(arrs, facs, ls, [pt])
        emit(lambda: f"ZHeapPerm {C.nat_list(perm)} {zmats(before)} {C.nat_list(ls)} 0%nat {H.zobj_res('ok', pt)} "
                     f"{zmats(arrs)} [{'; '.join(C.boolc(b) for b in shared)}] {C.boolc(same)}", ("cp_permute_factors", "heap", tuple(ls), tuple(perm)))
        chk.count(key=("cp_permute-heap", tuple(pattern), tuple(perm)), nontrivial=R > 1)
        if not H.same_arrays(arrs, before) or any(shared) or not same:
            chk.finding("tensorly.cp_tensor.cp_permute_factors", {"w": w, "fs": fs, "ls": ls}, "cp_permute_factors touched its operand / returned memory shared with it", "cp_permute_heap")

    # --- (G) round 6: tucker_normalize on (core, factors) that are NOT valid Tucker tensors: NumPy broadcasting decides
    for it in range(20 * mult):
        core, fs, feat = H.gen_tucker(rng, float_=True)
        N = len(fs)
        k = rng.randrange(N)
        kind = rng.choice(["core1", "fac1", "extra1", "extra_last", "fewer", "mismatch", "core1d", "valid"])
        cv, fv = core, list(fs)
        if kind == "core1":
            cv = np.take(core, [0], axis=k)
        elif kind == "fac1":
            fv[k] = fs[k][:, :1]
        elif kind == "extra1":
            fv = fv + [H.rint(rng, -3, 3, (2, 1)).astype(np.float64) / 4]
        elif kind == "extra_last":
            fv = fv + [H.rint(rng, -3, 3, (2, core.shape[-1])).astype(np.float64) / 4]
        elif kind == "fewer":
            fv = fv[:-1]
        elif kind == "mismatch":
            fv[k] = np.concatenate([fs[k], fs[k][:, :1], fs[k][:, :1]], axis=1)
        elif kind == "core1d":
            c_last = fs[1].shape[1]
            cv = H.rint(rng, -3, 3, (c_last,)).astype(np.float64) / 2
            fv = [fs[0][:, :1], fs[1]]
        st, out = call(tucker_normalize, (cv.copy(), cps(fv)))
        tape = "[" + "; ".join(qrow(np.sqrt(np.sum(f * f, axis=0))) for f in fv) + "]"
        if st != "ok":
            lit = "Err"
        else:
            ofs = [np.asarray(f, dtype=float) for f in out[1]]
            oc = np.asarray(out[0], dtype=float)
            if all(f.ndim == 2 for f in ofs) and np.all(np.isfinite(oc)) and all(np.all(np.isfinite(f)) for f in ofs) and small([oc.shape, out.shape, out.rank]):
                lit = f"(Ok ({C.nat_list([int(d) for d in out.shape])}, {C.nat_list([int(d) for d in out.rank])}, ({qtens(oc)}, {qmats(ofs)})))"
            else:
                lit = "(Ok ([99999]%nat, [99999]%nat, (mk [99999]%nat (@nil Q), (@nil (list (list Q))))))"
        emit(lambda: f"QTkNormBc {tape} {qtens(cv)} {qmats(fv)} {lit}", ("tucker_normalize", "broadcast", kind, tuple(cv.shape), shp(fv)))
        chk.count(key=("tucker_normalize-bc", kind, st), nontrivial=kind != "valid")
        chk.hist("tucker_normalize_invalid", kind + ":" + st)

    # --- (E) the documented meaning of max_rank
    for it in range(12 * mult):
        K = rng.randint(1, 3)
        slices = [np.array([[rng.gauss(0, 1) for _ in range(K)] for _ in range(rng.randint(1, 5))]) for _ in range(rng.randint(1, 3))]
        judge("svd_compress_rank", {"slices": slices, "threshold": rng.choice([0.0, 0.0, 0.25, 1e-3]), "max_rank": rng.choice([None, 1, 2, K, K + 1])}, (shp(slices[:1]), "max_rank"))
