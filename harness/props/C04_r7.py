"""C04, round 7 additions (imported by C04.py):
  * pad_tt_rank / tt_to_tensor / tr_to_tensor on COMPLEX cores (complex128 / complex64 arrays with Gaussian-integer entries, compared exactly
    with the model over the Gaussian integers, Model/TransformsCplx.v) and on float32 cores: the padded train / ring must represent the same
    tensor, imaginary parts included;
  * the documented compress -> fit -> decompress pipeline (svd_compress_tensor_slices, a PARAFAC2 tensor that represents the scores,
    svd_decompress_parafac2_tensor) on slice lists of MIXED heights in every order (short slices pass through with loading None, tall ones
    are compressed): Model/TransformsRT.v, theorem C04_compress_decompress_list;
  * svd_decompress_parafac2_tensor with every None pattern of the loading list (exact, integer data)."""
import itertools
import numpy as np
from harness import common as C


def _H():
    from harness.props import C04 as H
    return H


# ----------------------------------------------------------------------------- Gaussian-integer literals
def gz(c):
    c = complex(c)
    return f"(({int(c.real)})%Z, ({int(c.imag)})%Z)"


def gaussian_integral(*arrs):
    for a in arrs:
        a = np.asarray(a)
        if a.dtype.kind not in "iufc" or not np.all(np.isfinite(a)):
            return False
        if not (np.all(np.real(a) == np.rint(np.real(a))) and np.all(np.imag(a) == np.rint(np.imag(a)))):
            return False
        if a.size and max(float(np.max(np.abs(np.real(a)))), float(np.max(np.abs(np.imag(a))))) > 2 ** 50:
            return False
    return True


def gtens(a):
    a = np.asarray(a)
    data = "[" + "; ".join(gz(x) for x in a.ravel()) + "]" if a.size else "(@nil (Z * Z))"
    return f"(mk {C.nat_list(list(a.shape))} {data})"


def gtens_list(ts):
    return "[" + "; ".join(gtens(t) for t in ts) + "]" if len(ts) else "(@nil (tensor (Z * Z)))"


def gen_ctt(rng, ring, dtype):
    """complex cores (r_i, n_i, r_{i+1}) with Gaussian-integer entries; at least one entry of every core has a non-zero imaginary part"""
    N = rng.randint(1, 3)
    ranks = [rng.randint(1, 3) for _ in range(N + 1)]
    if ring:
        ranks[-1] = ranks[0]
    else:
        ranks[0] = ranks[-1] = 1
    cores = []
    for i in range(N):
        shape = (ranks[i], rng.randint(1, 3), ranks[i + 1])
        n = int(np.prod(shape))
        re = np.array([rng.randint(-2, 2) for _ in range(n)], dtype=np.float64)
        im = np.array([rng.randint(-2, 2) for _ in range(n)], dtype=np.float64)
        if not np.any(im):
            im[rng.randrange(n)] = rng.choice([-1.0, 1.0, 2.0])
        if not np.any(re * im):                      # one entry with both parts non-zero: neither part can be dropped unnoticed
            k = rng.randrange(n); re[k] = rng.choice([-1.0, 1.0]); im[k] = rng.choice([-2.0, 1.0])
        cores.append((re + 1j * im).reshape(shape).astype(dtype))
    return cores


# ----------------------------------------------------------------------------- mixed-height slice lists
PATTERNS = ["ST", "TS", "STT", "TSS", "STS", "TST", "STST", "TSTS", "SS", "TT", "SST"]


def gen_mixed_pf2(rng, pattern):
    """an exact, well-conditioned PARAFAC2 tensor whose slices are short (R <= rows <= K: passed through by the compression) or tall
    (rows > K: compressed) in the order given by `pattern`"""
    H = _H()
    R = rng.randint(1, 2)
    K = rng.randint(R, 3)
    I = len(pattern)
    tall = K + rng.randint(1, 2)                       # most lists give all their tall slices the same height (loadings of equal shapes)
    same = rng.random() < 0.7
    heights = [rng.randint(R, K) if c == "S" else (tall if same else K + rng.randint(1, 2)) for c in pattern]
    A = np.array([[rng.choice([1.0, -1.0, 2.0, 0.5, 1.5]) for _ in range(R)] for _ in range(I)])
    B = H.orth(rng, R, R) * np.array([rng.choice([1.0, 1.5, 2.0]) for _ in range(R)])
    Cm = H.orth(rng, K, R) * np.array([rng.choice([1.0, 2.0, 0.5]) for _ in range(R)])
    w = np.array([rng.choice([1.0, 2.0, -1.5, 0.5]) for _ in range(R)])
    Ps = [H.orth(rng, h, R) for h in heights]
    return w, [A, B, Cm], Ps


PRED, ENTRY = {}, {}


# ----------------------------------------------------------------------------- the cases
def run_round7(chk, rng, judge, mult, emit):
    H = _H()
    from tensorly.tt_tensor import tt_to_tensor, pad_tt_rank
    from tensorly.tr_tensor import tr_to_tensor
    from tensorly.parafac2_tensor import Parafac2Tensor
    from tensorly.preprocessing import svd_compress_tensor_slices, svd_decompress_parafac2_tensor
    from tensorly.tenalg.svd import svd_interface
    call, cps, qrow, qmat, qmat2, qmats, zrow, zmat, zmats = H.call, H.cps, H.qrow, H.qmat, H.qmat2, H.qmats, H.zrow, H.zmat, H.zmats

    def sh(arrs):
        return tuple(tuple(np.asarray(a).shape) for a in arrs)

    # --- (A) complex cores: dense reconstruction and padding over the Gaussian integers (exact)
    for it in range(16 * mult):
        ring = it % 2 == 1
        dtype = np.complex64 if it % 4 >= 2 else np.complex128
        cores = gen_ctt(rng, ring, dtype)
        if it % 8 in (3, 4):                          # mixed list: a REAL first core (float64 / float32) followed by complex ones
            cores[0] = np.real(cores[0]).astype(np.float64 if it % 8 == 3 else np.float32)
            chk.hist("pad_dtype", "real-first")
        if not ring or len(cores) >= 2:
            st, out = call(tr_to_tensor if ring else tt_to_tensor, cps(cores))
            exp = "(mk [99999]%nat (@nil (Z * Z)))" if st != "ok" or not gaussian_integral(out) else gtens(out)
            emit(lambda: f"GTTDense {C.boolc(ring)} {gtens_list(cores)} {exp}", ("tr_to_tensor" if ring else "tt_to_tensor", "complex", sh(cores)))
            chk.count(key=("tt_to_tensor-complex", ring, sh(cores)))
            if st != "ok" or not H.close(out, H.dense_tt(cores, ring)):
                chk.finding("tensorly.tr_tensor.tr_to_tensor" if ring else "tensorly.tt_tensor.tt_to_tensor", {"cores": cores},
                            "dense reconstruction of complex cores differs from the chain-product definition", "tt_to_tensor")
        for npad in (1, rng.randint(2, 3)):
            for pb in ((ring,) if it % 4 < 2 else (ring, not ring)):
                st, out = call(pad_tt_rank, cps(cores), n_padding=npad, pad_boundaries=pb)
                chk.hist("outcome", st); chk.hist("pad_dtype", np.dtype(dtype).name)
                if st == "ok" and gaussian_integral(*out) and all(np.asarray(g).ndim == 3 for g in out):
                    lit = f"(Ok {gtens_list([np.asarray(g) for g in out])})"
                else:
                    lit = "Err" if st != "ok" else "(Ok [mk [99999]%nat (@nil (Z * Z))])"
                emit(lambda: f"GPad {C.boolc(ring)} {gtens_list(cores)} {npad}%nat {C.boolc(pb)} {lit}", ("pad_tt_rank", "complex", sh(cores), npad, pb))
                judge("pad_tt_rank", {"cores": cores, "n_padding": npad, "pad_boundaries": pb, "ring": ring}, ("complex", np.dtype(dtype).name, sh(cores), npad, pb, ring))
    # float32 cores (integer-valued): the existing exact case form
    for it in range(6 * mult):
        ring = it % 2 == 1
        cores = [g.astype(np.float32) for g in H.gen_tt(rng, ring)]
        npad, pb = rng.randint(1, 2), ring
        st, out = call(pad_tt_rank, cps(cores), n_padding=npad, pad_boundaries=pb)
        chk.hist("outcome", st); chk.hist("pad_dtype", "float32")
        if st == "ok" and H.integral(*out) and all(np.asarray(g).ndim == np.asarray(c).ndim for g, c in zip(out, cores)):
            lit = f"(Ok {H.ztens_list([np.asarray(g) for g in out])})"
        else:
            lit = "Err" if st != "ok" else "(Ok [mk [99999]%nat (@nil Z)])"
        emit(lambda: f"ZPad {H.ztens_list(cores)} {npad}%nat {C.boolc(pb)} {lit}", ("pad_tt_rank", "float32", sh(cores), npad, pb))
        judge("pad_tt_rank", {"cores": cores, "n_padding": npad, "pad_boundaries": pb, "ring": ring}, ("float32", sh(cores), npad, pb, ring))

    # --- (B) compress -> fit -> decompress on mixed-height slice lists, every order (toleranced; SVD answers are data with their contract)
    pats = list(PATTERNS) if mult > 1 else PATTERNS[:8] + [rng.choice(PATTERNS[8:])]
    for rep in range(mult if mult == 1 else 4):
        for pattern in pats:
            w, (A, B, Cm), Ps = gen_mixed_pf2(rng, pattern)
            K = Cm.shape[0]
            X = H.pf2_slices(w, A, B, Cm, Ps)
            mr = rng.choice([None, None, K, K + 1])
            st, out = call(svd_compress_tensor_slices, cps(X), compression_threshold=0.0, max_rank=mr)
            chk.hist("outcome", st)
            if st != "ok":
                chk.finding("tensorly.preprocessing.svd_compress_tensor_slices", {"slices": X, "threshold": 0.0, "max_rank": mr}, f"svd_compress_tensor_slices raised: {out}", "svd_compress_tensor_slices")
                continue
            scores, loads = out
            flags = [L is not None for L in loads]
            chk.hist("mixed_pattern", pattern + ":" + "".join("T" if f else "S" for f in flags))
            # the model's own pipeline (tapes = the SVD answers the harness records; a slice is compressed iff it has more than n_cols rows)
            # and the implementation's (its own loadings) are run independently: both must reproduce the data
            tapes, full, Qm = [], [], []
            for Xi, P in zip(X, Ps):
                if Xi.shape[0] <= K:
                    tapes.append("((@nil (list Q)), (@nil Q), (@nil (list Q)))"); full.append(False); Qm.append(P)
                else:
                    U, sv, Vh = svd_interface(Xi.copy(), n_eigenvecs=K, method="truncated_svd")
                    U, sv, Vh = np.asarray(U), np.asarray(sv), np.asarray(Vh)
                    tapes.append(f"({qmat2(U)}, {qrow(sv)}, {qmat2(Vh)})")
                    full.append(bool(len(sv) == min(Xi.shape) and U.shape[1] == len(sv) == Vh.shape[0]))
                    Qm.append(U.T @ P)
            Qi = [P if L is None else np.asarray(L).T @ P for P, L in zip(Ps, loads)]
            if not all(H.close(Q.T @ Q, np.eye(Q.shape[1])) for Q in Qm + Qi):
                chk.hist("mixed_pattern", "premise-failed"); continue
            st, dec = call(lambda: svd_decompress_parafac2_tensor(Parafac2Tensor((w.copy(), cps([A, B, Cm]), cps(Qi))), loads))
            chk.hist("outcome", st)
            if st == "ok" and all(np.asarray(p).ndim == 2 and np.all(np.isfinite(np.asarray(p))) for p in dec[2]):
                lit = f"(Ok {qmats([np.asarray(p) for p in dec[2]])})"
            else:
                lit = "Err" if st != "ok" else "(Ok [[[(Qmake (99999)%Z (1)%positive)]]])"
            mrl = "None" if mr is None else f"(Some {mr}%nat)"
            emit(lambda: f"QRoundTrip {qmats(X)} {mrl} [{'; '.join(tapes)}] [{'; '.join(C.boolc(b) for b in full)}] "
                         f"{qrow(w)} {qmat(A)} {qmat(B)} {qmat(Cm)} {qmats(Qm)} {lit}",
                 ("svd_compress_decompress", "mixed", pattern, sh(X), mr))
            judge("svd_compress_decompress", {"w": w, "fs": [A, B, Cm], "Ps": Ps}, ("mixed", pattern, sh(X), mr))

    # --- (C) svd_decompress on integer data: every None pattern of the loading list for 2 and 3 slices (exact)
    for I in (2, 3):
        for nones in itertools.product([True, False], repeat=I):
            if mult == 1 and I == 3 and rng.random() < 0.5:
                continue
            while True:
                w, (A, B, Cm), Ps = H.gen_pf2_int(rng)
                if len(Ps) == I:
                    break
            extra = rng.randint(0, 2)                      # 0: square loadings (a signed permutation of the rows of P_i)
            Ls = [None if n else H.sperm(rng, P.shape[0] + (extra if rng.random() < 0.7 else rng.randint(0, 2)), P.shape[0]) for n, P in zip(nones, Ps)]
            pf = (w.copy(), cps([A, B, Cm]), cps(Ps))
            st, out = call(lambda: svd_decompress_parafac2_tensor(Parafac2Tensor(pf), [None if L is None else L.copy() for L in Ls]))
            if st == "ok" and H.integral(*out[2]) and all(np.asarray(p).ndim == 2 for p in out[2]):
                lit = f"(Ok {zmats([np.asarray(p) for p in out[2]])})"
            else:
                lit = "Err" if st != "ok" else "(Ok [[[(99999)%Z]]])"
            emit(lambda: f"ZDecomp {zrow(w)} {zmat(A)} {zmat(B)} {zmat(Cm)} {zmats(Ps)} {H.zopt_mats(Ls)} {lit}", ("svd_decompress", "none-pattern", sh(Ps), nones))
            judge("svd_decompress_parafac2_tensor", {"w": w, "fs": [A, B, Cm], "Ps": Ps, "Ls": Ls}, ("none-pattern", sh(Ps), nones))
            chk.hist("none_pattern", "".join("N" if n else "L" for n in nones))
