"""C04, round 7 additions (imported by C04.py):
  * pad_tt_rank / tt_to_tensor / tr_to_tensor on COMPLEX cores (complex128 / complex64 arrays with Gaussian-integer entries, compared exactly
    with the model over the Gaussian integers, Model/TransformsCplx.v) and on float32 cores: the padded train / ring must represent the same
    tensor, imaginary parts included;
  * the documented compress -> fit -> decompress pipeline (svd_compress_tensor_slices, a PARAFAC2 tensor that represents the scores,
    svd_decompress_parafac2_tensor) on slice lists of MIXED heights in every order (short slices pass through with loading None, tall ones
    are compressed): Model/TransformsRT.v, theorem C04_compress_decompress_list;
  * svd_decompress_parafac2_tensor with every None pattern of the loading list (exact, integer data)."""
import itertools
import numpy as np
from harness import common as C


def _H():
    from harness.props import C04 as H
    return H


# ----------------------------------------------------------------------------- Gaussian-integer literals
def gz(c):
    c = complex(c)
    return f"(({int(c.real)})%Z, ({int(c.imag)})%Z)"


def gaussian_integral(*arrs):
    for a in arrs:
        a = np.asarray(a)
        if a.dtype.kind not in "iufc" or not np.all(np.isfinite(a)):
            return False
        if not (np.all(np.real(a) == np.rint(np.real(a))) and np.all(np.imag(a) == np.rint(np.imag(a)))):
            return False
        if a.size and max(float(np.max(np.abs(np.real(a)))), float(np.max(np.abs(np.imag(a))))) > 2 ** 50:
            return False
    return True


def gtens(a):
    a = np.asarray(a)
    data = "[" + "; ".join(gz(x) for x in a.ravel()) + "]" if a.size else "(@nil (Z * Z))"
    return f"(mk {C.nat_list(list(a.shape))} {data})"


def gtens_list(ts):
    return "[" + "; ".join(gtens(t) for t in ts) + "]" if len(ts) else "(@nil (tensor (Z * Z)))"


def grow(r):
    r = list(np.asarray(r).ravel())
    return "[" + "; ".join(gz(x) for x in r) + "]" if len(r) else "(@nil (Z * Z))"


def gmat(A):
    A = np.asarray(A)
    if A.ndim == 1:
        A = A.reshape(1, -1)
    return "[" + "; ".join(grow(r) for r in A) + "]" if len(A) else "(@nil (list (Z * Z)))"


def gmats(fs):
    return "[" + "; ".join(gmat(f) for f in fs) + "]" if len(fs) else "(@nil (list (list (Z * Z))))"


def cint(rng, shape, dtype=np.complex128):
    n = int(np.prod(shape))
    re = np.array([rng.randint(-2, 2) for _ in range(n)], dtype=np.float64)
    im = np.array([rng.randint(-2, 2) for _ in range(n)], dtype=np.float64)
    return (re + 1j * im).reshape(shape).astype(dtype)


def gen_ctt(rng, ring, dtype):
    """complex cores (r_i, n_i, r_{i+1}) with Gaussian-integer entries; at least one entry of every core has a non-zero imaginary part"""
    N = rng.randint(1, 3)
    ranks = [rng.randint(1, 3) for _ in range(N + 1)]
    if ring:
        ranks[-1] = ranks[0]
    else:
        ranks[0] = ranks[-1] = 1
    cores = []
    for i in range(N):
        shape = (ranks[i], rng.randint(1, 3), ranks[i + 1])
        n = int(np.prod(shape))
        re = np.array([rng.randint(-2, 2) for _ in range(n)], dtype=np.float64)
        im = np.array([rng.randint(-2, 2) for _ in range(n)], dtype=np.float64)
        if not np.any(im):
            im[rng.randrange(n)] = rng.choice([-1.0, 1.0, 2.0])
        if not np.any(re * im):                      # one entry with both parts non-zero: neither part can be dropped unnoticed
            k = rng.randrange(n); re[k] = rng.choice([-1.0, 1.0]); im[k] = rng.choice([-2.0, 1.0])
        cores.append((re + 1j * im).reshape(shape).astype(dtype))
    return cores


# ----------------------------------------------------------------------------- mixed-height slice lists
PATTERNS = ["ST", "TS", "STT", "TSS", "STS", "TST", "STST", "TSTS", "SS", "TT", "SST"]


def gen_mixed_pf2(rng, pattern):
    """an exact, well-conditioned PARAFAC2 tensor whose slices are short (R <= rows <= K: passed through by the compression) or tall
    (rows > K: compressed) in the order given by `pattern`"""
    H = _H()
    R = rng.randint(1, 2)
    K = rng.randint(R, 3)
    I = len(pattern)
    tall = K + rng.randint(1, 2)                       # most lists give all their tall slices the same height (loadings of equal shapes)
    same = rng.random() < 0.7
    heights = [rng.randint(R, K) if c == "S" else (tall if same else K + rng.randint(1, 2)) for c in pattern]
    A = np.array([[rng.choice([1.0, -1.0, 2.0, 0.5, 1.5]) for _ in range(R)] for _ in range(I)])
    B = H.orth(rng, R, R) * np.array([rng.choice([1.0, 1.5, 2.0]) for _ in range(R)])
    Cm = H.orth(rng, K, R) * np.array([rng.choice([1.0, 2.0, 0.5]) for _ in range(R)])
    w = np.array([rng.choice([1.0, 2.0, -1.5, 0.5]) for _ in range(R)])
    Ps = [H.orth(rng, h, R) for h in heights]
    return w, [A, B, Cm], Ps


# ----------------------------------------------------------------------------- TuckerTensor object methods
class BrokenTie7(Exception):
    pass


def tucker_setitem_refreshes_from_source(module=None):
    """does TuckerTensor.__setitem__ of the CURRENT source touch the cached attributes (assign self.shape / self.rank, or call a validator)?"""
    import ast, inspect, textwrap
    if module is None:
        import tensorly.tucker_tensor as module
    src = module if isinstance(module, str) else textwrap.dedent(inspect.getsource(module))
    cls = [n for n in ast.walk(ast.parse(src)) if isinstance(n, ast.ClassDef) and n.name == "TuckerTensor"]
    fn = [n for c in cls for n in c.body if isinstance(n, ast.FunctionDef) and n.name == "__setitem__"]
    if len(fn) != 1:
        raise BrokenTie7("TuckerTensor.__setitem__ not found")
    for n in ast.walk(fn[0]):
        if isinstance(n, ast.Attribute) and isinstance(n.value, ast.Name) and n.value.id == "self" and n.attr in ("shape", "rank") and isinstance(n.ctx, ast.Store):
            return True
        if isinstance(n, ast.Call) and isinstance(n.func, ast.Name) and "validate" in n.func.id:
            return True
    return False


def pred_tucker_obj_normalize(inp):
    """obj.normalize() is in place: returns None, obj represents the same tensor with unit-norm factor columns, its shape / rank
    attributes describe what it holds, the arrays the caller passed in are untouched"""
    from tensorly.tucker_tensor import TuckerTensor
    H = _H()
    core, fs = inp["core"], inp["fs"]
    c0, f0 = np.array(core, copy=True), H.cps(fs)
    st, obj = H.call(lambda: TuckerTensor((c0, f0)))
    if st != "ok":
        return f"TuckerTensor raised: {obj}"
    st, ret = H.call(obj.normalize)
    if st != "ok":
        return f"TuckerTensor.normalize raised: {ret}"
    if ret is not None:
        return "TuckerTensor.normalize is documented in place but returned a value"
    c2, fs2 = np.asarray(obj.core), [np.asarray(f) for f in obj.factors]
    before = H.dense_tucker(core, fs)
    if not H.close(H.dense_tucker(c2, fs2), before):
        return "TuckerTensor.normalize changed the represented tensor"
    for k, f in enumerate(fs2):
        n = np.sqrt(np.sum(f * f, axis=0))
        for r in range(f.shape[1]):
            if np.any(fs[k][:, r]) and abs(n[r] - 1) > 1e-9:
                return f"column {r} of factor {k} has norm {n[r]!r} after obj.normalize()"
    if tuple(obj.shape) != before.shape or tuple(obj.rank) != tuple(core.shape):
        return f"after obj.normalize() the object advertises shape {tuple(obj.shape)}, rank {tuple(obj.rank)} but holds shape {before.shape}, rank {tuple(core.shape)}"
    if not (H.same_arrays(f0, fs) and H.same_arrays([c0], [core])):
        return "TuckerTensor.normalize overwrote an array the caller passed in"
    return None


def pred_tucker_obj_mode_dot(inp):
    """obj.mode_dot(x, mode, keep_dim, copy): the result represents the mode product and advertises its shape; no array of the caller is
    overwritten; copy=True: the operand object still represents its tensor and its attributes are right"""
    from tensorly.tucker_tensor import TuckerTensor
    H = _H()
    core, fs, x = inp["core"], inp["fs"], inp["x"]
    c0, arrs0 = np.array(core, copy=True), H.cps(fs)
    f0 = list(arrs0)                                   # the list handed to the object (copy=False may pop / replace its entries)
    st, obj = H.call(lambda: TuckerTensor((c0, f0)))
    if st != "ok":
        return f"TuckerTensor raised: {obj}"
    before = H.dense_tucker(core, fs)
    st, r = H.call(lambda: obj.mode_dot(np.array(x, copy=True), inp["mode"], keep_dim=inp["keep_dim"], copy=inp["copy"]))
    if st != "ok":
        return f"TuckerTensor.mode_dot raised: {r}"
    exp = H.dense_mode_dot(before, x, inp["mode"], inp["keep_dim"])
    if not H.close(H.dense_tucker(np.asarray(r.core), [np.asarray(f) for f in r.factors]), exp, exact=H.is_int(before, x)):
        return "TuckerTensor.mode_dot does not represent the mode product of the dense tensor"
    if tuple(r.shape) != exp.shape:
        return f"TuckerTensor.mode_dot: advertised shape {tuple(r.shape)} but represents {exp.shape}"
    if not (H.same_arrays(arrs0, fs) and H.same_arrays([c0], [core])):
        return "TuckerTensor.mode_dot overwrote an array the caller passed in"
    if inp["copy"]:
        try:
            still = H.close(H.dense_tucker(np.asarray(obj.core), [np.asarray(f) for f in obj.factors]), before, exact=H.is_int(before))
        except Exception:  # noqa   (core and factor list no longer fit together)
            still = False
        if not still:
            return "TuckerTensor.mode_dot(copy=True): the operand object no longer represents its tensor"
        if tuple(obj.shape) != before.shape:
            return "TuckerTensor.mode_dot(copy=True): the operand's shape attribute changed"
    return None


PRED = {"tucker_obj_normalize": pred_tucker_obj_normalize, "tucker_obj_mode_dot": pred_tucker_obj_mode_dot}
ENTRY = {"tucker_obj_normalize": "tensorly.tucker_tensor.TuckerTensor.normalize", "tucker_obj_mode_dot": "tensorly.tucker_tensor.TuckerTensor.mode_dot"}


# ----------------------------------------------------------------------------- the cases
def run_round7(chk, rng, judge, mult, emit):
    H = _H()
    from tensorly.tt_tensor import tt_to_tensor, pad_tt_rank
    from tensorly.tr_tensor import tr_to_tensor
    from tensorly.parafac2_tensor import Parafac2Tensor
    from tensorly.preprocessing import svd_compress_tensor_slices, svd_decompress_parafac2_tensor
    from tensorly.tenalg.svd import svd_interface
    call, cps, qrow, qmat, qmat2, qmats, zrow, zmat, zmats = H.call, H.cps, H.qrow, H.qmat, H.qmat2, H.qmats, H.zrow, H.zmat, H.zmats

    def sh(arrs):
        return tuple(tuple(np.asarray(a).shape) for a in arrs)

    def sperm_(rng_, n):
        return H.sperm(rng_, n + rng_.randint(0, 2), n)

    # --- (A) complex cores: dense reconstruction and padding over the Gaussian integers (exact)
    for it in range(16 * mult):
        ring = it % 2 == 1
        dtype = np.complex64 if it % 4 >= 2 else np.complex128
        cores = gen_ctt(rng, ring, dtype)
        if it % 8 in (3, 4):                          # mixed list: a REAL first core (float64 / float32) followed by complex ones
            cores[0] = np.real(cores[0]).astype(np.float64 if it % 8 == 3 else np.float32)
            chk.hist("pad_dtype", "real-first")
        if not ring or len(cores) >= 2:
            st, out = call(tr_to_tensor if ring else tt_to_tensor, cps(cores))
            exp = "(mk [99999]%nat (@nil (Z * Z)))" if st != "ok" or not gaussian_integral(out) else gtens(out)
            emit(lambda: f"GTTDense {C.boolc(ring)} {gtens_list(cores)} {exp}", ("tr_to_tensor" if ring else "tt_to_tensor", "complex", sh(cores)))
            chk.count(key=("tt_to_tensor-complex", ring, sh(cores)))
            if st != "ok" or not H.close(out, H.dense_tt(cores, ring)):
                chk.finding("tensorly.tr_tensor.tr_to_tensor" if ring else "tensorly.tt_tensor.tt_to_tensor", {"cores": cores},
                            "dense reconstruction of complex cores differs from the chain-product definition", "tt_to_tensor")
        for npad in (1, rng.randint(2, 3)):
            for pb in ((ring,) if it % 4 < 2 else (ring, not ring)):
                st, out = call(pad_tt_rank, cps(cores), n_padding=npad, pad_boundaries=pb)
                chk.hist("outcome", st); chk.hist("pad_dtype", np.dtype(dtype).name)
                if st == "ok" and gaussian_integral(*out) and all(np.asarray(g).ndim == 3 for g in out):
                    lit = f"(Ok {gtens_list([np.asarray(g) for g in out])})"
                else:
                    lit = "Err" if st != "ok" else "(Ok [mk [99999]%nat (@nil (Z * Z))])"
                emit(lambda: f"GPad {C.boolc(ring)} {gtens_list(cores)} {npad}%nat {C.boolc(pb)} {lit}", ("pad_tt_rank", "complex", sh(cores), npad, pb))
                judge("pad_tt_rank", {"cores": cores, "n_padding": npad, "pad_boundaries": pb, "ring": ring}, ("complex", np.dtype(dtype).name, sh(cores), npad, pb, ring))
    # float32 cores (integer-valued): the existing exact case form
    for it in range(6 * mult):
        ring = it % 2 == 1
        cores = [g.astype(np.float32) for g in H.gen_tt(rng, ring)]
        npad, pb = rng.randint(1, 2), ring
        st, out = call(pad_tt_rank, cps(cores), n_padding=npad, pad_boundaries=pb)
        chk.hist("outcome", st); chk.hist("pad_dtype", "float32")
        if st == "ok" and H.integral(*out) and all(np.asarray(g).ndim == np.asarray(c).ndim for g, c in zip(out, cores)):
            lit = f"(Ok {H.ztens_list([np.asarray(g) for g in out])})"
        else:
            lit = "Err" if st != "ok" else "(Ok [mk [99999]%nat (@nil Z)])"
        emit(lambda: f"ZPad {H.ztens_list(cores)} {npad}%nat {C.boolc(pb)} {lit}", ("pad_tt_rank", "float32", sh(cores), npad, pb))
        judge("pad_tt_rank", {"cores": cores, "n_padding": npad, "pad_boundaries": pb, "ring": ring}, ("float32", sh(cores), npad, pb, ring))

    # --- (B) compress -> fit -> decompress on mixed-height slice lists, every order (toleranced; SVD answers are data with their contract)
    pats = list(PATTERNS) if mult > 1 else PATTERNS[:8] + [rng.choice(PATTERNS[8:])]
    for rep in range(mult if mult == 1 else 4):
        for pattern in pats:
            w, (A, B, Cm), Ps = gen_mixed_pf2(rng, pattern)
            K = Cm.shape[0]
            X = H.pf2_slices(w, A, B, Cm, Ps)
            mr = rng.choice([None, None, K, K + 1])
            st, out = call(svd_compress_tensor_slices, cps(X), compression_threshold=0.0, max_rank=mr)
            chk.hist("outcome", st)
            if st != "ok":
                chk.finding("tensorly.preprocessing.svd_compress_tensor_slices", {"slices": X, "threshold": 0.0, "max_rank": mr}, f"svd_compress_tensor_slices raised: {out}", "svd_compress_tensor_slices")
                continue
            scores, loads = out
            flags = [L is not None for L in loads]
            chk.hist("mixed_pattern", pattern + ":" + "".join("T" if f else "S" for f in flags))
            # the model's own pipeline (tapes = the SVD answers the harness records; a slice is compressed iff it has more than n_cols rows)
            # and the implementation's (its own loadings) are run independently: both must reproduce the data
            tapes, full, Qm = [], [], []
            for Xi, P in zip(X, Ps):
                if Xi.shape[0] <= K:
                    tapes.append("((@nil (list Q)), (@nil Q), (@nil (list Q)))"); full.append(False); Qm.append(P)
                else:
                    U, sv, Vh = svd_interface(Xi.copy(), n_eigenvecs=K, method="truncated_svd")
                    U, sv, Vh = np.asarray(U), np.asarray(sv), np.asarray(Vh)
                    tapes.append(f"({qmat2(U)}, {qrow(sv)}, {qmat2(Vh)})")
                    full.append(bool(len(sv) == min(Xi.shape) and U.shape[1] == len(sv) == Vh.shape[0]))
                    Qm.append(U.T @ P)
            Qi = [P if L is None else np.asarray(L).T @ P for P, L in zip(Ps, loads)]
            if not all(H.close(Q.T @ Q, np.eye(Q.shape[1])) for Q in Qm + Qi):
                chk.hist("mixed_pattern", "premise-failed"); continue
            st, dec = call(lambda: svd_decompress_parafac2_tensor(Parafac2Tensor((w.copy(), cps([A, B, Cm]), cps(Qi))), loads))
            chk.hist("outcome", st)
            if st == "ok" and all(np.asarray(p).ndim == 2 and np.all(np.isfinite(np.asarray(p))) for p in dec[2]):
                lit = f"(Ok {qmats([np.asarray(p) for p in dec[2]])})"
            else:
                lit = "Err" if st != "ok" else "(Ok [[[(Qmake (99999)%Z (1)%positive)]]])"
            mrl = "None" if mr is None else f"(Some {mr}%nat)"
            emit(lambda: f"QRoundTrip {qmats(X)} {mrl} [{'; '.join(tapes)}] [{'; '.join(C.boolc(b) for b in full)}] "
                         f"{qrow(w)} {qmat(A)} {qmat(B)} {qmat(Cm)} {qmats(Qm)} {lit}",
                 ("svd_compress_decompress", "mixed", pattern, sh(X), mr))
            judge("svd_compress_decompress", {"w": w, "fs": [A, B, Cm], "Ps": Ps}, ("mixed", pattern, sh(X), mr))

    # --- (C) svd_decompress on integer data: every None pattern of the loading list for 2 and 3 slices (exact)
    for I in (2, 3):
        for nones in itertools.product([True, False], repeat=I):
            if mult == 1 and I == 3 and rng.random() < 0.5:
                continue
            while True:
                w, (A, B, Cm), Ps = H.gen_pf2_int(rng)
                if len(Ps) == I:
                    break
            extra = rng.randint(0, 2)                      # 0: square loadings (a signed permutation of the rows of P_i)
            Ls = [None if n else H.sperm(rng, P.shape[0] + (extra if rng.random() < 0.7 else rng.randint(0, 2)), P.shape[0]) for n, P in zip(nones, Ps)]
            pf = (w.copy(), cps([A, B, Cm]), cps(Ps))
            st, out = call(lambda: svd_decompress_parafac2_tensor(Parafac2Tensor(pf), [None if L is None else L.copy() for L in Ls]))
            if st == "ok" and H.integral(*out[2]) and all(np.asarray(p).ndim == 2 for p in out[2]):
                lit = f"(Ok {zmats([np.asarray(p) for p in out[2]])})"
            else:
                lit = "Err" if st != "ok" else "(Ok [[[(99999)%Z]]])"
            emit(lambda: f"ZDecomp {zrow(w)} {zmat(A)} {zmat(B)} {zmat(Cm)} {zmats(Ps)} {H.zopt_mats(Ls)} {lit}", ("svd_decompress", "none-pattern", sh(Ps), nones))
            judge("svd_decompress_parafac2_tensor", {"w": w, "fs": [A, B, Cm], "Ps": Ps, "Ls": Ls}, ("none-pattern", sh(Ps), nones))
            chk.hist("none_pattern", "".join("N" if n else "L" for n in nones))

    # --- (D) TuckerTensor objects: obj.mode_dot (copy on / off: what the OPERAND object names afterwards), obj.normalize (in place), tucker_copy
    from tensorly.tucker_tensor import TuckerTensor, _validate_tucker_tensor
    ztens, qtens = H.ztens, H.qtens

    def zobs(o):
        """(shape attribute, rank attribute, (core, factors)) of a TuckerTensor object as a Gallina literal"""
        shape, rank = [int(d) for d in o.shape], [int(d) for d in o.rank]
        core, fs = np.asarray(o.core), [np.asarray(f) for f in o.factors]
        if not H.integral(core, *fs) or any(f.ndim != 2 for f in fs) or any(d > 4000 for d in shape + rank):
            raise ValueError("not printable")
        return f"({C.nat_list(shape)}, {C.nat_list(rank)}, ({ztens(core)}, {zmats(fs)}))"

    for it in range(12 * mult):
        core, fs, feat = H.gen_tucker(rng)
        N = len(fs)
        # the caller's table of arrays; now and then one array serves two modes of equal size and rank
        arrs, ls = [f for f in fs], list(range(N))
        if it % 3 == 2:
            twins = [(a, b) for a in range(N) for b in range(a + 1, N) if fs[a].shape == fs[b].shape]
            if twins:
                a, b = rng.choice(twins); ls[b] = a
        facs = [arrs[l] for l in ls]
        for mode in range(N):
            kind = rng.choice(["mat", "vec", "veck"])
            copy = (it + mode) % 2 == 0
            x = H.gen_operand(rng, facs[mode].shape[0], "vec" if kind == "veck" else kind)
            kd = kind == "veck"
            held = [np.array(a, copy=True) for a in arrs]
            obj_st, obj = call(lambda: TuckerTensor((core.copy(), [held[l] for l in ls])))
            if obj_st != "ok":
                continue
            st, r = call(lambda: obj.mode_dot(x.copy(), mode, keep_dim=kd, copy=copy))
            chk.hist("outcome", st); chk.hist("tucker_obj", f"mode_dot:{kind}:copy={copy}")
            if st == "ok":
                vst, _ = call(_validate_tucker_tensor, obj)
                try:
                    lit = f"(Ok ({zobs(r)}, {zobs(obj)}, {C.boolc(vst == 'ok')}))"
                except Exception:  # noqa
                    lit = "(Ok (([99999]%nat, (@nil nat), (mk (@nil nat) (@nil Z), (@nil (list (list Z))))), ([99999]%nat, (@nil nat), (mk (@nil nat) (@nil Z), (@nil (list (list Z))))), false))"
            else:
                lit = "Err"
            xl = f"(OpMat {zmat(x)})" if x.ndim == 2 else f"(OpVec {zrow(x)})"
            emit(lambda: f"ZTkObjDot {ztens(core)} {zmats(arrs)} {C.nat_list(ls)} {C.boolc(copy)} {xl} {mode}%nat {C.boolc(kd)} {lit}",
                 ("TuckerTensor.mode_dot", sh(facs), tuple(ls), mode, kind, copy))
            if not (kind == "vec" and N == 2):
                judge("tucker_obj_mode_dot", {"core": core, "fs": facs, "x": x, "mode": mode, "keep_dim": kd, "copy": copy}, (sh(facs), tuple(ls), mode, kind, copy))
        if it % 2 == 0:
            held = [np.array(a, copy=True) for a in arrs]
            st, obj = call(lambda: TuckerTensor((core.copy(), [held[l] for l in ls])))
            if st == "ok":
                st, cp_ = call(obj.tucker_copy)
                chk.hist("tucker_obj", "tucker_copy:" + st)
                if st == "ok":
                    shares = any(np.shares_memory(np.asarray(a), np.asarray(b)) for a in [obj.core] + list(obj.factors) for b in [cp_.core] + list(cp_.factors))
                    try:
                        lit = f"(Ok {zobs(cp_)})"
                    except Exception:  # noqa
                        lit = "(Ok ([99999]%nat, (@nil nat), (mk (@nil nat) (@nil Z), (@nil (list (list Z))))))"
                    emit(lambda: f"ZTkObjCopy {ztens(core)} {zmats(arrs)} {C.nat_list(ls)} {lit} {C.boolc(shares)}", ("TuckerTensor.tucker_copy", sh(facs), tuple(ls)))
                    chk.count(key=("tucker_copy", sh(facs), tuple(ls)))
                    if shares:
                        chk.finding("tensorly.tucker_tensor.TuckerTensor.tucker_copy", {"core": core, "fs": facs}, "tucker_copy shares memory with the tensor it copies", "tucker_copy")
    # item assignment obj[1] = <another list>: only when the CURRENT source re-binds the attribute without refreshing shape / rank
    # (the variant the model has); a __setitem__ that refreshes or validates is not compared (noted), one that cannot be found is a broken tie
    try:
        refreshes = tucker_setitem_refreshes_from_source()
    except BrokenTie7 as e:
        refreshes = None
        chk.broken.append({"what": "source tie TuckerTensor.__setitem__ broken", "detail": str(e)})
    chk.cov["tuckertensor_setitem"] = {False: "plain re-binding (model tucker_setitem_h)", True: "refreshes / validates: item-assignment cases not compared", None: "broken"}[refreshes]
    for it in range((6 * mult) if refreshes is False else 0):
        core, fs, feat = H.gen_tucker(rng)
        N = len(fs)
        k = rng.randrange(N)
        extra_rows = np.concatenate([fs[k], fs[k][:1]], axis=0)            # one more row: another mode size, still a valid factor
        extra_cols = np.concatenate([fs[k], fs[k][:, :1]], axis=1)         # one more column: no longer fits the core
        arrs = list(fs) + [extra_rows, extra_cols]
        ls = list(range(N))
        for why, newls in (("other_rows", [N if j == k else j for j in range(N)]), ("other_cols", [N + 1 if j == k else j for j in range(N)]),
                           ("fewer", ls[:-1]), ("same", list(ls))):
            held = [np.array(a, copy=True) for a in arrs]
            st, obj = call(lambda: TuckerTensor((core.copy(), [held[l] for l in ls])))
            if st != "ok":
                continue
            def assign():
                obj[1] = [held[l] for l in newls]
                return obj
            st, _ = call(assign)
            chk.hist("tucker_obj", f"setitem:{why}:{st}")
            if st == "ok":
                vst, _ = call(_validate_tucker_tensor, obj)
                try:
                    lit = f"(Ok ({zobs(obj)}, {C.boolc(vst == 'ok')}))"
                except Exception:  # noqa
                    lit = "(Ok (([99999]%nat, (@nil nat), (mk (@nil nat) (@nil Z), (@nil (list (list Z))))), false))"
            else:
                lit = "Err"
            emit(lambda: f"ZTkObjSet {ztens(core)} {zmats(arrs)} {C.nat_list(ls)} {C.nat_list(newls)} {lit}", ("TuckerTensor.__setitem__", sh(fs), why))
            chk.count(key=("tucker_setitem", sh(fs), why), nontrivial=why != "same")
    for it in range(10 * mult):
        core, fs, feat = H.gen_tucker(rng, float_=True)
        held_c, held = core.copy(), H.cps(fs)
        st, obj = call(lambda: TuckerTensor((held_c, held)))
        if st != "ok":
            continue
        st, ret = call(obj.normalize)
        chk.hist("outcome", st); chk.hist("tucker_obj", "normalize:" + st)
        if st == "ok" and all(np.asarray(f).ndim == 2 for f in obj.factors) and np.all(np.isfinite(np.asarray(obj.core))):
            tape = [np.sqrt(np.sum(f * f, axis=0)) for f in fs]
            tl_ = "[" + "; ".join(qrow(t) for t in tape) + "]"
            obs = f"({C.nat_list([int(d) for d in obj.shape])}, {C.nat_list([int(d) for d in obj.rank])}, ({qtens(np.asarray(obj.core))}, {qmats([np.asarray(f) for f in obj.factors])}))"
            emit(lambda: f"QTkObjNorm {tl_} {qtens(core)} {qmats(fs)} {C.nat_list(list(range(len(fs))))} (Ok {obs})", ("TuckerTensor.normalize", sh(fs), feat))
        judge("tucker_obj_normalize", {"core": core, "fs": fs}, (sh(fs), feat))

    # --- (E) mode products of complex CP / Tucker tensors (Gaussian-integer entries, exact at the level of the represented tensor)
    from tensorly.cp_tensor import CPTensor, cp_mode_dot
    from tensorly.tucker_tensor import tucker_mode_dot
    for it in range(6 * mult):
        N, R = rng.randint(1, 3), rng.randint(1, 2)
        dims = [rng.randint(1, 3) for _ in range(N)]
        w, fs = cint(rng, (R,)), [cint(rng, (d, R)) for d in dims]
        for mode in [rng.randrange(N), -1 - rng.randrange(N)]:
            kind = rng.choice(["mat", "vec", "veck"])
            d = fs[mode].shape[0]
            x = cint(rng, (rng.randint(1, 3), d)) if kind == "mat" else cint(rng, (d,))
            kd, copy = kind == "veck", rng.random() < 0.5
            st, out = call(cp_mode_dot, CPTensor((w.copy(), cps(fs))), x.copy(), mode, keep_dim=kd, copy=copy)
            chk.hist("outcome", st); chk.hist("complex_mode_dot", "cp:" + kind)
            if st != "ok":
                lit = "Err"
            elif not gaussian_integral(out[0], *out[1]) or any(np.asarray(f).ndim != 2 for f in out[1]):
                lit = "(Ok ([((99999)%Z, (0)%Z)], (@nil (list (list (Z * Z))))))"
            else:
                lit = f"(Ok ({grow(out[0])}, {gmats([np.asarray(f) for f in out[1]])}))"
            xl = f"(OpMat {gmat(x)})" if x.ndim == 2 else f"(OpVec {grow(x)})"
            emit(lambda: f"GModeDot {grow(w)} {gmats(fs)} {xl} {C.z(mode)} {C.boolc(kd)} {lit}", ("cp_mode_dot", "complex", tuple(dims) + (R,), mode, kind, copy))
            if not (kind == "vec" and N == 1):
                judge("cp_mode_dot", {"w": w, "fs": fs, "x": x, "mode": mode, "keep_dim": kd, "copy": copy, "x2": None}, ("complex", tuple(dims) + (R,), mode, kind, copy))
        N = rng.randint(2, 3)
        dims, ranks = [rng.randint(1, 3) for _ in range(N)], [rng.randint(1, 2) for _ in range(N)]
        core, fs = cint(rng, ranks), [cint(rng, (d, r)) for d, r in zip(dims, ranks)]
        for mode in [rng.randrange(N), -1 - rng.randrange(N)]:
            kind = rng.choice(["mat", "vec", "veck"])
            d = fs[mode].shape[0]
            x = cint(rng, (rng.randint(1, 3), d)) if kind == "mat" else cint(rng, (d,))
            kd, copy = kind == "veck", rng.random() < 0.5
            st, out = call(tucker_mode_dot, TuckerTensor((core.copy(), cps(fs))), x.copy(), mode, keep_dim=kd, copy=copy)
            chk.hist("outcome", st); chk.hist("complex_mode_dot", "tucker:" + kind)
            if st != "ok":
                lit = "Err"
            elif not gaussian_integral(out[0], *out[1]) or any(np.asarray(f).ndim != 2 for f in out[1]):
                lit = "(Ok (mk [99999]%nat (@nil (Z * Z)), (@nil (list (list (Z * Z))))))"
            else:
                lit = f"(Ok ({gtens(out[0])}, {gmats([np.asarray(f) for f in out[1]])}))"
            xl = f"(OpMat {gmat(x)})" if x.ndim == 2 else f"(OpVec {grow(x)})"
            emit(lambda: f"GTkDot {gtens(core)} {gmats(fs)} {xl} {C.z(mode)} {C.boolc(kd)} {lit}", ("tucker_mode_dot", "complex", sh(fs), mode, kind, copy))
            if not (kind == "vec" and N == 2):
                judge("tucker_mode_dot", {"core": core, "fs": fs, "x": x, "mode": mode, "keep_dim": kd, "copy": copy, "x2": None}, ("complex", sh(fs), mode, kind, copy))

    # --- (F) svd_decompress and the caller's projection LIST (Model/TransformsPfHeap.v): lists naming one projection array for two slices,
    #     every result entry with a loading is a fresh array, the operand's list and arrays are untouched
    for it in range(8 * mult):
        while True:
            w, (A, B, Cm), Ps = H.gen_pf2_int(rng)
            if len(Ps) >= 2 or it % 2 == 1:
                break
        I = len(Ps)
        arrs, ls = list(Ps), list(range(I))
        if I >= 2 and it % 2 == 0:                     # one projection array serves two slices
            a, b = sorted(rng.sample(range(I), 2)); ls[b] = a
        held = [np.array(a_, copy=True) for a_ in arrs]
        plist = [held[l] for l in ls]
        Ls = [None if rng.random() < 0.4 else sperm_(rng, plist[k].shape[0]) for k in range(I)]
        st, pf = call(lambda: Parafac2Tensor((w.copy(), cps([A, B, Cm]), plist)))
        if st != "ok":
            continue
        st, out = call(lambda: svd_decompress_parafac2_tensor(pf, [None if L is None else L.copy() for L in Ls]))
        chk.hist("outcome", st); chk.hist("decompress_heap", "twins" if len(set(ls)) < I else "distinct")
        if st == "ok" and H.integral(*out[2]) and all(np.asarray(p).ndim == 2 for p in out[2]) and len(out[2]) == I:
            lit = f"(Ok {zmats([np.asarray(p) for p in out[2]])})"
            shared = [any(np.shares_memory(np.asarray(out[2][k]), h) for h in held) for k in range(I)]
        else:
            lit = "Err" if st != "ok" else "(Ok [[[(99999)%Z]]])"
            shared = [True] * I
        list_same = pf.projections is plist and len(plist) == I and all(plist[k] is held[ls[k]] for k in range(I))
        emit(lambda: f"ZDecompHeap {zmats(arrs)} {C.nat_list(ls)} {H.zopt_mats(Ls)} {lit} {zmats(held)} [{'; '.join(C.boolc(b) for b in shared)}] {C.boolc(list_same)}",
             ("svd_decompress", "heap", sh(plist), tuple(ls), tuple(L is None for L in Ls)))
        judge("svd_decompress_parafac2_tensor", {"w": w, "fs": [A, B, Cm], "Ps": plist, "Ls": Ls}, ("heap", sh(plist), tuple(ls), tuple(L is None for L in Ls)))
