"""C04, round 8 (builder d04):
  * SOURCE TIE for the bodies of the TuckerTensor methods: __init__, __getitem__, __setitem__, __iter__, mode_dot, normalize, tucker_copy
    of the CURRENT tensorly/tucker_tensor.py are translated (Python ast -> Gallina) into definitions over the object cells of
    Model/TransformsTkObj.v / TransformsTkObj8.v, and coqc re-proves on every run that each generated definition IS the hand-written
    model function (tk_methods_src_ok).  Fail closed: a construct the translator does not understand is a broken tie, never skipped.
  * item assignment obj[idx] = value for every index (Corr constructor ZTkObjSetIdx): idx 0 (another core: same shape / one more
    slice on a mode / one mode fewer / the same core), idx 1, idx 2 (refused), with what obj[idx] and unpacking hand out afterwards.
  * lossy compression predicate (transcription of C04_svd_compress_score_coordinates / _residual_orthogonal / _lossy)."""
import ast, inspect, textwrap
import numpy as np
from harness import common as C


class Untranslatable8(Exception):
    pass


def _H():
    from harness.props import C04 as H
    return H


# ----------------------------------------------------------------------------- ast helpers
def _nodoc(body):
    return [n for n in body if not (isinstance(n, ast.Expr) and isinstance(n.value, ast.Constant) and isinstance(n.value.value, str))]


def _self_attr(e, store=None):
    """self.<attr> -> attr (None otherwise)"""
    if isinstance(e, ast.Attribute) and isinstance(e.value, ast.Name) and e.value.id == "self":
        if store is None or isinstance(e.ctx, ast.Store) == store:
            return e.attr
    return None


def _method(tree, name, cls_name="TuckerTensor", optional=False):
    cls = [n for n in ast.walk(tree) if isinstance(n, ast.ClassDef) and n.name == cls_name]
    fn = [n for c in cls for n in c.body if isinstance(n, ast.FunctionDef) and n.name == name]
    if optional and len(cls) == 1 and not fn:
        return None
    if len(fn) != 1:
        raise Untranslatable8(f"{cls_name}.{name} not found (or defined twice)")
    return fn[0]


def _function(tree, name):
    fn = [n for n in tree.body if isinstance(n, ast.FunctionDef) and n.name == name]
    if len(fn) != 1:
        raise Untranslatable8(f"function {name} not found at module level")
    return fn[0]


def _argnames(fn):
    a = fn.args
    if a.vararg or a.kwarg or a.kwonlyargs or a.posonlyargs:
        raise Untranslatable8(f"signature of {fn.name}")
    return [x.arg for x in a.args]


def _bool_defaults(fn):
    """{param: 'true' / 'false'} for the trailing parameters with a boolean default"""
    names = _argnames(fn); out = {}
    for n, d in zip(names[len(names) - len(fn.args.defaults):], fn.args.defaults):
        if isinstance(d, ast.Constant) and isinstance(d.value, bool):
            out[n] = "true" if d.value else "false"
        else:
            raise Untranslatable8(f"default of {fn.name}({n}) is not a boolean constant")
    return out


# ----------------------------------------------------------------------------- the translators
CELL = "(mk_tcell {shape} {rank} {core} {factors})"
OLD = {"shape": "(tc_shape c)", "rank": "(tc_rank c)", "core": "(tc_core c)", "factors": "(tc_fs c)"}


def _index_chain(fn, leaf):
    """if index == 0: <leaf> elif index == 1: <leaf> else: raise ...  ->  nested Gallina conditional on idx"""
    idx = _argnames(fn)[1]

    def walk(stmts):
        stmts = _nodoc(stmts)
        if len(stmts) != 1:
            raise Untranslatable8(f"{fn.name}: a branch with {len(stmts)} statements")
        s = stmts[0]
        if isinstance(s, ast.Raise):
            return "Err"
        if isinstance(s, ast.If):
            t = s.test
            ok = isinstance(t, ast.Compare) and len(t.ops) == 1 and isinstance(t.ops[0], ast.Eq)
            if ok:
                a, b = t.left, t.comparators[0]
                if isinstance(b, ast.Name):
                    a, b = b, a
                ok = isinstance(a, ast.Name) and a.id == idx and isinstance(b, ast.Constant) and type(b.value) is int and 0 <= b.value < 100
            if not ok:
                raise Untranslatable8(f"{fn.name}: test {ast.dump(t)[:80]}")
            if not s.orelse:
                raise Untranslatable8(f"{fn.name}: an index falls through without IndexError")
            return f"(if Nat.eqb idx {b.value} then {walk(s.body)} else {walk(s.orelse)})"
        return leaf(s)
    return walk(fn.body)


def gen_setitem(tree):
    fn = _method(tree, "__setitem__")
    if len(_argnames(fn)) != 3:
        raise Untranslatable8("signature of __setitem__")
    val = _argnames(fn)[2]

    def leaf(s):
        if isinstance(s, ast.Assign) and len(s.targets) == 1 and _self_attr(s.targets[0]) in ("core", "factors") and isinstance(s.value, ast.Name) and s.value.id == val:
            env = dict(OLD); env[_self_attr(s.targets[0])] = "loc"
            return "Ok (set_nth o " + CELL.format(**env) + " cells)"
        raise Untranslatable8(f"__setitem__: statement {ast.dump(s)[:90]}")
    return ("Definition tk_setitem_src (cells : list tcell) (o idx loc : nat) : res (list tcell) :=\n  let c := tcellr cells o in " + _index_chain(fn, leaf) + ".\n")


def gen_getitem(tree):
    fn = _method(tree, "__getitem__")
    if len(_argnames(fn)) != 2:
        raise Untranslatable8("signature of __getitem__")

    def leaf(s):
        if isinstance(s, ast.Return) and _self_attr(s.value) in ("core", "factors"):
            return "Ok " + OLD[_self_attr(s.value)]
        raise Untranslatable8(f"__getitem__: statement {ast.dump(s)[:90]}")
    return ("Definition tk_getitem_src (cells : list tcell) (o idx : nat) : res nat :=\n  let c := tcellr cells o in " + _index_chain(fn, leaf) + ".\n")


def gen_iter(tree):
    fn = _method(tree, "__iter__")
    out = []
    for s in _nodoc(fn.body):
        if isinstance(s, ast.Expr) and isinstance(s.value, ast.Yield) and _self_attr(s.value.value) in ("core", "factors"):
            out.append(OLD[_self_attr(s.value.value)])
        else:
            raise Untranslatable8(f"__iter__: statement {ast.dump(s)[:90]}")
    return "Definition tk_iter_src (cells : list tcell) (o : nat) : list nat :=\n  let c := tcellr cells o in [" + "; ".join(out) + "].\n"


def _run_attr_body(stmts, local, attrs, what, calls, none_default=(), known=None):
    """symbolic execution of a straight-line method body:  a, b = <call>  |  a, b = <name>  |  self.x = <name> | self.x = tuple(<name>) |
    self.x, self.y = <call>;   `calls` maps a call pattern to the tuple of symbolic values it returns"""
    def value(e):
        if isinstance(e, ast.Name) and e.id in local:
            return local[e.id]
        if isinstance(e, ast.Call) and isinstance(e.func, ast.Name) and e.func.id == "tuple" and len(e.args) == 1 and not e.keywords:
            return value(e.args[0])
        raise Untranslatable8(f"{what}: expression {ast.dump(e)[:90]}")

    def values(e, n):
        if isinstance(e, ast.Call) and isinstance(e.func, ast.Name) and e.func.id in calls and len(e.args) == 1 and not e.keywords \
                and isinstance(e.args[0], ast.Name) and e.args[0].id == calls[e.func.id][0]:
            vs = calls[e.func.id][1]
        elif isinstance(e, ast.Name) and e.id in local and isinstance(local[e.id], tuple):
            vs = local[e.id]
        elif isinstance(e, ast.Tuple):
            vs = tuple(value(x) for x in e.elts)
        else:
            raise Untranslatable8(f"{what}: unpacked expression {ast.dump(e)[:90]}")
        if len(vs) != n:
            raise Untranslatable8(f"{what}: unpacking {len(vs)} values into {n} targets")
        return vs

    def store(t, v):
        if isinstance(t, ast.Name):
            local[t.id] = v
        elif _self_attr(t) in attrs or _self_attr(t) in (known or OLD):
            attrs[_self_attr(t)] = v
        else:
            raise Untranslatable8(f"{what}: assignment target {ast.dump(t)[:90]}")

    for s in _nodoc(stmts):
        if isinstance(s, ast.Expr) and isinstance(s.value, ast.Call) and isinstance(s.value.func, ast.Attribute) and s.value.func.attr == "__init__":
            continue                                               # super().__init__()
        if isinstance(s, ast.Return) and (s.value is None or (isinstance(s.value, ast.Constant) and s.value.value is None)):
            break
        if isinstance(s, ast.If) and not s.orelse and len(s.body) == 1 and isinstance(s.test, ast.Compare) and len(s.test.ops) == 1 \
                and isinstance(s.test.ops[0], ast.Is) and isinstance(s.test.left, ast.Name) and s.test.left.id in none_default \
                and isinstance(s.test.comparators[0], ast.Constant) and s.test.comparators[0].value is None \
                and isinstance(s.body[0], ast.Assign) and len(s.body[0].targets) == 1 and isinstance(s.body[0].targets[0], ast.Name) \
                and s.body[0].targets[0].id == s.test.left.id:
            continue                                               # `if weights is None: weights = <default>`: the tie covers the path where the value is given
        if not (isinstance(s, ast.Assign) and len(s.targets) == 1):
            raise Untranslatable8(f"{what}: statement {type(s).__name__}")
        t = s.targets[0]
        if isinstance(t, ast.Tuple):
            for tt, v in zip(t.elts, values(s.value, len(t.elts))):
                store(tt, v)
        else:
            store(t, value(s.value))
    for k, v in attrs.items():
        if isinstance(v, tuple):
            raise Untranslatable8(f"{what}: attribute {k} is bound to a whole tuple")
    return attrs


def gen_init(tree):
    fn = _method(tree, "__init__")
    names = _argnames(fn)
    if len(names) != 2:
        raise Untranslatable8("signature of __init__")
    arg = names[1]
    local = {arg: ("cl", "fl")}
    calls = {"_validate_tucker_tensor": (arg, ("(cp_shape fs)", "(map (fun A => ncols A) fs)"))}
    attrs = _run_attr_body(fn.body, local, {}, "__init__", calls)
    if set(attrs) != set(OLD):
        raise Untranslatable8(f"__init__ binds the attributes {sorted(attrs)}")
    # the validator must be called before anything is stored (its refusal leaves no object behind)
    first = [s for s in _nodoc(fn.body) if isinstance(s, ast.Assign)][0]
    if not (isinstance(first.value, ast.Call) and isinstance(first.value.func, ast.Name) and first.value.func.id == "_validate_tucker_tensor"):
        raise Untranslatable8("__init__ does not start with the validator")
    return ("Definition tk_init_src {F : Type} (th : theap (F:=F)) (cells : list tcell) (cl fl : nat) : res (list tcell * nat) :=\n"
            "  let '(c, fs) := tread th cl fl in\n  if tucker_okb c fs then Ok (cells ++ [" + CELL.format(**attrs) + "], length cells) else Err.\n")


def gen_mode_dot(tree):
    fn = _method(tree, "mode_dot")
    callee = _function(tree, "tucker_mode_dot")
    m_names, c_names = _argnames(fn), _argnames(callee)
    if len(m_names) != 5 or len(c_names) != 5 or c_names[3:] != ["keep_dim", "copy"] or m_names[3:] != ["keep_dim", "copy"]:
        raise Untranslatable8("signatures of TuckerTensor.mode_dot / tucker_mode_dot")
    sym = dict(zip(m_names, ["o", "x", "mode", "kd", "cp"]))
    body = _nodoc(fn.body)
    if not (len(body) == 1 and isinstance(body[0], ast.Return) and isinstance(body[0].value, ast.Call) and isinstance(body[0].value.func, ast.Name)
            and body[0].value.func.id == "tucker_mode_dot"):
        raise Untranslatable8("body of TuckerTensor.mode_dot is not `return tucker_mode_dot(...)`")
    call = body[0].value
    bound = dict(_bool_defaults(callee))

    def val(e):
        if isinstance(e, ast.Name) and e.id in sym:
            return sym[e.id]
        if isinstance(e, ast.Constant) and isinstance(e.value, bool):
            return "true" if e.value else "false"
        raise Untranslatable8(f"mode_dot: argument {ast.dump(e)[:80]}")
    if len(call.args) > 5:
        raise Untranslatable8("mode_dot: too many arguments")
    for n, e in zip(c_names, call.args):
        bound[n] = val(e)
    for kw in call.keywords:
        if kw.arg not in c_names:
            raise Untranslatable8(f"mode_dot: keyword {kw.arg}")
        bound[kw.arg] = val(kw.value)
    if any(n not in bound for n in c_names):
        raise Untranslatable8("mode_dot: an argument of tucker_mode_dot is not supplied")
    d = _bool_defaults(fn)
    return ("Definition tk_mode_dot_src {F : Type} (Op : fops F) (th : theap (F:=F)) (cells : list tcell) (o : nat) (x : operand (F:=F)) (mode : nat) (kd cp : bool) :=\n"
            f"  tucker_mode_dot_method_h Op th cells {bound[c_names[0]]} {bound['copy']} {bound[c_names[1]]} {bound[c_names[2]]} {bound['keep_dim']}.\n"
            f"Definition tk_mode_dot_defaults : bool * bool := ({d.get('keep_dim', 'true')}, {d.get('copy', 'true')}).\n")


def gen_normalize(tree):
    fn = _method(tree, "normalize")
    if _argnames(fn) != ["self"]:
        raise Untranslatable8("signature of TuckerTensor.normalize")
    calls = {"tucker_normalize": ("self", ("(length (t_core th))", "(length (t_lst th))"))}
    attrs = _run_attr_body(fn.body, {"self": "self"}, dict(OLD), "normalize", calls)
    n_calls = sum(1 for n in ast.walk(fn) if isinstance(n, ast.Call) and isinstance(n.func, ast.Name) and n.func.id == "tucker_normalize")
    if n_calls != 1:
        raise Untranslatable8(f"normalize calls tucker_normalize {n_calls} times")
    return ("Definition tk_normalize_src {F : Type} (Op : fops F) (tape : list (list F)) (th : theap (F:=F)) (cells : list tcell) (o : nat) : res (theap (F:=F) * list tcell) :=\n"
            "  let c := tcellr cells o in\n  let '(core, fs) := tobj_read th cells o in\n"
            "  match tucker_normalize_bc Op tape core fs with\n  | Err => Err\n  | Ok r =>\n"
            "      Ok (mk_theap (t_core th ++ [tko_core r]) (t_arr th ++ tko_fs r) (t_lst th ++ [seq (length (t_arr th)) (length (tko_fs r))]),\n"
            "          set_nth o " + CELL.format(**attrs) + " cells)\n  end.\n")


def _is_copy_of(e, pred):
    """tl.copy(X) / T.copy(X) / np.copy(X) / np.array(X, copy=True) / X.copy()  with pred(X)"""
    if isinstance(e, ast.Call) and isinstance(e.func, ast.Attribute) and e.func.attr == "copy":
        if len(e.args) == 1 and not e.keywords and isinstance(e.func.value, ast.Name) and e.func.value.id in ("tl", "T", "np"):
            return pred(e.args[0])
        if not e.args and not e.keywords:
            return pred(e.func.value)
    return False


def gen_copy(tree):
    fn = _method(tree, "tucker_copy")
    body = _nodoc(fn.body)
    if not (len(body) == 1 and isinstance(body[0], ast.Return) and isinstance(body[0].value, ast.Call) and isinstance(body[0].value.func, ast.Name)
            and body[0].value.func.id == "TuckerTensor" and len(body[0].value.args) == 1 and isinstance(body[0].value.args[0], ast.Tuple)
            and len(body[0].value.args[0].elts) == 2):
        raise Untranslatable8("body of tucker_copy is not `return TuckerTensor((<core>, <factors>))`")
    ce, fe = body[0].value.args[0].elts
    is_core = lambda e: _self_attr(e) == "core"
    is_facs = lambda e: _self_attr(e) == "factors"
    if _is_copy_of(ce, is_core):
        cores, cl = "(t_core th ++ [core])", "(length (t_core th))"
    elif is_core(ce):
        cores, cl = "(t_core th)", "(tc_core c)"
    else:
        raise Untranslatable8(f"tucker_copy: core expression {ast.dump(ce)[:80]}")
    fresh = False
    if isinstance(fe, ast.ListComp) and len(fe.generators) == 1 and not fe.generators[0].ifs and isinstance(fe.generators[0].target, ast.Name):
        g = fe.generators[0]; v = g.target.id
        over_items = is_facs(g.iter)
        over_range = (isinstance(g.iter, ast.Call) and isinstance(g.iter.func, ast.Name) and g.iter.func.id == "range" and len(g.iter.args) == 1
                      and isinstance(g.iter.args[0], ast.Call) and isinstance(g.iter.args[0].func, ast.Name) and g.iter.args[0].func.id == "len"
                      and len(g.iter.args[0].args) == 1 and is_facs(g.iter.args[0].args[0]))
        item = (lambda e: isinstance(e, ast.Name) and e.id == v) if over_items else \
               (lambda e: isinstance(e, ast.Subscript) and is_facs(e.value) and isinstance(e.slice, ast.Name) and e.slice.id == v)
        if (over_items or over_range) and _is_copy_of(fe.elt, item):
            fresh = True
            arrs, lsts, fl = "(t_arr th ++ fs)", "(t_lst th ++ [seq (length (t_arr th)) (length fs)])", "(length (t_lst th))"
        elif (over_items or over_range) and item(fe.elt):
            arrs, lsts, fl = "(t_arr th)", "(t_lst th ++ [tlst th (tc_fs c)])", "(length (t_lst th))"
        else:
            raise Untranslatable8(f"tucker_copy: list comprehension {ast.dump(fe)[:100]}")
    elif is_facs(fe):
        arrs, lsts, fl = "(t_arr th)", "(t_lst th)", "(tc_fs c)"
    else:
        raise Untranslatable8(f"tucker_copy: factors expression {ast.dump(fe)[:80]}")
    return ("Definition tk_copy_src {F : Type} (th : theap (F:=F)) (cells : list tcell) (o : nat) : res (theap (F:=F) * list tcell * nat) :=\n"
            "  let c := tcellr cells o in\n  let '(core, fs) := tobj_read th cells o in\n"
            f"  let th' := mk_theap {cores} {arrs} {lsts} in\n"
            f"  match tucker_new_h th' cells {cl} {fl} with Ok (cells', o') => Ok (th', cells', o') | Err => Err end.\n")


# ----------------------------------------------------------------------------- Parafac2Tensor: __init__, __getitem__, __iter__, and NO __setitem__
PCELL = "(mk_pcell {shape} {rank} {weights} {factors} {projections})"
POLD = {"shape": "(pc_shape c)", "rank": "(pc_rank c)", "weights": "(pc_w c)", "factors": "(pc_fs c)", "projections": "(pc_ps c)"}


def gen_pf2_methods(module):
    """Gallina text (definitions + lemma) for the Parafac2Tensor container methods of `module` (module object or source text)"""
    src = module if isinstance(module, str) else textwrap.dedent(inspect.getsource(module))
    tree = ast.parse(src)
    for forbidden in ("__setitem__", "__delitem__", "normalize", "mode_dot"):
        if _method(tree, forbidden, "Parafac2Tensor", optional=True) is not None:
            raise Untranslatable8(f"Parafac2Tensor.{forbidden} exists: the model has no mutating method for Parafac2Tensor objects")
    fn = _method(tree, "__init__", "Parafac2Tensor")
    names = _argnames(fn)
    if len(names) != 2:
        raise Untranslatable8("signature of Parafac2Tensor.__init__")
    arg = names[1]
    calls = {"_validate_parafac2_tensor": (arg, ("(pf2_shape fs Ps)", "(cp_rank fs)"))}
    attrs = _run_attr_body(fn.body, {arg: ("wl", "fl", "pl")}, {}, "Parafac2Tensor.__init__", calls, none_default=("weights",), known=POLD)
    if set(attrs) != set(POLD):
        raise Untranslatable8(f"Parafac2Tensor.__init__ binds the attributes {sorted(attrs)}")
    first = [s for s in _nodoc(fn.body) if isinstance(s, ast.Assign)][0]
    if not (isinstance(first.value, ast.Call) and isinstance(first.value.func, ast.Name) and first.value.func.id == "_validate_parafac2_tensor"):
        raise Untranslatable8("Parafac2Tensor.__init__ does not start with the validator")
    init = ("Definition pf_init_src {F : Type} (Op : fops F) (close : F -> F -> bool) (h : poheap (F:=F)) (cells : list pcell) (wl fl pl : nat) : res (list pcell * nat) :=\n"
            "  let '(w, fs, Ps) := po_read h wl fl pl in\n  if pf2_validb Op close (Some w) fs Ps then Ok (cells ++ [" + PCELL.format(**attrs) + "], length cells) else Err.\n")
    g = _method(tree, "__getitem__", "Parafac2Tensor")
    if len(_argnames(g)) != 2:
        raise Untranslatable8("signature of Parafac2Tensor.__getitem__")

    def leaf(s):
        if isinstance(s, ast.Return) and _self_attr(s.value) in ("weights", "factors", "projections"):
            return "Ok " + POLD[_self_attr(s.value)]
        raise Untranslatable8(f"Parafac2Tensor.__getitem__: statement {ast.dump(s)[:90]}")
    getitem = "Definition pf_getitem_src (cells : list pcell) (o idx : nat) : res nat :=\n  let c := pcellr cells o in " + _index_chain(g, leaf) + ".\n"
    it = _method(tree, "__iter__", "Parafac2Tensor")
    ys = []
    for s in _nodoc(it.body):
        if isinstance(s, ast.Expr) and isinstance(s.value, ast.Yield) and _self_attr(s.value.value) in ("weights", "factors", "projections"):
            ys.append(POLD[_self_attr(s.value.value)])
        else:
            raise Untranslatable8(f"Parafac2Tensor.__iter__: statement {ast.dump(s)[:90]}")
    iter_ = "Definition pf_iter_src (cells : list pcell) (o : nat) : list nat :=\n  let c := pcellr cells o in [" + "; ".join(ys) + "].\n"
    return PF_HEADER + init + getitem + iter_ + PF_LEMMA


PF_HEADER = '''From Coq Require Import List Arith ZArith Bool Lia. Import ListNotations.
From TLV Require Import Base.Tensor Base.Ops Model.Transforms Model.TransformsApi Model.TransformsPfHeap Model.TransformsPfObj.
Open Scope nat_scope.
(* GENERATED from the Parafac2Tensor class of the TensorLy source by harness/props/C04_r8.py (ast -> Gallina); do not edit *)
'''
PF_LEMMA = '''
Lemma pf_methods_src_ok :
  (forall (F : Type) (Op : fops F) close (h : poheap (F:=F)) cells wl fl pl, pf_init_src Op close h cells wl fl pl = pf2_new_h Op close h cells wl fl pl) /\\
  (forall cells o idx, pf_getitem_src cells o idx = pf2_getitem_h cells o idx) /\\
  (forall cells o, map (@Ok nat) (pf_iter_src cells o) = [pf2_getitem_h cells o 0; pf2_getitem_h cells o 1; pf2_getitem_h cells o 2]).
Proof.
  split; [intros F Op close h cells wl fl pl; unfold pf_init_src, pf2_new_h; destruct (po_read h wl fl pl) as [[w fs] Ps]; reflexivity|].
  split; [intros cells o idx; unfold pf_getitem_src, pf2_getitem_h; destruct idx as [|[|[|[|[|idx]]]]]; reflexivity|].
  intros; reflexivity.
Qed.
'''


TK_HEADER = '''From Coq Require Import List Arith ZArith Bool Lia. Import ListNotations.
From TLV Require Import Base.Shape Base.PyList Base.Tensor Base.Ops Model.Transforms Model.TransformsApi Model.TransformsHeap Model.TransformsTkObj Model.TransformsTkObj8.
Open Scope nat_scope.
(* GENERATED from the TuckerTensor class of the TensorLy source by harness/props/C04_r8.py (ast -> Gallina); do not edit *)
'''
TK_LEMMA = '''
Lemma tk_methods_src_ok :
  (forall cells o idx loc, tk_setitem_src cells o idx loc = tucker_setitem_h cells o idx loc) /\\
  (forall cells o idx, tk_getitem_src cells o idx = tucker_getitem_h cells o idx) /\\
  (forall cells o, tk_iter_src cells o = tucker_iter_h cells o) /\\
  (forall (F : Type) (th : theap (F:=F)) cells cl fl, tk_init_src th cells cl fl = tucker_new_h th cells cl fl) /\\
  (forall (F : Type) (Op : fops F) th cells o x mode kd cp, tk_mode_dot_src Op th cells o x mode kd cp = tucker_mode_dot_method_h Op th cells o cp x mode kd) /\\
  tk_mode_dot_defaults = (false, false) /\\
  (forall (F : Type) (Op : fops F) tape th cells o, tk_normalize_src Op tape th cells o = tucker_normalize_method_h Op tape th cells o) /\\
  (forall (F : Type) (th : theap (F:=F)) cells o, tk_copy_src th cells o = tucker_copy_h th cells o).
Proof.
  split; [intros cells o idx loc; unfold tk_setitem_src, tucker_setitem_h; destruct idx as [|[|[|[|idx]]]]; reflexivity|].
  split; [intros cells o idx; unfold tk_getitem_src, tucker_getitem_h; destruct idx as [|[|[|[|idx]]]]; reflexivity|].
  split; [intros; reflexivity|].
  split; [intros F th cells cl fl; unfold tk_init_src, tucker_new_h; destruct (tread th cl fl); reflexivity|].
  split; [intros; reflexivity|].
  split; [reflexivity|].
  split; [intros F Op tape th cells o; unfold tk_normalize_src, tucker_normalize_method_h; destruct (tobj_read th cells o); reflexivity|].
  intros F th cells o; unfold tk_copy_src, tucker_copy_h; destruct (tobj_read th cells o); reflexivity.
Qed.
'''


def gen_tucker_methods(module, setitem_plain=True):
    """Gallina text (definitions + lemma) for the TuckerTensor method bodies of `module` (a module object or its source text).
    setitem_plain=False: __setitem__ refreshes / validates (a variant outside the model, noted and not compared by C04_r7): its body is
    not translated, the definition falls back to the model's own function so that the other methods stay tied."""
    src = module if isinstance(module, str) else textwrap.dedent(inspect.getsource(module))
    tree = ast.parse(src)
    gens = [gen_setitem if setitem_plain else (lambda t: "Definition tk_setitem_src := tucker_setitem_h.   (* not tied: refreshing __setitem__ *)\n"),
            gen_getitem, gen_iter, gen_init, gen_mode_dot, gen_normalize, gen_copy]
    return TK_HEADER + "".join(g(tree) for g in gens) + TK_LEMMA


# ----------------------------------------------------------------------------- lossy compression: predicate
def pred_compress_lossy(inp):
    """svd_compress_tensor_slices with a threshold that may drop singular values: for every compressed slice the score is the coordinate
    matrix loading^T X, the loading has orthonormal columns, and the discarded part X - loading x score is orthogonal to the loading
    (so loading x score is the orthogonal projection of the data on the kept left singular vectors); never more rows than the limit"""
    from tensorly.preprocessing import svd_compress_tensor_slices
    H = _H()
    slices, thr, mr = inp["slices"], inp["threshold"], inp["max_rank"]
    st, out = H.call(svd_compress_tensor_slices, H.cps(slices), compression_threshold=thr, max_rank=mr)
    if st != "ok":
        return f"svd_compress_tensor_slices raised: {out}"
    scores, loads = out
    if len(scores) != len(slices) or len(loads) != len(slices):
        return "svd_compress_tensor_slices: one (score, loading) pair per slice expected"
    for X, S, L in zip(slices, scores, loads):
        S = np.asarray(S)
        if L is None:
            if not H.close(S, X, exact=True):
                return "a slice passed through without loading differs from the data"
            continue
        L = np.asarray(L)
        scale = max(1.0, float(np.abs(X).max()))
        if L.shape[0] != X.shape[0] or S.shape[1] != X.shape[1] or L.shape[1] != S.shape[0]:
            return f"shapes of loading {L.shape} / score {S.shape} do not fit the slice {X.shape}"
        if np.abs(L.T @ L - np.eye(L.shape[1])).max() > 1e-8:
            return "the loading matrix does not have orthonormal columns"
        if np.abs(L.T @ X - S).max() > 1e-8 * scale:
            return "the score is not loading^T x data (not the coordinates of the projection on the kept singular vectors)"
        if np.abs(L.T @ (X - L @ S)).max() > 1e-8 * scale:
            return "the part of the data the compression discards is not orthogonal to the kept singular vectors"
    return None


PRED = {"svd_compress_lossy": pred_compress_lossy}
ENTRY = {"svd_compress_lossy": "tensorly.preprocessing.svd_compress_tensor_slices"}


# ----------------------------------------------------------------------------- the cases
def run_round8(chk, rng, judge, mult, emit, setitem_plain):
    H = _H()
    from tensorly.tucker_tensor import TuckerTensor, _validate_tucker_tensor
    call, zmats, ztens = H.call, H.zmats, H.ztens
    BAD = "(Ok (([99999]%nat, (@nil nat), (mk (@nil nat) (@nil Z), (@nil (list (list Z))))), false))"

    def sh(arrs):
        return tuple(tuple(np.asarray(a).shape) for a in arrs)

    def zobs(o):
        shape, rank = [int(d) for d in o.shape], [int(d) for d in o.rank]
        core, fs = np.asarray(o.core), [np.asarray(f) for f in o.factors]
        if not H.integral(core, *fs) or any(f.ndim != 2 for f in fs) or any(d > 4000 for d in shape + rank):
            raise ValueError("not printable")
        return f"({C.nat_list(shape)}, {C.nat_list(rank)}, ({ztens(core)}, {zmats(fs)}))"

    # --- obj[idx] = value for every index (only for the plain re-binding __setitem__ the model has: see C04_r7.tucker_setitem_refreshes_from_source)
    for it in range((5 * mult) if setitem_plain else 0):
        core, fs, feat = H.gen_tucker(rng)
        N = len(fs)
        k = rng.randrange(N)
        other = H.rint(rng, -3, 3, core.shape)
        wider = np.concatenate([core, np.take(core, [0], axis=k)], axis=k)          # one more slice on mode k: no longer fits factor k
        fewer = np.take(core, 0, axis=k)                                            # one mode fewer than there are factors
        cfgs = [(0, "same_shape", other, list(range(N))), (0, "wider", wider, list(range(N))), (0, "fewer_modes", fewer, list(range(N))), (0, "same", core, list(range(N))),
                (1, "permuted" if N > 2 else "same", core, (list(range(N))[1:] + [0]) if N > 2 else list(range(N))), (2 + (it % 2), "no_such_index", other, list(range(N)))]
        for idx, why, newcore, newls in cfgs:
            held_c, held_n = core.copy(), np.array(newcore, copy=True)
            held = [np.array(a, copy=True) for a in fs]
            st, obj = call(lambda: TuckerTensor((held_c, list(held))))
            if st != "ok":
                continue
            value = held_n if idx != 1 else [held[l] for l in newls]

            def assign():
                obj[idx] = value
                return obj
            st, _ = call(assign)
            chk.hist("tucker_obj", f"setitem[{min(idx, 2)}]:{why}:{st}")
            reads_back = False
            if st == "ok":
                vst, _ = call(_validate_tucker_tensor, obj)
                g_st, got = call(lambda: obj[idx])
                u_st, unp = call(lambda: list(obj))
                reads_back = bool(g_st == "ok" and got is value and u_st == "ok" and len(unp) == 2 and unp[idx] is value)
                try:
                    lit = f"(Ok ({zobs(obj)}, {C.boolc(vst == 'ok')}))"
                except Exception:  # noqa
                    lit = BAD
            else:
                lit = "Err"
            emit(lambda: f"ZTkObjSetIdx {idx}%nat {ztens(core)} {ztens(np.asarray(newcore))} {zmats(fs)} {C.nat_list(list(range(N)))} {C.nat_list(newls)} {lit} {C.boolc(reads_back)}",
                 ("TuckerTensor.__setitem__", idx, sh(fs), why))
            chk.count(key=("tucker_setitem_idx", idx, sh(fs), why), nontrivial=why not in ("same", "no_such_index"))
            if idx >= 2 and st == "ok":
                chk.finding("tensorly.tucker_tensor.TuckerTensor.__setitem__", {"core": core, "fs": fs, "index": idx},
                            f"item assignment at index {idx} of a TuckerTensor was accepted", "tucker_setitem_index")
            if idx < 2 and st == "ok" and not reads_back:
                chk.finding("tensorly.tucker_tensor.TuckerTensor.__setitem__", {"core": core, "fs": fs, "index": idx},
                            f"after obj[{idx}] = value, obj[{idx}] / unpacking do not hand out the assigned value", "tucker_setitem_index")

    # --- svd_decompress_parafac2_tensor on Parafac2Tensor OBJECTS whose projection list names one array for several slices
    from tensorly.parafac2_tensor import Parafac2Tensor
    from tensorly.preprocessing import svd_decompress_parafac2_tensor
    zrow, zmat = H.zrow, H.zmat

    def nat_lists(xs):
        return "[" + "; ".join(C.nat_list(list(x)) for x in xs) + "]" if len(xs) else "(@nil (list nat))"

    def pobs(o):
        w, fs, ps = np.asarray(o.weights), [np.asarray(f) for f in o.factors], [np.asarray(p) for p in o.projections]
        if not H.integral(w, *fs, *ps) or any(a.ndim != 2 for a in fs + ps) or w.ndim != 1:
            raise ValueError("not printable")
        return f"({nat_lists([tuple(int(d) for d in sh_) for sh_ in o.shape])}, {int(o.rank)}%nat, ({zrow(w)}, {zmats(fs)}, {zmats(ps)}))"

    for it in range(8 * mult):
        w, (A, B, Cm), Ps = H.gen_pf2_int(rng)
        I = len(Ps)
        arrs, ls = list(Ps), list(range(I))
        if it % 2 == 0 and I >= 2:                                 # slices a and b share ONE projection array
            a, b = rng.sample(range(I), 2)
            ls[b] = ls[a]
        Pl = [arrs[l] for l in ls]
        Ls = [None if rng.random() < 0.35 else H.sperm(rng, P.shape[0] + rng.randint(0, 2), P.shape[0]) for P in Pl]
        kind = "ortho"
        if it % 4 == 3:                                            # a loading that is not orthonormal where it meets the projection: the result must be refused
            k = rng.randrange(I)
            L = H.sperm(rng, Pl[k].shape[0] + 1, Pl[k].shape[0])
            used = [c for c in range(L.shape[1]) if np.any(Pl[k][c])]
            L[:, rng.choice(used)] *= 2; Ls[k] = L; kind = "bad"
        held_w, held_f = w.copy(), [A.copy(), B.copy(), Cm.copy()]
        held = [np.array(a_, copy=True) for a_ in arrs]
        plist = [held[l] for l in ls]
        plist0 = list(plist)                                       # the identities the caller's list had
        st, obj = call(lambda: Parafac2Tensor((held_w, held_f, plist)))
        if st != "ok":
            continue
        st, r = call(lambda: svd_decompress_parafac2_tensor(obj, [None if L is None else L.copy() for L in Ls]))
        chk.hist("pf2_obj", f"decompress:{kind}:{st}")
        if st == "ok":
            try:
                lit = f"(Ok ({pobs(r)}, {pobs(obj)}))"
            except Exception:  # noqa
                lit = "(Ok (((@nil (list nat)), 99999%nat, ((@nil Z), (@nil (list (list Z))), (@nil (list (list Z))))), ((@nil (list nat)), 99999%nat, ((@nil Z), (@nil (list (list Z))), (@nil (list (list Z)))))))"
        else:
            lit = "Err"
        emit(lambda: f"ZPfObjDecomp {zrow(w)} {zmats([A, B, Cm])} {zmats(arrs)} {C.nat_list(ls)} {H.zopt_mats(Ls)} {lit}",
             ("svd_decompress", "object-heap", kind, sh([A, B, Cm]), tuple(ls), tuple(L is None for L in Ls)))
        chk.count(key=("svd_decompress-object", kind, sh(Pl), tuple(ls), tuple(L is None for L in Ls)))
        if (kind == "ortho") != (st == "ok"):
            chk.finding("tensorly.preprocessing.svd_decompress_parafac2_tensor", {"w": w, "fs": [A, B, Cm], "Ps": Pl, "Ls": Ls},
                        "orthonormal loadings refused" if kind == "ortho" else "L_i P_i is not orthonormal but the decompressed object was accepted", "decompress_constructor")
        if kind == "ortho":
            judge("svd_decompress_parafac2_tensor", {"w": w, "fs": [A, B, Cm], "Ps": Pl, "Ls": Ls}, ("object-heap", sh(Pl), tuple(ls), tuple(L is None for L in Ls)))
        if st == "ok" and not (H.same_arrays(held, arrs) and H.same_arrays([held_w] + held_f, [w, A, B, Cm]) and obj.projections is plist and len(plist) == len(plist0) and all(x is y for x, y in zip(plist, plist0))):
            chk.finding("tensorly.preprocessing.svd_decompress_parafac2_tensor", {"w": w, "fs": [A, B, Cm], "Ps": Pl, "Ls": Ls},
                        "svd_decompress_parafac2_tensor changed an array or the projection list of its operand object", "svd_decompress_parafac2_tensor")

    # --- lossy compression: thresholds that really drop singular values, rank limits below the rank of the data
    for it in range(10 * mult):
        K = rng.randint(2, 4)
        slices = []
        for _ in range(rng.randint(1, 3)):
            rows = rng.randint(1, 6)
            X = np.array([[rng.gauss(0, 1) for _ in range(K)] for _ in range(rows)])
            if rows >= 2 and rng.random() < 0.3:                   # rank-deficient slice: a repeated row
                X[-1] = X[0]
            slices.append(X)
        thr = rng.choice([0.0, 0.3, 0.6, 0.9, 1.0])
        mr = rng.choice([None, 1, 2, K])
        judge("svd_compress_lossy", {"slices": slices, "threshold": thr, "max_rank": mr}, (sh(slices), thr, mr), nontrivial=thr > 0 or mr is not None)
