"""C05 -- svd_interface returns a genuine, sign-canonical truncated SVD.
Correspondence: Model/Svd.v (svd_checks, truncated_svd, svd_flip, mask imputation, NNDSVD(A), svd_interface dispatch,
symeig_svd, randomized_range_finder / randomized_svd) vs tensorly/tenalg/svd.py.  LAPACK svd / eigh / qr, the Gaussian test
matrix and the back ends that are not modelled are taped (their real answers are handed to the model as data); slicing and
+-1 multiplications are compared exactly in Q, everything through products / sqrt / division with tolerance.
Coq cases are Groups: requests sharing matrix, method, mask and a byte-identical tape share one literal of them; floats are
written as (D m e) / (N m e) = +-m / 2^e with primitive-integer m, e (parsing literals is the dominant cost of a shard).
Predicates: documented shapes, S >= 0 non-increasing and equal to the true leading singular values, orthonormal
factors, ||M - U_k S_k V_k||^2 = sum of discarded s_i^2, sign convention, flip keeps the product, non-negativity.
Local helpers that could live in common.py: retry_broken (re-evaluates coqc shards killed from outside), dq/dq_list
(dyadic literals), _install_known_loader (reads known_findings.d/C05.json directly)."""
import importlib, json, os, random
import numpy as np
from harness import common as C

HEADER = """From Coq Require Import List ZArith QArith Bool. Import ListNotations.
From Coq Require Import Uint63.
From TLV Require Import Base.Ops Base.Tensor Model.Svd Model.SvdConj Model.SvdComplex Model.SvdValidate Corr.C05.
Open Scope nat_scope.
Notation "'D' m e" := (dy false m%uint63 e%uint63) (at level 0, m at level 0, e at level 0, only parsing).
Notation "'N' m e" := (dy true m%uint63 e%uint63) (at level 0, m at level 0, e at level 0, only parsing)."""
HEADER_D = HEADER + "\nDefinition failing := dfailing."
EP = "tensorly.tenalg.svd.svd_interface"


# ----------------------------------------------------------------------------- literals
def dq(x):
    """exact literal of a float64: (D m e) = m / 2^e, (N m e) = -m / 2^e with primitive-integer m, e (cheap to parse);
    falls back to the scoped Qmake literal of common.q outside the representable range"""
    num, den = float(x).as_integer_ratio()
    e = den.bit_length() - 1
    if abs(num) >= 2 ** 62 or e >= 2 ** 20:
        return C.q(float(x))
    return f"({'N' if num < 0 else 'D'} {abs(num)} {e})"


def dq_list(xs):
    return "[" + "; ".join(dq(x) for x in xs) + "]" if len(xs) else "(@nil Q)"


def qmat(a):
    a = np.asarray(a, dtype=float)
    if a.ndim != 2:
        raise ValueError("not a matrix")
    rows = [dq_list([float(x) for x in r]) for r in a]
    return "[" + "; ".join(rows) + "]" if rows else "(@nil (list Q))"


def qvec(v):
    return dq_list([float(x) for x in np.asarray(v, dtype=float).ravel()])


def triple_lit(t):
    U, S, V = t
    return f"({qmat(U)}, {qvec(S)}, {qmat(V)})"


def cq(z):
    z = complex(z)
    return f"({dq(z.real)}, {dq(z.imag)})"


def cmat_lit(a):
    a = np.asarray(a, dtype=complex)
    if a.ndim != 2:
        raise ValueError("not a matrix")
    rows = ["[" + "; ".join(cq(z) for z in r) + "]" if len(r) else "(@nil C)" for r in a]
    return "[" + "; ".join(rows) + "]" if rows else "(@nil (list C))"


def cvec_lit(v):
    v = np.asarray(v, dtype=complex).ravel()
    return "[" + "; ".join(cq(z) for z in v) + "]" if v.size else "(@nil C)"


def ctriple_lit(t):
    U, S, V = t
    return f"({cmat_lit(U)}, {cvec_lit(S)}, {cmat_lit(V)})"


def near_tie(vecs, rel=1e-9):
    """a deciding vector has two DIFFERENT entries whose magnitudes are within rounding distance of the maximum: the exact-arithmetic
    model (squared magnitudes over Q) and np.argmax(np.abs(.)) may then pick different entries; such requests are skipped (counted)"""
    for v in vecs:
        v = np.asarray(v)
        if v.size < 2:
            continue
        a = np.abs(v)
        top = v[a >= a.max() * (1 - rel) - 1e-300]
        if top.size >= 2 and a.max() > 0 and np.any(top != top[0]):
            return True
    return False


def optnat(n):
    return "None" if n is None else f"(Some {int(n)}%nat)"


METH_LIT = {"truncated_svd": "MTruncated", "symeig_svd": "MSymeig", "randomized_svd": "MRandomized", "callable": "MCallable"}


def finite3(t):
    return all(np.all(np.isfinite(np.asarray(x, dtype=float))) for x in t)


# ----------------------------------------------------------------------------- inputs
SHAPES_Q = [(1, 1), (1, 4), (3, 1), (2, 2), (3, 3), (4, 2), (2, 4), (5, 3), (3, 5), (4, 4), (6, 4), (2, 5)]
SHAPES_T = SHAPES_Q + [(1, 2), (2, 1), (1, 6), (6, 1), (5, 5), (6, 6), (7, 3), (3, 7), (6, 5), (5, 6), (4, 3), (3, 4), (8, 2)]
KINDS = ["generic", "integer", "rankdef", "repeated"]


def make_matrix(kind, shape, rng):
    d1, d2 = shape
    mn = min(shape)
    if kind == "generic":
        return np.array([[rng.randint(-32, 32) / 16.0 for _ in range(d2)] for _ in range(d1)])
    if kind == "integer":
        return np.array([[float(rng.randint(-4, 4)) for _ in range(d2)] for _ in range(d1)])
    if kind == "rankdef":
        if mn < 2:
            return None
        r = rng.randint(1, mn - 1)
        while True:
            A = np.array([[float(rng.randint(-2, 2)) for _ in range(r)] for _ in range(d1)])
            B = np.array([[float(rng.randint(-2, 2)) for _ in range(d2)] for _ in range(r)])
            if np.linalg.matrix_rank(A @ B) == r:
                return A @ B
    if kind == "repeated":
        if mn < 2:
            return None
        vals = [2.0, 2.0, 1.0, 1.0, 0.5, 0.5][:mn]
        if rng.random() < 0.3:
            vals = [1.5] * mn
        M = np.zeros(shape)
        rows = rng.sample(range(d1), mn); cols = rng.sample(range(d2), mn)
        for v, i, j in zip(vals, rows, cols):
            M[i, j] = v * rng.choice([-1.0, 1.0])
        if mn >= 2 and rng.random() < 0.6:  # rotate two coordinates by the exact dyadic rotation (3,4,5)/5 is not dyadic -> use a Hadamard mix
            H = np.eye(d1)
            a, b = rng.sample(range(d1), 2) if d1 >= 2 else (0, 0)
            if a != b:
                H[a, a] = H[a, b] = H[b, a] = 1.0; H[b, b] = -1.0
                M = (H @ M)
                # rows a,b mixed by [[1,1],[1,-1]]: singular values of the affected pairs are scaled by sqrt(2) only when both
                # rows carried equal |values|; keep whatever spectrum results (the predicates use the true spectrum)
        return M
    raise KeyError(kind)


def make_mask(shape, rng):
    d1, d2 = shape
    m = np.ones(shape)
    nmiss = max(1, (d1 * d2) // 5)
    for _ in range(nmiss):
        m[rng.randrange(d1), rng.randrange(d2)] = 0.0
    if m.sum() == 0:
        m[0, 0] = 1.0
    return m


def numpy_thin_svd(matrix, n_eigenvecs=None, **kw):
    """a user-supplied back end (method=callable): thin LAPACK SVD, sliced"""
    U, S, V = np.linalg.svd(matrix, full_matrices=False)
    k = n_eigenvecs
    return U[:, :k], S[:k], V[:k, :]


# ----------------------------------------------------------------------------- running the implementation with tapes
class Tapes:
    def __init__(self):
        self.svd = []   # (matrix, full_matrices, (U,S,V))
        self.fun = []   # (matrix, (U,S,V))
        self.eigh = []  # (matrix, (lam, W))
        self.kw = []    # (label, n_eigenvecs, kwargs) of every top-level call of a candidate back end


def run_interface(matrix, method, n, flip, ub, nn, mask, iters, kwargs):
    """Calls svd_interface with recording wrappers installed through public extension points
    (Backend.register_method, a callable method, module attributes).  Returns (status/value, Tapes)."""
    import tensorly as tl
    from tensorly.backend.numpy_backend import NumpyBackend
    svdmod = importlib.import_module("tensorly.tenalg.svd")
    tp = Tapes()

    def rec_svd(a, full_matrices=True, **kw):
        r = np.linalg.svd(a, full_matrices=full_matrices, **kw)
        tp.svd.append((np.array(a, dtype=float, copy=True), bool(full_matrices), tuple(np.array(x, copy=True) for x in r)))
        return r

    def rec_eigh(a, *args, **kw):
        r = np.linalg.eigh(a, *args, **kw)
        tp.eigh.append((np.array(a, dtype=float, copy=True), (np.array(r[0], copy=True), np.array(r[1], copy=True))))
        return r

    depth = [0]

    def wrap(fn, label):
        """records the matrix of every TOP-LEVEL call (randomized_svd calls truncated_svd internally) of a candidate
        back end, whichever of them svd_interface dispatches to"""
        def w(m, n_eigenvecs=None, **kw):
            top = depth[0] == 0
            depth[0] += 1
            try:
                r = fn(m, n_eigenvecs=n_eigenvecs, **kw)
            finally:
                depth[0] -= 1
            if top:
                tp.fun.append((label, np.array(m, dtype=float, copy=True), tuple(np.array(x, copy=True) for x in r)))
                tp.kw.append((label, n_eigenvecs, dict(kw)))
            return r
        return w

    saved = {}
    NumpyBackend.register_method("svd", rec_svd)
    NumpyBackend.register_method("eigh", rec_eigh)
    for name in ("truncated_svd", "symeig_svd", "randomized_svd"):
        saved[name] = getattr(svdmod, name)
        setattr(svdmod, name, wrap(saved[name], name))
    try:
        meth = wrap(numpy_thin_svd, "callable") if method == "callable" else method
        args = dict(method=meth, n_eigenvecs=n, flip_sign=flip, u_based_flip_sign=ub, non_negative=nn, **kwargs)
        if mask is not None:
            args.update(mask=mask, n_iter_mask_imputation=iters)
        out = C.call_impl(lambda: svdmod.svd_interface(np.array(matrix, copy=True), **args))
    finally:
        NumpyBackend.register_method("svd", np.linalg.svd)
        NumpyBackend.register_method("eigh", np.linalg.eigh)
        for name, f in saved.items():
            setattr(svdmod, name, f)
    if out[0] == "ok":
        try:
            U, S, V = out[1]
            out = ("ok", (np.asarray(U), np.asarray(S), np.asarray(V)))
        except Exception as e:  # noqa
            out = ("crash", f"not a triple: {e}")
    return out, tp


def dedupe(calls, key):
    """consecutive recorded calls on byte-identical input are one logical call (refactor tolerance)"""
    out = []
    for c in calls:
        if out and key(out[-1]) == key(c):
            continue
        out.append(c)
    return out


def build_tape(method, tp, matrix, expected_calls=None, cfg=None):
    """tape entries (Min, a, b) per logical call of the dispatched function"""
    ents = []
    if method == "truncated_svd":
        calls = tp.svd
        if expected_calls is not None and len(calls) != expected_calls:
            dd = dedupe(calls, lambda c: (c[0].tobytes(), c[0].shape, c[1]))
            if len(dd) == expected_calls:
                calls = dd
        for (m, full, ans) in calls:
            other = tuple(np.linalg.svd(m, full_matrices=not full))
            a, b = (ans, other) if full else (other, ans)
            ents.append((m, a, b))
    else:
        # identification by value: the answers are obtained by calling the function the method name SHOULD select
        # directly (not through svd_interface) on every matrix the interface handed to a back end
        svdmod = importlib.import_module("tensorly.tenalg.svd")
        expected = {"symeig_svd": svdmod.symeig_svd, "randomized_svd": svdmod.randomized_svd, "callable": numpy_thin_svd}[method]
        for (_label, m, _ans) in tp.fun:
            out = C.call_impl(lambda: expected(np.array(m, copy=True), n_eigenvecs=(cfg or {}).get("n"), **((cfg or {}).get("kwargs") or {})))
            if out[0] != "ok":
                return []
            ents.append((m, tuple(np.asarray(x) for x in out[1]), None))
    return ents


FNAME_LIT = {"truncated_svd": "FTruncated", "symeig_svd": "FSymeig", "randomized_svd": "FRandomized", "callable": "FUser"}


def tape_lit(ents):
    if not ents:
        return "(@nil tape_entry)"
    return "[" + "; ".join(f"({qmat(m)}, {triple_lit(a)}, {'None' if b is None else '(Some ' + triple_lit(b) + ')'})" for (m, a, b) in ents) + "]"


def nn_lit(nn):
    if nn in (None, False):
        return "None"
    return "(Some NNDSVD)" if nn == "nndsvd" else "(Some NNDSVDA)"


class Groups:
    """Coq cases: requests that share matrix, method, mask setting and a byte-identical answer tape form one Group"""
    def __init__(self):
        self.groups = {}   # key -> [head literal, [sub literals]]
        self.meta = []     # sub id -> cfg

    def add(self, cfg, out, ents):
        M = cfg["matrix"]
        d1, d2 = M.shape
        mask = "None" if cfg["mask"] is None else f"(Some {qmat(cfg['mask'])})"
        head = (f"{d1}%nat {d2}%nat {METH_LIT.get(cfg['method'], 'MUnknown')} {FNAME_LIT.get(cfg['method'], 'FUser')} {qmat(M)} {mask} "
                f"{int(cfg['iters'])}%nat {tape_lit(ents)}")
        exp = "Err" if out[0] != "ok" else f"(Ok {triple_lit(out[1])})"
        sid = len(self.meta)
        self.meta.append(cfg)
        sub = f"(Sub {sid}%nat {optnat(cfg['n'])} {C.boolc(cfg['flip'])} {C.boolc(cfg['ub'])} {nn_lit(cfg['nn'])} {exp})"
        self.groups.setdefault(head, []).append(sub)

    def literals(self):
        """group literals, interleaved by size so that count-based shards carry similar weight"""
        lits = [f"(Group {h} [{'; '.join(subs)}])" for h, subs in self.groups.items()]
        lits.sort(key=len)
        return lits

    def shards(self, target_bytes=180000):
        """(ordered group literals, groups per shard): stride distribution, so every count-based shard of
        common.run_case_shards gets small and large groups"""
        lits = self.literals()
        total = sum(map(len, lits))
        nsh = max(1, min(len(lits), -(-total // target_bytes)))
        per = max(1, -(-len(lits) // nsh))
        cols = sorted((lits[k::nsh] for k in range(nsh)), key=len, reverse=True)
        return [g for c in cols for g in c], per


# ----------------------------------------------------------------------------- property predicates
def expected_shapes(method, d1, d2, n):
    mx, mn = max(d1, d2), min(d1, d2)
    k = mx if n is None else min(n, mx)
    if method == "callable":
        k2 = mn if n is None else min(n, mn)
        return (d1, k2), (k2,), (k2, d2)
    return (d1, min(k, d1)), (min(k, mn),), (min(k, d2), d2)


def num_rank(sv):
    return int(np.sum(sv > 1e-10 * max(sv.max(), 1e-300))) if sv.size else 0


def predicates(cfg, out, M_last):
    """list of (predicate id, message) violated by the implementation's output on this input"""
    bad = []
    method, n, flip, ub, nn = cfg["method"], cfg["n"], cfg["flip"], cfg["ub"], cfg["nn"]
    d1, d2 = cfg["matrix"].shape
    if out[0] != "ok":
        return [("C05_returns", f"svd_interface raised: {out[1]}")]
    U, S, V = out[1]
    su, ss, sv_ = expected_shapes(method, d1, d2, n)
    if U.shape != su or S.shape != ss or V.shape != sv_:
        return [("C05_shapes", f"shapes {U.shape},{S.shape},{V.shape} expected {su},{ss},{sv_}")]
    if not finite3((U, S, V)):
        return [("C05_finite", "non-finite entries in the returned triple")]
    if not np.all(np.isfinite(M_last)):
        return [("C05_finite", "non-finite matrix handed to the SVD back end during mask imputation")]
    if cfg["mask"] is not None and cfg["n"] is not None:
        # C05_mask_loop_spec: imputation never changes an observed entry (matrix * 1 + R * 0 is exact in floating point)
        obs = np.asarray(cfg["mask"]) == 1
        if M_last.shape != cfg["matrix"].shape or not np.array_equal(M_last[obs], cfg["matrix"][obs]):
            bad.append(("C05_mask_observed", "the matrix handed to the SVD back end after imputation differs from the input on observed entries"))
    sig = np.linalg.svd(M_last, compute_uv=False)
    smax = max(float(sig.max()), 1e-300) if sig.size else 1.0
    loose = method == "symeig_svd"
    rank = num_rank(sig)
    p = S.shape[0]
    exact_regime = True
    if method == "randomized_svd":
        k = max(d1, d2) if n is None else min(n, max(d1, d2))
        n_dims = min(k + cfg["kwargs"].get("n_oversamples", 5), max(d1, d2))
        exact_regime = n_dims >= rank
    if nn not in (None, False):
        if U.min() < 0 or V.min() < 0:
            bad.append(("C05_non_negative", f"non_negative={nn!r}: min(U)={U.min():.3g}, min(V)={V.min():.3g}"))
        if np.any(S < 0):
            bad.append(("C05_S_nonneg", "negative singular value"))
        return bad
    # S: non-negative, non-increasing, equal to the true leading singular values
    if np.any(S < 0):
        bad.append(("C05_S_nonneg", f"negative singular value {S.min():.3g}"))
    if np.any(S[1:] > S[:-1] + 1e-12 * smax):
        bad.append(("C05_S_ordered", f"singular values increase: {S.tolist()}"))
    tolS = (1e-6 * smax + 1e-7) if loose else 1e-9 * smax
    if exact_regime and np.max(np.abs(S - sig[:p]), initial=0.0) > tolS:
        bad.append(("C05_S_true", f"S={S.tolist()} differs from the leading singular values {sig[:p].tolist()}"))
    # orthonormality
    tolO = 1e-6 if loose else 1e-9
    cond_ok = True
    if loose:
        kept = min(p, rank)
        cond_ok = rank == 0 or sig[kept - 1] / smax > 1e-4 if kept else True
    eu = np.max(np.abs(U.T @ U - np.eye(U.shape[1])), initial=0.0)
    ev = np.max(np.abs(V @ V.T - np.eye(V.shape[0])), initial=0.0)
    if cond_ok and (eu > tolO or ev > tolO):
        bad.append(("C05_orthonormal", f"|U^T U - I|max={eu:.3g}, |V V^T - I|max={ev:.3g}"))
    # error identity
    if exact_regime:
        q = min(p, U.shape[1], V.shape[0])
        R = M_last - (U[:, :q] * S[:q]) @ V[:q, :]
        err2 = float(np.sum(R * R)); tail = float(np.sum(sig[q:] ** 2))
        tolR = (1e-6 if loose else 1e-9) * max(float(np.sum(M_last * M_last)), 1e-300)
        if abs(err2 - tail) > tolR:
            bad.append(("C05_error_identity", f"||M - U S V||^2 = {err2:.6g} but the discarded singular values give {tail:.6g}"))
    # sign convention
    if flip:
        if ub:
            vals = [U[np.argmax(np.abs(U[:, j])), j] for j in range(U.shape[1])] if U.shape[0] else []
        else:
            vals = [V[i, np.argmax(np.abs(V[i, :]))] for i in range(V.shape[0])] if V.shape[1] else []
        if any(v < 0 for v in vals):
            bad.append(("C05_sign_convention", f"a deciding entry is negative: {[float(v) for v in vals]}"))
    return bad


def flip_keeps_product(cfg, out, out_noflip):
    if out[0] != "ok" or out_noflip[0] != "ok":
        return None
    (U, S, V), (U0, S0, V0) = out[1], out_noflip[1]
    if U.shape != U0.shape or V.shape != V0.shape or S.shape != S0.shape:
        return "flip_sign changes the shapes"
    q = min(S.shape[0], U.shape[1], V.shape[0])
    P = (U[:, :q] * S[:q]) @ V[:q, :]; P0 = (U0[:, :q] * S0[:q]) @ V0[:q, :]
    tol = 1e-12 * max(1.0, float(np.max(np.abs(P0), initial=0.0)))
    # columns whose deciding entry is exactly zero are annihilated by sign(0)=0; they carry no weight only if the vector vanishes
    if np.max(np.abs(P - P0), initial=0.0) > tol or not np.array_equal(S, S0):
        return f"flip_sign changes the product by {np.max(np.abs(P - P0)):.3g}"
    if not np.array_equal(np.abs(U), np.abs(U0)) or not np.array_equal(np.abs(V), np.abs(V0)):
        return "flip_sign changes magnitudes of entries"
    return None


# ----------------------------------------------------------------------------- known findings
def _arr(x):
    return C.from_jsonable_array(x) if isinstance(x, dict) else np.asarray(x, dtype=float)


def clf_symeig_rank_deficient(f):
    inp = f["inputs"]
    if inp.get("method") != "symeig_svd" or f["predicate"] != "C05_orthonormal":
        return False
    M = _arr(f["extra"].get("M_last", inp["matrix"]))
    if not np.all(np.isfinite(M)):
        return False
    sig = np.linalg.svd(M, compute_uv=False)
    n = inp.get("n_eigenvecs")
    k = max(M.shape) if n is None else min(n, max(M.shape))
    return num_rank(sig) < min(k, min(M.shape))


CLASSIFIERS = {"symeig_rank_deficient": clf_symeig_rank_deficient}


def _install_known_loader():
    """known_findings.json is assembled by the coordinator from known_findings.d/*.json; read our snippet directly
    as well so that the classification does not depend on when that merge was last run."""
    orig = C.load_known
    if getattr(orig, "_c05", False):
        return

    def load(prop):
        ks = list(orig(prop))
        p = os.path.join(C.VERIF, "known_findings.d", f"{prop}.json")
        if os.path.exists(p):
            have = {k.get("id") for k in ks}
            ks += [k for k in json.load(open(p)).get("findings", []) if k.get("property") == prop and k.get("id") not in have]
        return ks
    load._c05 = True
    C.load_known = load


# ----------------------------------------------------------------------------- AST tie of the decision logic
# The integer decision logic of tensorly/tenalg/svd.py (n_eigenvecs clamping, full_matrices switch, slice bounds, branch
# conditions) is translated from the Python ast on every run and PROVED equal to the model's decision functions
# (Proofs/SvdDecisions.v, through which Model/Svd.v's functions factor by the lemmas *_factored).  A source that can no
# longer be translated is counted (the differential correspondence still covers it); a translated source whose goals do
# not prove means the model no longer mirrors the code.
import ast


class Untranslatable(Exception):
    pass


NONE = object()          # the Python value None
OPAQUE = object()        # anything that is not integer decision logic (arrays, calls of linear algebra)


SHAPE_SYM = {("U", 0): "ru", ("U", 1): "cu", ("V", 0): "rv", ("V", 1): "cv", ("S", 0): "ls"}


def g_expr(e, env):
    """integer-valued Python expression -> Gallina nat term"""
    if isinstance(e, ast.Constant) and isinstance(e.value, int) and not isinstance(e.value, bool) and e.value >= 0:
        return f"{e.value}"
    if isinstance(e, ast.Name):
        v = env.get(e.id, OPAQUE)
        if v is OPAQUE or v is NONE or (isinstance(v, str) and v.startswith("(B)")):
            raise Untranslatable(f"name {e.id}")
        return v
    if isinstance(e, ast.BinOp) and isinstance(e.op, ast.Add):
        return f"({g_expr(e.left, env)} + {g_expr(e.right, env)})"
    if isinstance(e, ast.BinOp) and isinstance(e.op, ast.Sub) and env.get("__allow_sub__"):
        # natural-number subtraction truncates at 0; only used where the source guards the subtraction by a comparison (the goal is
        # proved for ALL naturals, so an unguarded use that differs from the model shows up as a failing goal)
        return f"({g_expr(e.left, env)} - {g_expr(e.right, env)})"
    if isinstance(e, ast.Subscript) and is_call(e.value, "shape") and len(e.value.args) == 1 and isinstance(e.value.args[0], ast.Name) \
            and isinstance(e.slice, ast.Constant) and (e.value.args[0].id, e.slice.value) in SHAPE_SYM and env.get("__shapes__"):
        return SHAPE_SYM[(e.value.args[0].id, e.slice.value)]
    if isinstance(e, ast.Call) and isinstance(e.func, ast.Name) and e.func.id in ("min", "max") and len(e.args) >= 2 and not e.keywords:
        fn = "Nat.min" if e.func.id == "min" else "Nat.max"
        acc = g_expr(e.args[0], env)
        for a in e.args[1:]:
            acc = f"({fn} {acc} {g_expr(a, env)})"
        return acc
    if isinstance(e, ast.IfExp):
        return f"(if {g_bool(e.test, env)} then {g_expr(e.body, env)} else {g_expr(e.orelse, env)})"
    raise Untranslatable(ast.dump(e)[:80])


def g_bool(e, env):
    """boolean Python expression over integers -> Gallina bool term"""
    if isinstance(e, ast.Constant) and isinstance(e.value, bool):
        return "true" if e.value else "false"
    if isinstance(e, ast.BoolOp):
        op = " && " if isinstance(e.op, ast.And) else " || "
        return "(" + op.join(g_bool(v, env) for v in e.values) + ")"
    if isinstance(e, ast.UnaryOp) and isinstance(e.op, ast.Not):
        return f"(negb {g_bool(e.operand, env)})"
    if isinstance(e, ast.IfExp):
        return f"(if {g_bool(e.test, env)} then {g_bool(e.body, env)} else {g_bool(e.orelse, env)})"
    if isinstance(e, ast.Compare) and len(e.ops) == 1:
        a, b = g_expr(e.left, env), g_expr(e.comparators[0], env)
        op = e.ops[0]
        if isinstance(op, ast.Gt): return f"({b} <? {a})"
        if isinstance(op, ast.Lt): return f"({a} <? {b})"
        if isinstance(op, ast.GtE): return f"({b} <=? {a})"
        if isinstance(op, ast.LtE): return f"({a} <=? {b})"
        if isinstance(op, ast.Eq): return f"({a} =? {b})"
        if isinstance(op, ast.NotEq): return f"(negb ({a} =? {b}))"
    if isinstance(e, ast.Name):
        v = env.get(e.id, OPAQUE)
        if isinstance(v, str) and v.startswith("(B)"):
            return v[3:]
    raise Untranslatable(ast.dump(e)[:80])


def static_none_test(e, env):
    """`x is None` / `x is not None` decided from the symbolic environment; None if the test has another form"""
    if isinstance(e, ast.Compare) and len(e.ops) == 1 and isinstance(e.left, ast.Name) and \
            isinstance(e.comparators[0], ast.Constant) and e.comparators[0].value is None:
        is_none = env.get(e.left.id, OPAQUE) is NONE
        if isinstance(e.ops[0], ast.Is): return is_none
        if isinstance(e.ops[0], ast.IsNot): return not is_none
    return None


def is_call(e, *names):
    if not isinstance(e, ast.Call):
        return False
    f = e.func
    nm = f.id if isinstance(f, ast.Name) else (f.attr if isinstance(f, ast.Attribute) else None)
    return nm in names


class Run:
    """symbolic execution of a straight-line function body with ifs; integer decision logic is kept, the rest is opaque"""
    def __init__(self, env):
        self.env = dict(env)
        self.tests = []       # (lineno, Gallina bool) of every `if` whose test is integer logic and whose body is array code
        self.calls = {}       # callee name -> list of {kw: translated or OPAQUE}
        self.ret = None

    def value(self, e):
        try:
            return g_expr(e, self.env)
        except Untranslatable:
            pass
        try:
            return "(B)" + g_bool(e, self.env)
        except Untranslatable:
            pass
        if isinstance(e, ast.Constant) and e.value is None:
            return NONE
        if isinstance(e, ast.Call):
            nm = e.func.id if isinstance(e.func, ast.Name) else (e.func.attr if isinstance(e.func, ast.Attribute) else "?")
            rec = {}
            for kw in e.keywords:
                if kw.arg:
                    try:
                        rec[kw.arg] = g_expr(kw.value, self.env)
                    except Untranslatable:
                        try:
                            rec[kw.arg] = g_bool(kw.value, self.env)
                        except Untranslatable:
                            rec[kw.arg] = OPAQUE
            self.calls.setdefault(nm, []).append(rec)
        return OPAQUE

    def assign(self, tgt, val_node):
        if isinstance(tgt, ast.Name):
            self.env[tgt.id] = self.value(val_node)
        elif isinstance(tgt, ast.Tuple):
            names = [t.id if isinstance(t, ast.Name) else None for t in tgt.elts]
            if isinstance(val_node, ast.Tuple) and len(val_node.elts) == len(names):
                vals = [self.value(v) for v in val_node.elts]
            elif is_call(val_node, "shape") and len(names) == 2:
                vals = ["d1", "d2"]
            elif is_call(val_node, "svd_checks") and len(names) == 3:
                self.value(val_node)
                vals = ["k", "mn", "mx"]
            else:
                self.value(val_node)
                vals = [OPAQUE] * len(names)
            for n_, v in zip(names, vals):
                if n_:
                    self.env[n_] = v

    def block(self, stmts):
        for s in stmts:
            if self.ret is not None:
                return
            if isinstance(s, ast.Assign):
                for t in s.targets:
                    self.assign(t, s.value)
            elif isinstance(s, ast.Expr):
                if isinstance(s.value, ast.Call):
                    self.value(s.value)
            elif isinstance(s, ast.Return):
                self.ret = s.value
            elif isinstance(s, ast.If):
                if all(isinstance(b, ast.Raise) for b in s.body) and not s.orelse:
                    continue                      # a precondition check
                st = static_none_test(s.test, self.env)
                if st is not None:
                    self.block(s.body if st else s.orelse)
                    continue
                try:
                    c = g_bool(s.test, self.env)
                except Untranslatable:
                    c = None
                a, b = Run(self.env), Run(self.env)
                a.block(s.body); b.block(s.orelse)
                for k_, v in list(a.calls.items()) + list(b.calls.items()):
                    self.calls.setdefault(k_, []).extend(v)
                self.tests += a.tests + b.tests
                if c is not None:
                    self.tests.append((s.lineno, c))
                for name in set(a.env) | set(b.env):
                    va, vb, old = a.env.get(name, OPAQUE), b.env.get(name, OPAQUE), self.env.get(name, OPAQUE)
                    if va is vb or va == vb:
                        self.env[name] = va
                    elif c is not None and isinstance(va, str) and isinstance(vb, str) and not va.startswith("(B)"):
                        self.env[name] = f"(if {c} then {va} else {vb})"
                    else:
                        self.env[name] = OPAQUE
            elif isinstance(s, (ast.For, ast.While)):
                sub = Run(self.env); sub.block(s.body)
                for name in sub.env:
                    if sub.env[name] is not self.env.get(name, OPAQUE) and sub.env[name] != self.env.get(name, OPAQUE):
                        self.env[name] = OPAQUE
            # anything else: ignored


def slice_bound(sub, env, axis):
    """upper bound of X[:b] (axis 0 of a 1-D / 2-D array) or X[:, :b] (axis 1)"""
    if not isinstance(sub, ast.Subscript):
        raise Untranslatable("return element is not a slice")
    sl = sub.slice
    parts = list(sl.elts) if isinstance(sl, ast.Tuple) else [sl]
    part = parts[axis] if axis < len(parts) else None
    if not isinstance(part, ast.Slice) or part.lower is not None or part.step is not None or part.upper is None:
        raise Untranslatable("slice form")
    for i, q in enumerate(parts):
        if i != axis and not (isinstance(q, ast.Slice) and q.lower is None and q.upper is None and q.step is None):
            raise Untranslatable("other axes must be full slices")
    return g_expr(part.upper, env)


def return_bounds(ret, env):
    if not isinstance(ret, ast.Tuple) or len(ret.elts) != 3:
        raise Untranslatable("return is not a triple")
    return slice_bound(ret.elts[0], env, 1), slice_bound(ret.elts[1], env, 0), slice_bound(ret.elts[2], env, 0)


TIE_TAC = """Ltac tie := intros;
  repeat match goal with x : option nat |- _ => destruct x end;
  cbv [svd_checks dec_full dec_trunc_bounds dec_symeig_tall dec_symeig_bounds dec_rand_ndims dec_rand_transposed
       dec_nn_range dec_flip_pad dec_mask_st];
  repeat match goal with
  | |- context [?a <? ?b] => destruct (Nat.ltb_spec a b)
  | |- context [?a <=? ?b] => destruct (Nat.leb_spec a b)
  | |- context [?a =? ?b] => destruct (Nat.eqb_spec a b)
  end; cbn [andb orb negb];
  first [ reflexivity | (repeat f_equal; lia) | (exfalso; lia) ]."""
HEAD = """From Coq Require Import Arith Bool Lia.
From TLV Require Import Base.Ops Base.Tensor Model.Svd Model.SvdConj Proofs.SvdDecisions Proofs.SvdDecisions2 Proofs.SvdDecisions3.
""" + TIE_TAC + "\n"


def ties(src):
    """-> list of (name, Coq file text or None, reason if untranslatable)"""
    tree = ast.parse(src)
    funs = {n.name: n for n in tree.body if isinstance(n, ast.FunctionDef)}
    out = []

    def attempt(name, fn):
        try:
            out.append((name, HEAD + fn(), None))
        except (Untranslatable, KeyError, IndexError, AttributeError, TypeError) as e:
            out.append((name, None, f"{type(e).__name__}: {e}"[:200]))

    def t_svd_checks():
        res = {}
        for tag, v in (("None", NONE), ("Some", "r")):
            r_ = Run({"n_eigenvecs": v}); r_.block(funs["svd_checks"].body)
            if not isinstance(r_.ret, ast.Tuple) or len(r_.ret.elts) != 3:
                raise Untranslatable("svd_checks does not return a triple")
            res[tag] = [g_expr(x, r_.env) for x in r_.ret.elts]
        return (f"Definition ast_svd_checks (d1 d2 : nat) (n : option nat) : nat * nat * nat :=\n"
                f"  match n with None => ({', '.join(res['None'])}) | Some r => ({', '.join(res['Some'])}) end.\n"
                f"Goal forall d1 d2 n, svd_checks d1 d2 n = ast_svd_checks d1 d2 n.\nProof. unfold ast_svd_checks. tie. Qed.\n")

    def t_truncated():
        r_ = Run({"n_eigenvecs": "n0"}); r_.block(funs["truncated_svd"].body)
        full = [c.get("full_matrices") for c in r_.calls.get("svd", [])]
        if len(full) != 1 or not isinstance(full[0], str):
            raise Untranslatable("tl.svd(..., full_matrices=<integer logic>) not found exactly once")
        b = return_bounds(r_.ret, r_.env)
        return (f"Goal forall k mn mx : nat, dec_full k mn = {full[0]}.\nProof. tie. Qed.\n"
                f"Goal forall k mn mx : nat, dec_trunc_bounds k = ({b[0]}, {b[1]}, {b[2]}).\nProof. tie. Qed.\n")

    def t_symeig():
        r_ = Run({"n_eigenvecs": "n0"}); r_.block(funs["symeig_svd"].body)
        tests = [c for (_, c) in r_.tests]
        if len(tests) != 1:
            raise Untranslatable(f"expected one integer branch condition, found {len(tests)}")
        b = return_bounds(r_.ret, r_.env)
        return (f"Goal forall d1 d2 k mn mx : nat, dec_symeig_tall d1 d2 = {tests[0]}.\nProof. tie. Qed.\n"
                f"Goal forall d1 d2 k mn mx : nat, dec_symeig_bounds d1 d2 k = ({b[0]}, {b[1]}, {b[2]}).\nProof. tie. Qed.\n")

    def t_randomized():
        r_ = Run({"n_eigenvecs": "n0", "n_oversamples": "n_over"}); r_.block(funs["randomized_svd"].body)
        tests = [c for (_, c) in r_.tests]
        nd = r_.env.get("n_dims")
        if len(tests) != 1 or not isinstance(nd, str):
            raise Untranslatable(f"n_dims / branch condition not found ({len(tests)} conditions)")
        inner = [c.get("n_eigenvecs") for c in r_.calls.get("truncated_svd", [])]
        rf = [c.get("n_dims") for c in r_.calls.get("randomized_range_finder", [])]
        if len(inner) != 2 or any(x != "k" for x in inner) or len(rf) != 2 or any(x != nd for x in rf):
            raise Untranslatable("inner truncated_svd(n_eigenvecs=clamped) / range finder(n_dims=n_dims) calls not as modelled")
        # n_dims itself (the width of the Gaussian draw) is incidental; what is tied is the branch condition as a function
        # of the shape, the clamped request and n_oversamples, with the source's n_dims substituted
        return (f"Goal forall d1 d2 k mn mx n_over : nat, mn = Nat.min d1 d2 -> mx = Nat.max d1 d2 -> "
                f"dec_rand_transposed d1 d2 k mn (dec_rand_ndims k n_over mx) = {tests[0]}.\nProof. tie. Qed.\n")

    def is_chain_head(st):
        """first statement of the dispatch chain: `if method == "<name>":` or `if callable(method):`"""
        if not isinstance(st, ast.If):
            return False
        t = st.test
        return (isinstance(t, ast.Compare) and isinstance(t.left, ast.Name) and t.left.id == "method") or \
               (is_call(t, "callable") and len(t.args) == 1 and isinstance(t.args[0], ast.Name) and t.args[0].id == "method")

    def t_dispatch():
        """the if / elif chain of svd_interface: method == "<name>" -> svd_fun = <function>; callable(method) -> method; else raise"""
        fn = funs["svd_interface"]
        chain = next((st for st in fn.body if is_chain_head(st)), None)
        if chain is None:
            raise Untranslatable("no `if method == ...` chain")
        table, user, rejects = {}, False, False
        node = chain
        while True:
            tgt = node.body[0] if len(node.body) == 1 and isinstance(node.body[0], ast.Assign) else None
            if tgt is None or not (len(tgt.targets) == 1 and isinstance(tgt.targets[0], ast.Name) and tgt.targets[0].id == "svd_fun"
                                   and isinstance(tgt.value, ast.Name)):
                raise Untranslatable("branch body is not `svd_fun = <name>`")
            t = node.test
            if isinstance(t, ast.Compare) and len(t.ops) == 1 and isinstance(t.ops[0], ast.Eq) and isinstance(t.left, ast.Name) \
                    and t.left.id == "method" and isinstance(t.comparators[0], ast.Constant) and isinstance(t.comparators[0].value, str):
                # (a name test may follow the callable test: a str is never callable, so the order of the two kinds is immaterial)
                table.setdefault(t.comparators[0].value, tgt.value.id)
            elif is_call(t, "callable") and tgt.value.id == "method":
                user = True
            else:
                raise Untranslatable("unexpected test in the dispatch chain")
            if len(node.orelse) == 1 and isinstance(node.orelse[0], ast.If):
                node = node.orelse[0]
                continue
            rejects = bool(node.orelse) and all(isinstance(x, ast.Raise) for x in node.orelse)
            if node.orelse and not rejects:
                raise Untranslatable("else branch is not a raise")
            break
        # only statements that do not touch svd_fun / method may stand between the chain and the first call
        FN = {"truncated_svd": "FTruncated", "symeig_svd": "FSymeig", "randomized_svd": "FRandomized"}

        def pick(name):
            f_ = table.get(name)
            if f_ is None:
                return "None"
            if f_ not in FN:
                raise Untranslatable(f"method {name!r} dispatches to an unknown function {f_}")
            return f"(Some {FN[f_]})"
        arms = [f"MTruncated => {pick('truncated_svd')}", f"MSymeig => {pick('symeig_svd')}", f"MRandomized => {pick('randomized_svd')}",
                f"MCallable => {'(Some FUser)' if user else 'None'}", f"MUnknown => {'None' if rejects else '(Some FUser)'}"]
        extra = [k_ for k_ in table if k_ not in FN]
        if extra:
            raise Untranslatable(f"method names outside the model: {extra}")
        return ("Definition ast_dispatch (m : method) : option fname :=\n  match m with " + " | ".join(arms) + " end.\n"
                "Goal forall m, dispatch m = ast_dispatch m.\nProof. intros []; reflexivity. Qed.\n")

    def t_interface_steps():
        """round 5: the statements of svd_interface after the dispatch chain -> the trace of post-processing steps (which run, in
        which order, under which guard), proved equal to Proofs/SvdDecisions.v interface_trace through which Model/Svd.v
        svd_interface factors (svd_interface_traced)"""
        fn = funs["svd_interface"]
        body = list(fn.body)
        idx = next((i for i, st in enumerate(body) if is_chain_head(st)), None)
        if idx is None:
            raise Untranslatable("no dispatch chain")

        def calls_in(node):
            return {(c.func.id if isinstance(c.func, ast.Name) else getattr(c.func, "attr", None))
                    for c in ast.walk(node) if isinstance(c, ast.Call)}
        FLAG = {"mask": "mg", "n_eigenvecs": "ng"}

        def guard(e):
            if isinstance(e, ast.BoolOp):
                op = " && " if isinstance(e.op, ast.And) else " || "
                return "(" + op.join(guard(v) for v in e.values) + ")"
            if isinstance(e, ast.UnaryOp) and isinstance(e.op, ast.Not):
                return f"(negb {guard(e.operand)})"
            if isinstance(e, ast.Name) and e.id == "flip_sign":
                return "fl"
            if isinstance(e, ast.Name) and e.id == "non_negative":
                return "(nn_truthy a)"
            if isinstance(e, ast.Compare) and len(e.ops) == 1 and isinstance(e.left, ast.Name) and isinstance(e.comparators[0], ast.Constant) \
                    and isinstance(e.ops[0], (ast.Is, ast.IsNot)):
                nm, c_ = e.left.id, e.comparators[0].value
                pos = None
                if nm in FLAG and c_ is None:
                    pos = f"(negb {FLAG[nm]})"                    # `x is None`
                elif nm == "non_negative" and c_ is None:
                    pos = "(nn_is_none a)"
                elif nm == "non_negative" and c_ is False:
                    pos = "(nn_is_false a)"
                if pos is not None:
                    return pos if isinstance(e.ops[0], ast.Is) else f"(negb {pos})"
            raise Untranslatable("guard " + ast.dump(e)[:80])
        steps, nn_guard, seen_call = [], None, False
        for st in body[idx + 1:]:
            cs = calls_in(st)
            if isinstance(st, ast.Return):
                break
            if isinstance(st, ast.Assign) and "svd_fun" in cs:
                if seen_call:
                    raise Untranslatable("more than one unconditional back-end call")
                seen_call = True
                steps.append("[StepCall]")
            elif isinstance(st, ast.If) and not st.orelse and "svd_fun" in cs and not ({"svd_flip", "make_svd_non_negative"} & cs):
                steps.append(f"(if {guard(st.test)} then [StepMaskLoop] else [])")
            elif isinstance(st, ast.If) and not st.orelse and "svd_flip" in cs and not ({"svd_fun", "make_svd_non_negative"} & cs):
                steps.append(f"(if {guard(st.test)} then [StepFlip] else [])")
            elif isinstance(st, ast.If) and not st.orelse and "make_svd_non_negative" in cs and not ({"svd_fun", "svd_flip"} & cs):
                if nn_guard is not None:
                    raise Untranslatable("two non_negative steps")
                nn_guard = guard(st.test)
                steps.append("(if nn_on then [StepNN] else [])")
            elif isinstance(st, ast.Expr) and isinstance(st.value, ast.Constant):
                continue
            else:
                raise Untranslatable(f"statement at line {st.lineno} is not one of the modelled post-processing steps")
        if not seen_call or nn_guard is None:
            raise Untranslatable("back-end call / non_negative step not found")
        if any(x in nn_guard for x in ("mg", "ng", "fl")) or any("a)" in x for x in steps):
            raise Untranslatable("guards mix option kinds")
        return ("From Coq Require Import List. Import ListNotations.\n"
                "Definition ast_trace (mg ng fl nn_on : bool) : list istep :=\n  " + " ++ ".join(steps) + ".\n"
                "Goal forall mg ng fl nn_on, interface_trace mg ng fl nn_on = ast_trace mg ng fl nn_on.\nProof. intros [] [] [] []; reflexivity. Qed.\n"
                f"Goal forall a, nn_truthy a = {nn_guard}.\nProof. intros []; reflexivity. Qed.\n")


    # ---------------- round 7 ----------------
    SH = {"__shapes__": True}

    def t_nn():
        """make_svd_non_negative: `nntype is True -> "<name>"`, the loop range, the per-column choice, the final chain"""
        fn = funs["make_svd_non_negative"]
        NT = {"nndsvd": "NNDSVD", "nndsvda": "NNDSVDA"}
        true_as = None
        loops = [st for st in fn.body if isinstance(st, ast.For)]
        if len(loops) != 1:
            raise Untranslatable(f"expected one top-level loop, found {len(loops)}")
        for st in fn.body:
            if isinstance(st, ast.If) and isinstance(st.test, ast.Compare) and isinstance(st.test.left, ast.Name) and st.test.left.id == "nntype" \
                    and len(st.test.ops) == 1 and isinstance(st.test.ops[0], ast.Is) and isinstance(st.test.comparators[0], ast.Constant) \
                    and st.test.comparators[0].value is True:
                if len(st.body) != 1 or not isinstance(st.body[0], ast.Assign) or st.orelse or not isinstance(st.body[0].value, ast.Constant) \
                        or st.body[0].value.value not in NT or not (isinstance(st.body[0].targets[0], ast.Name) and st.body[0].targets[0].id == "nntype"):
                    raise Untranslatable("`if nntype is True:` body")
                true_as = NT[st.body[0].value.value]
        if true_as is None:
            raise Untranslatable("`if nntype is True: nntype = ...` not found")
        lp = loops[0]
        if not (is_call(lp.iter, "range") and len(lp.iter.args) == 2 and not lp.orelse):
            raise Untranslatable("loop is not `for j in range(a, b)`")
        lo, hi = g_expr(lp.iter.args[0], SH), g_expr(lp.iter.args[1], SH)

        def atom(e):
            if isinstance(e, ast.Compare) and len(e.ops) == 1 and isinstance(e.left, ast.Name):
                l_, op, r_ = e.left.id, e.ops[0], e.comparators[0]
                if isinstance(op, ast.Eq) and isinstance(r_, ast.Constant) and r_.value == 0 and not isinstance(r_.value, bool) and l_ in ("m_p", "m_n"):
                    return "zp" if l_ == "m_p" else "zn"
                if isinstance(r_, ast.Name):
                    if (isinstance(op, ast.Gt) and (l_, r_.id) == ("m_p", "m_n")) or (isinstance(op, ast.Lt) and (l_, r_.id) == ("m_n", "m_p")):
                        return "gt"
            if isinstance(e, ast.BoolOp):
                return "(" + (" && " if isinstance(e.op, ast.And) else " || ").join(atom(v) for v in e.values) + ")"
            if isinstance(e, ast.UnaryOp) and isinstance(e.op, ast.Not):
                return f"(negb {atom(e.operand)})"
            raise Untranslatable("condition in the NNDSVD loop: " + ast.dump(e)[:80])

        def kind(stmts):
            names = {n_.id for st in stmts for n_ in ast.walk(st) if isinstance(n_, ast.Name) and isinstance(n_.ctx, ast.Load)}
            if not all(isinstance(st, ast.Assign) for st in stmts) or not names:
                raise Untranslatable("branch of the NNDSVD choice is not a list of assignments")
            if all(n_.endswith("_p") or n_.endswith("_p_nrm") for n_ in names):
                return "NPos"
            if all(n_.endswith("_n") or n_.endswith("_n_nrm") for n_ in names):
                return "NNeg"
            raise Untranslatable(f"branch of the NNDSVD choice mixes positive and negative parts: {sorted(names)}")

        def choice(stmts):
            for i, st in enumerate(stmts):
                if isinstance(st, ast.If):
                    if len(st.body) == 1 and isinstance(st.body[0], ast.Continue) and not st.orelse:
                        return f"(if {atom(st.test)} then NSkip else {choice(stmts[i + 1:])})"
                    if st.orelse and not any(isinstance(x, ast.If) for x in stmts[i + 1:]):
                        return f"(if {atom(st.test)} then {kind(st.body)} else {kind(st.orelse)})"
                    raise Untranslatable(f"line {st.lineno}: if statement in the NNDSVD loop is neither the skip guard nor the choice")
                if isinstance(st, (ast.For, ast.While, ast.Continue, ast.Break, ast.Return)):
                    raise Untranslatable(f"line {st.lineno}: control flow in the NNDSVD loop")
            raise Untranslatable("no choice between positive and negative parts in the NNDSVD loop")
        ch = choice(lp.body)
        # final chain
        idx = fn.body.index(lp)
        chain = next((st for st in fn.body[idx + 1:] if isinstance(st, ast.If)), None)
        fin, node = {}, chain
        while node is not None:
            t = node.test
            if not (isinstance(t, ast.Compare) and isinstance(t.left, ast.Name) and t.left.id == "nntype" and len(t.ops) == 1 and isinstance(t.ops[0], ast.Eq)
                    and isinstance(t.comparators[0], ast.Constant) and t.comparators[0].value in NT):
                raise Untranslatable("final chain of make_svd_non_negative: test")
            calls = {(c.func.id if isinstance(c.func, ast.Name) else getattr(c.func, "attr", None)) for x in node.body for c in ast.walk(x) if isinstance(c, ast.Call)}
            if "soft_thresholding" in calls and "where" not in calls:
                fin.setdefault(NT[t.comparators[0].value], "FinSoft")
            elif "where" in calls and "soft_thresholding" not in calls:
                fin.setdefault(NT[t.comparators[0].value], "FinFill")
            else:
                raise Untranslatable("final chain of make_svd_non_negative: branch body")
            if len(node.orelse) == 1 and isinstance(node.orelse[0], ast.If):
                node = node.orelse[0]
                continue
            if not node.orelse or not all(isinstance(x, ast.Raise) for x in node.orelse):
                raise Untranslatable("final chain of make_svd_non_negative: else branch is not a raise")
            node = None
        if set(fin) != {"NNDSVD", "NNDSVDA"}:
            raise Untranslatable(f"final chain covers {sorted(fin)}")
        return (f"Goal dec_nn_true = {true_as}.\nProof. reflexivity. Qed.\n"
                f"Goal forall ru cu rv cv ls : nat, dec_nn_range cu rv = ({lo}, {hi}).\nProof. tie. Qed.\n"
                f"Goal forall zp zn gt : bool, dec_nn_choice zp zn gt = {ch}.\nProof. intros [] [] []; reflexivity. Qed.\n"
                f"Goal forall ty, dec_nn_final ty = match ty with NNDSVD => {fin['NNDSVD']} | NNDSVDA => {fin['NNDSVDA']} end.\nProof. intros []; reflexivity. Qed.\n")

    def t_flip():
        """svd_flip: how many ones are appended to the sign vector and where it is cut, for both decisions"""
        fn = funs["svd_flip"]
        top = [st for st in fn.body if isinstance(st, ast.If) and isinstance(st.test, ast.Name) and st.test.id == "u_based_decision"]
        if len(top) != 1 or not top[0].orelse:
            raise Untranslatable("`if u_based_decision: ... else: ...` not found")
        env = {"__shapes__": True, "__allow_sub__": True}

        def branch(stmts):
            pads = [st for st in stmts if isinstance(st, ast.If)]
            if len(pads) != 1 or pads[0].orelse or len(pads[0].body) != 1 or not isinstance(pads[0].body[0], ast.Assign):
                raise Untranslatable("padding statement `if shape(..) > shape(..): signs = concatenate(...)`")
            a_ = pads[0].body[0]
            if not (isinstance(a_.targets[0], ast.Name) and a_.targets[0].id == "signs" and is_call(a_.value, "concatenate")):
                raise Untranslatable("padding statement does not assign signs = concatenate(...)")
            ones = [c for c in ast.walk(a_.value) if is_call(c, "ones")]
            tup = a_.value.args[0] if a_.value.args else None
            if len(ones) != 1 or not ones[0].args or not (isinstance(tup, ast.Tuple) and len(tup.elts) == 2 and isinstance(tup.elts[0], ast.Name)
                                                           and tup.elts[0].id == "signs" and tup.elts[1] is ones[0]):
                raise Untranslatable("padding is not concatenate((signs, ones(n)))")
            pad = f"(if {g_bool(pads[0].test, env)} then {g_expr(ones[0].args[0], env)} else 0)"
            cuts = [x for st in stmts for x in ast.walk(st) if isinstance(x, ast.Subscript) and isinstance(x.value, ast.Name) and x.value.id == "signs"
                    and isinstance(x.slice, ast.Slice)]
            if len(cuts) != 1 or cuts[0].slice.lower is not None or cuts[0].slice.step is not None or cuts[0].slice.upper is None:
                raise Untranslatable("slice signs[:n] not found exactly once")
            if stmts.index(pads[0]) > min(i for i, st in enumerate(stmts) if any(x is cuts[0] for x in ast.walk(st))):
                raise Untranslatable("the sign vector is cut before it is padded")
            return pad, g_expr(cuts[0].slice.upper, env)
        pu, bu = branch(top[0].body)
        pv, bv = branch(top[0].orelse)
        return (f"Goal forall ru cu rv cv : nat, dec_flip_pad cu rv = ({pu}, {bu}).\nProof. tie. Qed.\n"
                f"Goal forall ru cu rv cv : nat, dec_flip_pad rv cu = ({pv}, {bv}).\nProof. tie. Qed.\n")

    def t_flip_roles():
        """round 8: svd_flip - which factor decides and along which axis the winners are taken (incl. how they are picked out of the
        deciding factor), which factor is multiplied by conj(signs) and which by the padded signs, orientation of both products"""
        fn = funs["svd_flip"]
        top = [st for st in fn.body if isinstance(st, ast.If) and isinstance(st.test, ast.Name) and st.test.id == "u_based_decision"]
        if len(top) != 1 or not top[0].orelse:
            raise Untranslatable("`if u_based_decision: ... else: ...` not found")
        FAC = {"U": "FacU", "V": "FacV"}

        def branch(stmts):
            am = [st for st in stmts if isinstance(st, ast.Assign) and len(st.targets) == 1 and isinstance(st.targets[0], ast.Name) and is_call(st.value, "argmax")]
            if len(am) != 1 or len([c for st in stmts for c in ast.walk(st) if is_call(c, "argmax")]) != 1:
                raise Untranslatable("exactly one `<name> = tl.argmax(...)` per branch")
            call, winners = am[0].value, am[0].targets[0].id
            if not (len(call.args) >= 1 and is_call(call.args[0], "abs") and len(call.args[0].args) == 1 and isinstance(call.args[0].args[0], ast.Name)
                    and call.args[0].args[0].id in FAC):
                raise Untranslatable("argmax is not taken over tl.abs(U) / tl.abs(V)")
            X = call.args[0].args[0].id
            ax = [kw.value for kw in call.keywords if kw.arg == "axis"] + list(call.args[1:2])
            if len(ax) != 1 or not (isinstance(ax[0], ast.Constant) and ax[0].value in (0, 1) and not isinstance(ax[0].value, bool)):
                raise Untranslatable("argmax axis is not the constant 0 or 1")
            axis = ax[0].value
            # signs = tl.sign(tl.tensor([X[i, j] for (i, j) in zip(p, q)], ...)): the winner index must stand at position `axis`
            sg = [st for st in stmts if isinstance(st, ast.Assign) and len(st.targets) == 1 and isinstance(st.targets[0], ast.Name)
                  and st.targets[0].id == "signs" and is_call(st.value, "sign")]
            comps = [c for st in sg for c in ast.walk(st) if isinstance(c, ast.ListComp)]
            if len(sg) != 1 or len(comps) != 1 or stmts.index(sg[0]) < stmts.index(am[0]):
                raise Untranslatable("`signs = tl.sign(tl.tensor([...]))` after the argmax")
            lc = comps[0]
            g = lc.generators[0] if len(lc.generators) == 1 else None
            if g is None or g.ifs or not (isinstance(g.target, ast.Tuple) and len(g.target.elts) == 2 and all(isinstance(x, ast.Name) for x in g.target.elts)) \
                    or not (is_call(g.iter, "zip") and len(g.iter.args) == 2):
                raise Untranslatable("winner pick is not `[... for (i, j) in zip(p, q)]`")
            ij = [x.id for x in g.target.elts]
            e = lc.elt
            if not (isinstance(e, ast.Subscript) and isinstance(e.value, ast.Name) and e.value.id == X and isinstance(e.slice, ast.Tuple)
                    and [getattr(x, "id", None) for x in e.slice.elts] == ij and ij[0] != ij[1]):
                raise Untranslatable("winner pick does not read <deciding factor>[i, j] with the loop indices in order")
            zw, zo = g.iter.args[axis], g.iter.args[1 - axis]
            if not (isinstance(zw, ast.Name) and zw.id == winners):
                raise Untranslatable("the argmax result is not the index along the argmax axis")
            if not (is_call(zo, "range") and len(zo.args) == 1 and isinstance(zo.args[0], ast.Subscript) and is_call(zo.args[0].value, "shape")
                    and len(zo.args[0].value.args) == 1 and isinstance(zo.args[0].value.args[0], ast.Name) and zo.args[0].value.args[0].id == X
                    and isinstance(zo.args[0].slice, ast.Constant) and zo.args[0].slice.value == 1 - axis):
                raise Untranslatable("the other index does not run over range(shape(<deciding factor>)[other axis])")
            # the two products
            pads = [st for st in stmts if isinstance(st, ast.If)]
            prods = {}
            for pos, st in enumerate(stmts):
                if isinstance(st, ast.Assign) and len(st.targets) == 1 and isinstance(st.targets[0], ast.Name) and st.targets[0].id in FAC:
                    T, v = st.targets[0].id, st.value
                    if not (isinstance(v, ast.BinOp) and isinstance(v.op, ast.Mult) and isinstance(v.left, ast.Name) and v.left.id == T):
                        raise Untranslatable(f"line {st.lineno}: {T} is assigned other than by `{T} = {T} * <sign vector>`")
                    vec, orient = v.right, "ByCols"
                    if isinstance(vec, ast.Subscript) and isinstance(vec.slice, ast.Tuple) and len(vec.slice.elts) == 2:
                        a0, a1 = vec.slice.elts
                        if isinstance(a0, ast.Slice) and a0.lower is None and a0.upper is None and a0.step is None and isinstance(a1, ast.Constant) and a1.value is None:
                            vec, orient = vec.value, "ByRows"
                        else:
                            raise Untranslatable(f"line {st.lineno}: broadcast subscript is not [:, None]")
                    if is_call(vec, "conj") and len(vec.args) == 1 and isinstance(vec.args[0], ast.Name) and vec.args[0].id == "signs":
                        role = "conj"
                        if pads and pos > stmts.index(pads[0]):
                            raise Untranslatable("conj(signs) is applied after the padding")
                    elif (isinstance(vec, ast.Name) and vec.id == "signs") or \
                            (isinstance(vec, ast.Subscript) and isinstance(vec.value, ast.Name) and vec.value.id == "signs" and isinstance(vec.slice, ast.Slice)):
                        role = "plain"
                        if pads and pos < stmts.index(pads[0]):
                            raise Untranslatable("the plain signs are applied before the padding")
                    else:
                        raise Untranslatable(f"line {st.lineno}: factor of the product is neither conj(signs) nor signs[...]")
                    if T in prods or role in [r_ for (r_, _) in prods.values()]:
                        raise Untranslatable("a factor is multiplied twice / a role is used twice")
                    prods[T] = (role, orient)
            if set(prods) != {"U", "V"}:
                raise Untranslatable("both U and V must be multiplied exactly once")
            cjf = next(T for T, (r_, _) in prods.items() if r_ == "conj")
            plain = next(T for T, (r_, _) in prods.items() if r_ == "plain")
            return f"({FAC[X]}, {axis}, {FAC[cjf]}, {FAC[plain]}, {prods['U'][1]}, {prods['V'][1]})"
        return (f"Goal dec_flip_roles true = {branch(top[0].body)}.\nProof. reflexivity. Qed.\n"
                f"Goal dec_flip_roles false = {branch(top[0].orelse)}.\nProof. reflexivity. Qed.\n")

    def t_mask():
        """the imputation loop of svd_interface: iteration count, shape of St, number of diagonal entries written"""
        fn = funs["svd_interface"]
        guard_if = [st for st in fn.body if isinstance(st, ast.If) and any(isinstance(x, ast.For) for x in st.body)
                    and any(isinstance(n_, ast.Name) and n_.id == "mask" for n_ in ast.walk(st.test))]
        if len(guard_if) != 1:
            raise Untranslatable("the `if mask is not None ...:` block with the imputation loop")
        loops = [x for x in guard_if[0].body if isinstance(x, ast.For)]
        if len(loops) != 1 or not (is_call(loops[0].iter, "range") and len(loops[0].iter.args) == 1 and isinstance(loops[0].iter.args[0], ast.Name)):
            raise Untranslatable("imputation loop is not `for _ in range(<parameter>)`")
        params = [a.arg for a in fn.args.args]
        if loops[0].iter.args[0].id != "n_iter_mask_imputation" or "n_iter_mask_imputation" not in params:
            raise Untranslatable("imputation loop does not run n_iter_mask_imputation times")
        eyes = [c for st in loops[0].body for c in ast.walk(st) if is_call(c, "eye")]
        inner = [st for st in loops[0].body if isinstance(st, ast.For)]
        if len(eyes) != 1 or len(eyes[0].args) != 2 or len(inner) != 1 or not (is_call(inner[0].iter, "range") and len(inner[0].iter.args) == 1):
            raise Untranslatable("St = tl.eye(r, c) / `for i in range(n)` not found")
        upd = [c for c in ast.walk(inner[0]) if is_call(c, "index_update")]
        if len(upd) != 1:
            raise Untranslatable("diagonal update of St")
        r_, c_, l_ = g_expr(eyes[0].args[0], SH), g_expr(eyes[0].args[1], SH), g_expr(inner[0].iter.args[0], SH)
        return (f"Goal forall iters ru cu rv cv ls : nat, dec_mask_st iters cu rv ls = (iters, {r_}, {c_}, {l_}).\nProof. tie. Qed.\n")

    def t_range_finder():
        """randomized_range_finder: the sequence of tl.qr calls as a generated Gallina function, proved equal to range_finder_conj"""
        fn = funs["randomized_range_finder"]
        menv = {"A": "A"}        # matrix-valued names -> Gallina term

        def mexpr(e):
            if isinstance(e, ast.Name) and e.id in menv:
                return menv[e.id]
            if is_call(e, "conj") and len(e.args) == 1:
                return f"(cjmat cj {mexpr(e.args[0])})"
            if is_call(e, "transpose") and len(e.args) == 1 and isinstance(e.args[0], ast.Name) and e.args[0].id == "A":
                return "(transp Op cA A)"
            raise Untranslatable("matrix expression " + ast.dump(e)[:80])

        def qr_stmt(st):
            """`Q, _ = tl.qr(tl.dot(X, Q))` -> X"""
            if isinstance(st, ast.Assign) and isinstance(st.targets[0], ast.Tuple) and len(st.targets[0].elts) == 2 \
                    and isinstance(st.targets[0].elts[0], ast.Name) and st.targets[0].elts[0].id == "Q" and is_call(st.value, "qr") \
                    and len(st.value.args) == 1 and is_call(st.value.args[0], "dot") and len(st.value.args[0].args) == 2 \
                    and isinstance(st.value.args[0].args[1], ast.Name) and st.value.args[0].args[1].id == "Q":
                return st.value.args[0].args[0]
            return None
        pre, loop_body, seenG, seen_loop, aux = [], [], False, False, {}
        for st in fn.body:
            if isinstance(st, ast.Expr) and isinstance(st.value, ast.Constant):
                continue
            if isinstance(st, ast.Return):
                if not (isinstance(st.value, ast.Name) and st.value.id == "Q"):
                    raise Untranslatable("does not return Q")
                break
            x = qr_stmt(st)
            if x is not None:
                if seen_loop:
                    raise Untranslatable("tl.qr call after the power iterations")
                pre.append(mexpr(x))
                continue
            if isinstance(st, ast.For):
                if seen_loop or not (is_call(st.iter, "range") and len(st.iter.args) == 1 and isinstance(st.iter.args[0], ast.Name) and st.iter.args[0].id == "n_iter"):
                    raise Untranslatable("power-iteration loop is not `for i in range(n_iter)`")
                seen_loop = True
                for b in st.body:
                    xb = qr_stmt(b)
                    if xb is None:
                        raise Untranslatable(f"line {b.lineno}: statement in the power-iteration loop is not `Q, _ = tl.qr(tl.dot(X, Q))`")
                    loop_body.append(xb)
                continue
            if isinstance(st, ast.Assign) and len(st.targets) == 1 and isinstance(st.targets[0], ast.Name):
                nm = st.targets[0].id
                if nm == "Q":
                    if seenG or pre or not any(is_call(c, "normal") for c in ast.walk(st.value)):
                        raise Untranslatable("Q is assigned other than by the Gaussian draw / tl.qr")
                    seenG = True
                    continue
                if nm in ("rng",):
                    continue
                try:
                    aux[nm] = mexpr(st.value)
                    continue
                except Untranslatable:
                    if any(isinstance(n_, ast.Name) and n_.id in ("Q", "A") for n_ in ast.walk(st.value)):
                        raise
                    continue
            if isinstance(st, ast.Assign) and isinstance(st.targets[0], ast.Tuple) and is_call(st.value, "shape"):
                continue
            raise Untranslatable(f"line {st.lineno}: statement of randomized_range_finder not understood")
        if not seenG or not seen_loop or len(aux) > 1:
            raise Untranslatable("Gaussian draw / power-iteration loop / at most one auxiliary matrix")
        auxname = next(iter(aux), None)
        menv2 = dict(menv)
        if auxname:
            menv2[auxname] = "AH"
        menv.update(menv2)
        body_terms = [mexpr(x) for x in loop_body]
        lets, call = [], "call"
        for t_ in body_terms:
            lets.append(f"    let Q := qr {call} (mmul Op (ncols Q) {t_} Q) in")
            call = f"(S {call})"
        pre_lets = [f"  let Q := qr {i} (mmul Op (ncols Q) {t_} Q) in" for i, t_ in enumerate(pre)]
        return ("Section T.\nContext {F : Type} (Op : fops F) (cj : F -> F).\n"
                "Fixpoint ast_loop (qr : nat -> list (list F) -> list (list F)) (A AH : list (list F)) (n_iter call : nat) (Q : list (list F)) : list (list F) :=\n"
                "  match n_iter with\n  | 0 => Q\n  | S k_ =>\n" + "\n".join(lets) + f"\n    ast_loop qr A AH k_ {call} Q\n  end.\n"
                "Definition ast_rf (qr : nat -> list (list F) -> list (list F)) (A : list (list F)) (cA : nat) (G : list (list F)) (n_iter : nat) : list (list F) :=\n"
                "  let Q := G in\n" + "\n".join(pre_lets) + f"\n  let AH := {aux.get(auxname, 'A')} in\n  ast_loop qr A AH n_iter {len(pre)} Q.\n"
                "Lemma loop_eq qr A AH : forall n call Q, power_iter Op qr A AH n call Q = ast_loop qr A AH n call Q.\n"
                "Proof. induction n as [|n IH]; intros call Q; cbn [power_iter ast_loop]; [reflexivity | apply IH]. Qed.\n"
                "Goal forall qr A cA G n_iter, range_finder_conj Op cj qr A cA G n_iter = ast_rf qr A cA G n_iter.\n"
                "Proof. intros. unfold range_finder_conj, ast_rf. apply loop_eq. Qed.\nEnd T.\n")

    attempt("svd_interface", t_dispatch)
    attempt("svd_interface_steps", t_interface_steps)
    attempt("svd_checks", t_svd_checks)
    attempt("truncated_svd", t_truncated)
    attempt("symeig_svd", t_symeig)
    attempt("randomized_svd", t_randomized)
    attempt("make_svd_non_negative", t_nn)
    attempt("svd_flip", t_flip)
    attempt("svd_flip_roles", t_flip_roles)
    attempt("svd_interface_mask_loop", t_mask)
    attempt("randomized_range_finder", t_range_finder)
    return out



def run_ast_tie(chk):
    """primary: goals generated from the Python ast, proved for all naturals.  A tie that cannot be translated or whose goal does
    not prove falls back on a SEMANTIC comparison (harness/props/C05_fallback.py): the decisions of the current code observed
    by execution on a finite box and compared with the model's decision functions inside Coq, or - for the value-level ties -
    the direct differential cases of this run (resolved in run() by resolve_pending_ties).  Only a tie that also fails its
    fallback is broken."""
    import subprocess, shutil
    from harness.props import C05_fallback as FB
    src_path = os.path.join(C.REPO, "tensorly", "tenalg", "svd.py")
    d = os.path.join(C.BUILD, "cases", "C05", f"ast_{os.getpid()}")
    shutil.rmtree(d, ignore_errors=True); os.makedirs(d, exist_ok=True)
    res = {"proved": [], "untranslated": [], "skipped": [], "fallback_box": {}, "fallback_pending": {}}
    chk.cov["ast_tie"] = res
    procs = []
    try:
        items = ties(open(src_path).read())
    except SyntaxError as e:
        chk.broken.append({"what": "ast tie: tensorly/tenalg/svd.py does not parse", "detail": str(e)})
        return res
    need = []          # (name, what, detail) of ties whose primary form failed
    for name, text, why in items:
        if text is None:
            # FAIL CLOSED (round 7): a source the translator no longer understands is a broken tie unless the semantic fallback holds (round 8)
            res["untranslated"].append(f"{name}: {why}")
            need.append((name, f"ast tie: tensorly.tenalg.svd.{name} can no longer be translated into the decision logic of the model (fail closed)", why))
            continue
        fn = os.path.join(d, f"Tie_{name}.v")
        open(fn, "w").write(text)
        procs.append((name, fn, subprocess.Popen(["timeout", "300", "coqc", "-w", "none", "-R", os.path.join(C.COQ, "theories"), "TLV", fn],
                                                 stdout=subprocess.PIPE, stderr=subprocess.PIPE, text=True, cwd=d)))
    for name, fn, p_ in procs:
        out, err = p_.communicate()
        if p_.returncode == 0:
            res["proved"].append(name)
        elif p_.returncode in (124, 137, -9, -15):
            res["skipped"].append(name)
        else:
            need.append((name, f"ast tie: the decision logic of tensorly.tenalg.svd.{name} differs from Model/Svd.v (generated goal does not prove)",
                         {"goal_file": open(fn).read()[-1500:], "coqc": (out + err)[-1200:]}))
    for name, what, detail in need:
        if name in FB.VALUE_LEVEL:
            res["fallback_pending"][name] = {"what": what, "detail": detail}
            continue
        text, n_obs = FB.box_for(name)
        if text is None:
            chk.broken.append({"what": what, "detail": detail, "fallback": f"not available: {n_obs}"})
            continue
        fn = os.path.join(d, f"Box_{name}.v")
        open(fn, "w").write(text)
        r = None
        for _attempt in range(2):
            r = subprocess.run(["timeout", "300", "coqc", "-w", "none", "-R", os.path.join(C.COQ, "theories"), "TLV", fn], capture_output=True, text=True, cwd=d)
            if r.returncode in (0, 1):
                break
        if r.returncode == 0:
            res["fallback_box"][name] = n_obs
            chk.notes.append(f"ast tie {name}: source restructured ({str(detail)[:120]}); decisions observed on {n_obs} requests equal the model's (finite box, vm_compute)")
        elif r.returncode == 1:
            chk.broken.append({"what": what + "; the decisions OBSERVED by executing the current code on a finite box also differ from the model's",
                               "detail": detail, "fallback": {"box_file": text[-1500:], "coqc": (r.stdout + r.stderr)[-800:]}})
        else:
            chk.broken.append({"what": what + "; the finite-box fallback was not evaluated", "detail": detail, "fallback": f"coqc rc {r.returncode}"})
    if not any(b.get("what", "").startswith("ast tie") for b in chk.broken):
        shutil.rmtree(d, ignore_errors=True)
    chk.checker_cmds.append("coqc on goals generated from the Python ast of tensorly/tenalg/svd.py (decision logic = Proofs/SvdDecisions*.v); "
                            "fallback for a restructured source: decisions observed by execution on a finite box, compared by vm_compute")
    return res


def resolve_pending_ties(chk, dmeta, dfail, evaluated):
    """value-level ties (svd_flip, make_svd_non_negative, randomized_range_finder) whose primary form failed: resolved by the direct
    differential cases of this run (whole-function comparison with the model inside Coq)"""
    from harness.props import C05_fallback as FB
    res = chk.cov.get("ast_tie", {})
    pending = res.get("fallback_pending") or {}
    if not pending:
        return
    ok, bad = FB.resolve_value_level({k: str(v["detail"])[:300] for k, v in pending.items()}, dmeta, dfail, evaluated)
    for name, n_ in ok.items():
        res.setdefault("fallback_differential", {})[name] = n_
        chk.notes.append(f"ast tie {name}: source restructured; {n_} direct differential cases of the same function agree with the model")
    for name, why in bad.items():
        chk.broken.append({"what": pending[name]["what"], "detail": pending[name]["detail"], "fallback": why})
    res["fallback_pending"] = {}


# ----------------------------------------------------------------------------- shard retry (local helper)
def retry_broken(broken, timeout=900):
    """A coqc shard killed from outside (SIGKILL by the OOM killer of the shared machine, or the shell timeout) carries no
    verdict: evaluate such shard files once more, one at a time.  Returns (failing ids, still broken)."""
    import re, subprocess, shutil
    failing, still = set(), []
    for b in broken:
        fn = b.get("shard", "")
        if b.get("rc") not in (-9, 137, 124, -15) or not os.path.exists(fn):
            still.append(b)
            continue
        r = subprocess.run(["timeout", str(timeout), "coqc", "-w", "none", "-R", os.path.join(C.COQ, "theories"), "TLV", fn],
                           capture_output=True, text=True, cwd=os.path.dirname(fn))
        out = r.stdout.replace("\n", " ").replace("%nat;", ";").replace("%nat]", "]")
        m = re.search(r"=\s*\((\d+)(?:%nat)?,\s*\[([\d;\s]*)\](?:%nat)?\)", out)
        if r.returncode != 0 or not m:
            still.append(dict(b, retry_rc=r.returncode, retry_stderr=r.stderr[-1000:]))
            continue
        failing.update(int(x) for x in m.group(2).replace(" ", "").split(";") if x)
    if not still and broken:
        shutil.rmtree(os.path.dirname(broken[0]["shard"]), ignore_errors=True)
    return failing, still


# ----------------------------------------------------------------------------- case generation
def configs(tier, rng):
    shapes = SHAPES_Q if tier == "quick" else SHAPES_T
    reps = 1 if tier == "quick" else 3
    for rep in range(reps):
        for shape in shapes:
            d1, d2 = shape
            mx = max(shape)
            for kind in KINDS:
                M = make_matrix(kind, shape, rng)
                if M is None:
                    continue
                ns = list(range(0, mx + 3)) + [None]
                for n in ns:
                    for method in ("truncated_svd", "symeig_svd", "randomized_svd", "callable"):
                        kw = {}
                        if method == "randomized_svd":
                            kw = {"random_state": rng.randrange(10 ** 6)}
                            if rng.random() < 0.3:
                                kw["n_oversamples"] = rng.choice([0, 1, 2])
                        for (flip, ub) in ((False, True), (True, True), (True, False)):
                            yield dict(matrix=M, kind=kind, method=method, n=n, flip=flip, ub=ub, nn=None, mask=None, iters=0, kwargs=kw)
                # round 5: masked randomized_svd (its kwargs must reach the back end inside the imputation loop too), a callable with
                # extra keyword arguments, a mask without n_eigenvecs (the imputation loop must be skipped), mask + non_negative
                # (NNDSVDA's fill value is the mean of the LAST imputed matrix)
                nm = rng.choice(sorted(set([1, min(shape)])))
                extra = [
                    dict(matrix=M, kind=kind, method="randomized_svd", n=nm, flip=True, ub=rng.random() < 0.5, nn=None,
                         mask=make_mask(shape, rng), iters=rng.choice([1, 2]),
                         kwargs={"random_state": rng.randrange(10 ** 6), "n_oversamples": rng.choice([2, 5]), "n_iter": rng.choice([0, 1, 2])}),
                    dict(matrix=M, kind=kind, method="callable", n=nm, flip=True, ub=True, nn=None,
                         mask=make_mask(shape, rng), iters=2, kwargs={"user_option": 3}),
                    dict(matrix=M, kind=kind, method=rng.choice(["truncated_svd", "callable"]), n=None, flip=True, ub=True, nn=None,
                         mask=make_mask(shape, rng), iters=2, kwargs={}),
                    # a rank strictly between 1 and min(shape) where possible: the imputed matrix then differs from the input, and a
                    # signed matrix gives NNDSVD columns with zero entries, so NNDSVDA's fill value (mean of the LAST imputed matrix) shows
                    dict(matrix=M, kind=kind, method="truncated_svd", n=(rng.randint(2, min(shape) - 1) if min(shape) >= 3 else nm),
                         flip=True, ub=True, nn=("nndsvda" if min(shape) >= 3 else rng.choice(["nndsvda", "nndsvd"])),
                         mask=make_mask(shape, rng), iters=rng.choice([1, 2]), kwargs={})]
                if tier == "quick":      # quick: two of the four per matrix; mask + NNDSVDA always where it is sensitive (min(shape) >= 3)
                    pick_ = rng.sample(extra, 2)
                    if min(shape) >= 3 and extra[3] not in pick_:
                        pick_.append(extra[3])
                    extra = pick_
                for c_ in extra:
                    yield c_
                # masks (n_eigenvecs must be given) and the non-negative option on a few requests per matrix
                for n in sorted(set([1, min(shape), mx])):
                    for method in ("truncated_svd", "symeig_svd", "callable"):
                        flip, ub = rng.choice([(False, True), (True, True), (True, False)])
                        yield dict(matrix=M, kind=kind, method=method, n=n, flip=flip, ub=ub, nn=None,
                                   mask=make_mask(shape, rng), iters=rng.choice([1, 2, 3]), kwargs={})
                    for nn in (True, "nndsvd", "nndsvda"):
                        method = rng.choice(["truncated_svd", "symeig_svd", "randomized_svd", "callable"])
                        kw = {"random_state": rng.randrange(10 ** 6)} if method == "randomized_svd" else {}
                        Mn = M if rng.random() < 0.5 else np.abs(M)
                        yield dict(matrix=Mn, kind=kind + ("" if Mn is M else "+abs"), method=method, n=n, flip=True, ub=True, nn=nn,
                                   mask=None, iters=0, kwargs=kw)
    # unknown method names must be rejected
    yield dict(matrix=np.eye(2), kind="generic", method="no_such_svd", n=1, flip=True, ub=True, nn=None, mask=None, iters=0, kwargs={})


def inputs_of(cfg):
    return {"matrix": cfg["matrix"], "kind": cfg["kind"], "method": cfg["method"], "n_eigenvecs": cfg["n"],
            "flip_sign": cfg["flip"], "u_based_flip_sign": cfg["ub"], "non_negative": cfg["nn"],
            "mask": cfg["mask"], "n_iter_mask_imputation": cfg["iters"], "kwargs": cfg["kwargs"]}


def last_matrix(cfg, tp):
    """the matrix the last call of the dispatched function was handed (differs from the input under a mask)"""
    if cfg["mask"] is None:
        return cfg["matrix"]
    if cfg["method"] == "truncated_svd" and tp.svd:
        return tp.svd[-1][0]
    if tp.fun:
        return tp.fun[-1][1]
    return cfg["matrix"]


def coq_selected(cfg, idx, tier, seed=0):
    """which configurations also go through the Coq correspondence (all go through the predicates).
    The cost of a Coq case is the number of float literals Coq has to parse, so the quick tier takes, per shape,
    two of the four matrix kinds (which two depends on the seed) and a quarter of the non-LAPACK-taped methods."""
    if max(cfg["matrix"].shape) > 6:
        return False
    if cfg["method"] not in METH_LIT or cfg["kind"] in ("corpus", "replay"):
        return True
    if cfg["nn"] not in (None, False) and cfg["mask"] is not None:
        return True       # few; the only place where NNDSVDA's fill value (mean of the LAST imputed matrix) is compared
    d1, d2 = cfg["matrix"].shape
    base = cfg["kind"].split("+")[0]
    kidx = KINDS.index(base) if base in KINDS else 0
    if tier == "quick" and (d1 * 7 + d2 * 3 + kidx + seed) % 2:
        return False
    if cfg["nn"] not in (None, False):
        return idx % (3 if tier == "quick" else 2) == 0       # NNDSVD in Q (integer square roots of large rationals) is the costliest model run
    if cfg["mask"] is not None:
        return tier != "quick" or idx % 2 == 0       # every masked request carries its own multi-entry tape
    if cfg["method"] == "truncated_svd":
        return True
    return (idx // 3) % 2 == 0     # idx // 3: the three flip settings of one request stay together


def nn_ill_conditioned(cfg):
    """NNDSVD branches on m_p > m_n and (nndsvda) on W < eps: when the floating-point operands of one of these
    comparisons are within rounding distance the exact-arithmetic model may legitimately take the other branch.
    Such requests are not sent to the Coq correspondence (counted as skipped); the predicates still see them."""
    out, _ = run_interface(cfg["matrix"], cfg["method"], cfg["n"], cfg["flip"], cfg["ub"], None, cfg["mask"], cfg["iters"], cfg["kwargs"])
    if out[0] != "ok":
        return True
    U, S, V = out[1]
    eps = np.finfo(float).eps
    q = min(U.shape[1], V.shape[0])
    if q == 0 or S.shape[0] < q:
        return False
    vals = [np.sqrt(S[0]) * np.abs(U[:, 0]), np.sqrt(S[0]) * np.abs(V[0, :])]
    for j in range(1, q):
        x, y = U[:, j], V[j, :]
        xp, yp, xn, yn = np.clip(x, 0, None), np.clip(y, 0, None), np.abs(np.clip(x, None, 0)), np.abs(np.clip(y, None, 0))
        a, b, c, d = (np.linalg.norm(v) for v in (xp, yp, xn, yn))
        mp, mn_ = a * b, c * d
        if any(0 < abs(t) < 1e-150 for t in list(x) + list(y)):
            return True      # squares underflow: the float norms can vanish where the exact ones do not (guard m_p == 0 and m_n == 0)
        if mp == 0 and mn_ == 0:
            continue
        if abs(mp - mn_) <= 1e-9 * max(mp, mn_):
            return True
        with np.errstate(all="ignore"):
            if mp > mn_:
                l = np.sqrt(S[j] * mp); vals += [l * xp / a, l * yp / b]
            else:
                l = np.sqrt(S[j] * mn_); vals += [l * xn / c, l * yn / d]
    w = np.concatenate([np.ravel(v) for v in vals])
    w = w[np.isfinite(w)]
    return bool(np.any(np.abs(w - eps) <= 1e-6 * eps))


def evaluate(cfg):
    """run one configuration; returns (out, tapes, M_last, [(pred, msg)])"""
    C.reset_backends()
    out, tp = run_interface(cfg["matrix"], cfg["method"], cfg["n"], cfg["flip"], cfg["ub"], cfg["nn"], cfg["mask"], cfg["iters"], cfg["kwargs"])
    if cfg["method"] not in METH_LIT:
        bad = [] if out[0] == "reject" else [("C05_dispatch", f"unknown method accepted / crashed: {out[0]}")]
        return out, tp, cfg["matrix"], bad
    M_last = last_matrix(cfg, tp)
    bad = predicates(cfg, out, M_last)
    if out[0] == "ok":
        # "**kwargs: Arguments passed along to individual SVD algorithms" - on every call, also inside the mask loop
        for (label, n_got, kw_got) in tp.kw:
            if n_got != cfg["n"] or kw_got != cfg["kwargs"]:
                bad.append(("C05_kwargs_forwarded", f"back end {label} called with n_eigenvecs={n_got!r}, kwargs={kw_got!r}; the request had n_eigenvecs={cfg['n']!r}, kwargs={cfg['kwargs']!r}"))
                break
    # round 7: the documented mask type is "array of booleans"; the rest of the check uses 0.0 / 1.0 masks.  A boolean (or integer) mask with
    # the same pattern must give bitwise the same triple (the code casts the mask into the numeric context of the data first)
    if cfg["mask"] is not None and cfg["n"] is not None and out[0] == "ok" and not bad and \
            (cfg["method"] != "randomized_svd" or "random_state" in cfg["kwargs"]) and finite3(out[1]):
        for caster in (bool, int):
            outb, _ = run_interface(cfg["matrix"], cfg["method"], cfg["n"], cfg["flip"], cfg["ub"], cfg["nn"], cfg["mask"].astype(caster), cfg["iters"], cfg["kwargs"])
            if outb[0] != "ok" or not all(np.array_equal(np.asarray(a), np.asarray(b)) for a, b in zip(out[1], outb[1])):
                bad.append(("C05_mask_dtype", f"a {caster.__name__} mask with the same pattern gives a different result / fails: {outb[0]} {str(outb[1])[:100] if outb[0] != 'ok' else ''}"))
                break
    if cfg["flip"] and cfg["nn"] in (None, False) and cfg["mask"] is None and not bad:
        out0, _ = run_interface(cfg["matrix"], cfg["method"], cfg["n"], False, cfg["ub"], cfg["nn"], None, 0, cfg["kwargs"])
        m = flip_keeps_product(cfg, out, out0)
        if m:
            bad.append(("C05_flip_product", m))
    return out, tp, M_last, bad


def run(chk):
    rng = random.Random(chk.seed)
    _install_known_loader()
    import time
    tm = {"t": time.time(), "c": time.process_time()}

    def lap(name):
        chk.notes.append(f"timing {name}: wall {time.time() - tm['t']:.1f}s, harness cpu {time.process_time() - tm['c']:.1f}s")
        tm["t"], tm["c"] = time.time(), time.process_time()
    chk.build_proofs()
    lap("build_proofs")
    run_ast_tie(chk)
    lap("ast tie")
    # common.print_assumptions also captures the header line "Axioms:" that Coq prints before the list; it is not an axiom
    chk.axioms = {k: [a for a in v if a != "Axioms"] for k, v in chk.axioms.items()}
    chk.broken = [b for b in chk.broken if not (str(b.get("what", "")).endswith("depends on non-stdlib axioms") and b.get("detail") == ["Axioms"])]
    tier = chk.tier
    grp = Groups()
    skipped_tape = skipped_ill = 0
    cfgs = []
    # corpus first
    cdir = os.path.join(C.VERIF, "corpus", "C05")
    if os.path.isdir(cdir):
        for fn in sorted(os.listdir(cdir)):
            if fn.endswith(".json"):
                cfgs.append(dict(cfg_from_inputs(json.load(open(os.path.join(cdir, fn)))["inputs"]), kind="corpus"))
    cfgs += list(configs(tier, rng))
    for idx, cfg in enumerate(cfgs):
        out, tp, M_last, bad = evaluate(cfg)
        sig = np.linalg.svd(M_last, compute_uv=False) if cfg["method"] in METH_LIT and np.all(np.isfinite(M_last)) else np.zeros(1)
        nontrivial = cfg["matrix"].size > 1
        chk.count(key=(cfg["method"], cfg["matrix"].shape, cfg["kind"], cfg["n"], cfg["flip"], cfg["ub"], str(cfg["nn"]), cfg["mask"] is not None),
                  nontrivial=nontrivial)
        chk.hist("method", cfg["method"]); chk.hist("shape", "x".join(map(str, cfg["matrix"].shape))); chk.hist("kind", cfg["kind"])
        chk.hist("n_eigenvecs", "None" if cfg["n"] is None else ("<=min" if cfg["n"] <= min(cfg["matrix"].shape) else ("<=max" if cfg["n"] <= max(cfg["matrix"].shape) else ">max")))
        chk.hist("options", f"flip={cfg['flip']},u={cfg['ub']},nn={cfg['nn']},mask={cfg['mask'] is not None}")
        chk.hist("outcome", out[0])
        if idx % 701 == 0:
            chk.sample({"inputs": {k: (v.tolist() if isinstance(v, np.ndarray) else v) for k, v in inputs_of(cfg).items()},
                        "outcome": out[0], "S": out[1][1].tolist() if out[0] == "ok" else str(out[1])[:80]})
        for pred, msg in bad:
            chk.finding(EP, inputs_of(cfg), msg, pred, observed=(list(out[1]) if out[0] == "ok" else str(out[1])),
                        extra={"M_last": M_last, "rank": num_rank(sig)})
        if coq_selected(cfg, idx, tier, chk.seed):
            if out[0] == "ok" and not finite3(out[1]):
                continue
            if out[0] == "crash":
                continue
            ncalls = 1 + (cfg["iters"] if cfg["mask"] is not None and cfg["n"] is not None else 0)
            try:
                ents = build_tape(cfg["method"], tp, cfg["matrix"], ncalls, cfg) if cfg["method"] in METH_LIT else []
                nonfinite = any(not finite3(a) or not np.all(np.isfinite(m)) for (m, a, _b) in ents)
            except np.linalg.LinAlgError:
                ents, nonfinite = [], True
            if nonfinite:
                skipped_tape += 1       # a NaN went through the back end: nothing exact to compare (the predicates report it)
                continue
            if cfg["nn"] not in (None, False) and nn_ill_conditioned(cfg):
                skipped_ill += 1
                continue
            grp.add(cfg, out, ents)
    lap("implementation + predicates")
    meta = grp.meta
    cases, per = grp.shards()
    failing, n_groups, broken = C.run_case_shards("C05", HEADER, "case", cases, shard=per)
    if broken:
        f2, broken = retry_broken(broken)
        failing |= f2
    n_eval = len(meta) if not broken else 0
    chk.cov["coq_groups"] = len(cases)
    chk.checker_cmds.append("coqc (vm_compute) on generated build/cases/C05/*/*.v: Corr.C05.failing / dfailing")
    for b in broken:
        chk.broken.append({"what": "correspondence corr:C05 shard not evaluated", "detail": b})
    for i in sorted(failing):
        cfg = meta[i]
        chk.disagreement("corr:C05 (Model/Svd.v svd_interface vs tensorly/tenalg/svd.py)", inputs_of(cfg))
    lap("interface shards")
    # direct calls of svd_flip / symeig_svd
    dcases, dmeta = direct_cases(chk, tier, rng)
    dfail, dn, dbroken = C.run_case_shards("C05", HEADER_D, "dcase", dcases, shard=(80 if tier == "quick" else 150), tag="direct")
    if dbroken:
        f2, dbroken = retry_broken(dbroken)
        dfail |= f2
        dn = len(dcases) if not dbroken else dn
    for b in dbroken:
        chk.broken.append({"what": "correspondence corr:C05 (direct) shard not evaluated", "detail": b})
    for i in sorted(dfail):
        chk.disagreement("corr:C05 direct (Model/Svd.v svd_flip / symeig_svd vs tensorly/tenalg/svd.py)", dmeta[i])
    resolve_pending_ties(chk, dmeta, dfail, evaluated=not dbroken)
    lap("direct cases + shards")
    chk.cov["traces_validated_against_impl"] = n_eval + dn
    chk.cov["tape_missing_skipped"] = skipped_tape
    chk.cov["ill_conditioned_skipped"] = skipped_ill
    chk.cov["exhaustive"] = False
    chk.cov["rule"] = ("shapes tall/square/wide/1xN/Nx1 x {generic dyadic, integer, rank-deficient, repeated-sigma} matrices x n_eigenvecs in 0..max+2 and None "
                       "x methods truncated/symeig/randomized/callable x flip {off, U-based, V-based}, plus masked (incl. masked randomized_svd with keyword arguments, a masked callable with an extra keyword, "
                       "a mask without n_eigenvecs, mask + non_negative) and non_negative requests; every configuration "
                       "goes through the Python predicates, the Coq correspondence takes all truncated_svd and masked configurations and a fixed fraction of the others "
                       "(matrices up to 6x6; quick: per shape two of the four kinds), plus direct svd_flip calls on tie/zero/padding matrices, complex svd_flip calls and complex "
                       "svd_interface requests (truncated_svd / symeig_svd) evaluated in the Gaussian-rational model, argument-validation requests (non-matrix inputs, "
                       "unknown method, every kind of non_negative value), direct symeig_svd calls on well-conditioned matrices "
                       "and direct randomized_svd calls (n_oversamples 0/1/2/5, n_iter 0/1/2, generic / integer / rank-deficient matrices); "
                       "non-trivial = matrix with more than one entry; distinct key = (method, shape, kind, n_eigenvecs, flip options, non_negative, masked)")
    chk.assumptions = ["np.linalg.svd / eigh meet their contract (orthonormal factors, sorted non-negative S, U S V = M); measured on this run by the residual predicates",
                       "floating-point rounding is not modelled; exact comparison is used only where the code performs slicing and multiplications by +-1",
                       "randomized_svd is required to be exact only when n_eigenvecs + n_oversamples covers the numerical rank",
                       "np.linalg.qr meets the reduced-QR contract qr_ok and the range finder's Q covers the range when the rank is covered (hypotheses of "
                       "C05_range_finder_covers / C05_randomized_svd_*_partial); measured on every direct randomized_svd run (C05_qr_contract, C05_range_cover)"]
    chk.trusted += ["oracles: numpy.linalg.svd / eigh answers are taped (Backend.register_method) and handed to the model as data; "
                    "symeig_svd / randomized_svd / callable answers inside svd_interface are taped at the dispatched function",
                    "randomized_svd called directly: the Gaussian test matrix (a recording RandomState), every tl.qr and tl.svd answer are taped",
                    "'best approximation' is a theorem (C05_eckart_young, C05_interface_best_approx*); the predicates test only the error identity it is derived from"]
    return chk.finish(CLASSIFIERS)


# ----------------------------------------------------------------------------- direct cases
def direct_cases(chk, tier, rng):
    svdmod = importlib.import_module("tensorly.tenalg.svd")
    from tensorly.backend.numpy_backend import NumpyBackend
    dcases, dmeta = [], []
    vals = [-1.0, -0.5, 0.0, 0.0, 0.5, 1.0, 0.25, -0.25]
    nflip = 150 if tier == "quick" else 1200
    for _ in range(nflip):
        a, c, r, b = rng.randint(1, 4), rng.randint(1, 4), rng.randint(1, 4), rng.randint(1, 4)
        if rng.random() < 0.5:
            r = c
        U = np.array([[rng.choice(vals) for _ in range(c)] for _ in range(a)])
        V = np.array([[rng.choice(vals) for _ in range(b)] for _ in range(r)])
        if rng.random() < 0.3:
            U[:, rng.randrange(c)] = 0.0
        if rng.random() < 0.3:
            V[rng.randrange(r), :] = 0.0
        ub = rng.random() < 0.5
        out = C.call_impl(lambda: svdmod.svd_flip(U.copy(), V.copy(), u_based_decision=ub))
        chk.count(key=("svd_flip", U.shape, V.shape, ub, U.tobytes(), V.tobytes()), nontrivial=True)
        chk.hist("method", "svd_flip(direct)")
        if out[0] != "ok":
            chk.finding("tensorly.tenalg.svd.svd_flip", {"U": U, "V": V, "u_based_decision": ub}, f"svd_flip raised: {out[1]}", "C05_flip_returns")
            continue
        U2, V2 = np.asarray(out[1][0]), np.asarray(out[1][1])
        # predicate: magnitudes unchanged, deciding entries non-negative, U V product over the common index unchanged when no deciding vector vanishes
        msg = None
        if U2.shape != U.shape or V2.shape != V.shape:
            msg = "svd_flip changes shapes"
        elif not np.array_equal(np.abs(U2), np.abs(U) * (np.abs(U2) > 0)) or not np.array_equal(np.abs(V2), np.abs(V) * (np.abs(V2) > 0)):
            msg = "svd_flip changes magnitudes"
        else:
            dec = [U2[np.argmax(np.abs(U[:, j])), j] for j in range(c)] if ub else [V2[i, np.argmax(np.abs(V[i, :]))] for i in range(r)]
            if any(v < 0 for v in dec):
                msg = "a deciding entry is negative after svd_flip"
            q = min(c, r)
            nz = all(np.any(U[:, j] != 0) for j in range(q)) if ub else all(np.any(V[i, :] != 0) for i in range(q))
            if msg is None and nz and not np.array_equal(U2[:, :q] @ V2[:q, :], U[:, :q] @ V[:q, :]):
                msg = "svd_flip changes the product"
        if msg:
            chk.finding("tensorly.tenalg.svd.svd_flip", {"U": U, "V": V, "u_based_decision": ub}, msg, "C05_flip_direct")
        dcases.append(f"(DFlip {len(dcases)}%nat {qmat(U)} {qmat(V)} {C.boolc(ub)} {qmat(U2)} {qmat(V2)})")
        dmeta.append({"call": "svd_flip", "U": U, "V": V, "u_based_decision": ub})
    # symeig_svd on well-conditioned full-rank matrices, eigh taped
    nsym = 40 if tier == "quick" else 300
    tries = 0
    while nsym > 0 and tries < 5000:
        tries += 1
        d1, d2 = rng.randint(1, 5), rng.randint(1, 5)
        M = np.array([[rng.randint(-16, 16) / 8.0 for _ in range(d2)] for _ in range(d1)])
        sig = np.linalg.svd(M, compute_uv=False)
        if sig.min() < 0.2 * sig.max() or sig.max() == 0:
            continue
        if len(sig) > 1 and np.min(sig[:-1] - sig[1:]) < 0.05 * sig.max():
            continue
        n = rng.choice([None] + list(range(1, max(d1, d2) + 2)))
        tape = []

        def rec_eigh(a, *args, **kw):
            r_ = np.linalg.eigh(a, *args, **kw)
            tape.append((np.array(a, copy=True), np.array(r_[0], copy=True), np.array(r_[1], copy=True)))
            return r_
        NumpyBackend.register_method("eigh", rec_eigh)
        try:
            out = C.call_impl(lambda: svdmod.symeig_svd(M.copy(), n_eigenvecs=n))
        finally:
            NumpyBackend.register_method("eigh", np.linalg.eigh)
        if out[0] != "ok" or len(tape) != 1 or not finite3(out[1]):
            chk.finding("tensorly.tenalg.svd.symeig_svd", {"matrix": M, "n_eigenvecs": n}, f"symeig_svd failed on a well-conditioned matrix: {out[0]} {str(out[1])[:100]}", "C05_symeig_returns")
            nsym -= 1
            continue
        nsym -= 1
        chk.count(key=("symeig_svd", M.shape, n, M.tobytes()), nontrivial=M.size > 1)
        chk.hist("method", "symeig_svd(direct)")
        Gin, lam, W = tape[0]
        dcases.append(f"(DSymeig {len(dcases)}%nat {d1}%nat {d2}%nat {optnat(n)} {qmat(M)} {qmat(Gin)} {qvec(lam)} {qmat(W)} {triple_lit(out[1])})")
        dmeta.append({"call": "symeig_svd", "matrix": M, "n_eigenvecs": n})
    # randomized_svd called directly: Gaussian test matrix, every tl.qr and tl.svd answer taped; the model does the products,
    # transposes, branch condition, n_dims, inner truncation and the lifting by Q
    class RecRS(np.random.RandomState):
        def normal(self, *a, **kw):
            r_ = super().normal(*a, **kw)
            self.drawn = getattr(self, "drawn", []) + [np.array(r_, copy=True)]
            return r_
    nrand = 36 if tier == "quick" else 240
    for it in range(nrand):
        d1, d2 = rng.randint(1, 6), rng.randint(1, 6)
        kind = rng.choice(["generic", "generic", "rankdef", "integer"])
        M = make_matrix(kind, (d1, d2), rng)
        if M is None:
            M = make_matrix("generic", (d1, d2), rng)
        n = rng.choice([None] + list(range(1, max(d1, d2) + 2)))
        n_over, n_iter, seed = rng.choice([0, 1, 2, 5]), rng.choice([0, 1, 2]), rng.randrange(10 ** 6)
        qrs, svds = [], []

        def rec_qr(a, *args, **kw):
            r_ = np.linalg.qr(a, *args, **kw)
            qrs.append((np.array(a, dtype=float, copy=True), np.array(r_[0], copy=True)))
            return r_

        def rec_svd(a, full_matrices=True, **kw):
            r_ = np.linalg.svd(a, full_matrices=full_matrices, **kw)
            svds.append((np.array(a, dtype=float, copy=True), bool(full_matrices), tuple(np.array(x, copy=True) for x in r_)))
            return r_
        rs = RecRS(seed)
        NumpyBackend.register_method("qr", rec_qr)
        NumpyBackend.register_method("svd", rec_svd)
        try:
            out = C.call_impl(lambda: svdmod.randomized_svd(M.copy(), n_eigenvecs=n, n_oversamples=n_over, n_iter=n_iter, random_state=rs))
        finally:
            NumpyBackend.register_method("qr", np.linalg.qr)
            NumpyBackend.register_method("svd", np.linalg.svd)
        meta_ = {"call": "randomized_svd", "matrix": M, "n_eigenvecs": n, "n_oversamples": n_over, "n_iter": n_iter, "random_state": seed}
        chk.count(key=("randomized_svd", M.shape, n, n_over, n_iter, M.tobytes()), nontrivial=M.size > 1)
        chk.hist("method", "randomized_svd(direct)")
        if out[0] == "crash" and out[1] == "timeout":
            continue
        drawn = getattr(rs, "drawn", [])
        if out[0] != "ok" or not finite3(out[1]) or len(drawn) != 1 or not qrs or not svds:
            chk.finding("tensorly.tenalg.svd.randomized_svd", meta_, f"randomized_svd failed / did not use the given random_state, tl.qr, tl.svd as documented: {out[0]} {str(out[1])[:100]} draws={len(drawn)} qr={len(qrs)} svd={len(svds)}", "C05_randomized_returns")
            continue
        # the hypotheses of C05_range_finder_covers / C05_randomized_svd_*_partial, measured on this run: every tl.qr answer meets
        # the reduced-QR contract qr_ok (shape, orthonormal columns, X = Q (Q^T X)), and - when n_eigenvecs + n_oversamples
        # covers the numerical rank - the range finder's Q covers the range of the matrix it was run on
        for (Xq, Qq) in qrs:
            mq, wq = Xq.shape
            sc = max(1.0, float(np.max(np.abs(Xq), initial=0.0)))
            if Qq.shape != (mq, min(mq, wq)) or np.max(np.abs(Qq.T @ Qq - np.eye(Qq.shape[1])), initial=0.0) > 1e-9 \
                    or np.max(np.abs(Xq - Qq @ (Qq.T @ Xq)), initial=0.0) > 1e-9 * sc:
                chk.finding("tensorly.tenalg.svd.randomized_svd", meta_, "a tl.qr answer does not meet the reduced-QR contract (shape / orthonormal columns / X = Q Q^T X)", "C05_qr_contract")
                break
        mx_ = max(d1, d2)
        k_ = mx_ if n is None else min(n, mx_)
        nd_ = min(k_ + n_over, mx_)
        Qf = qrs[-1][1]
        # which of M / M^T the range finder ran on is read off the shape of Q (the branch choice itself is tied by the ast tie and
        # the Coq correspondence, not here); square matrices are never transposed by the code
        A_ = M.T if (d1 != d2 and Qf.shape[0] == d2) else M
        if Qf.shape[0] == A_.shape[0] and nd_ >= num_rank(np.linalg.svd(M, compute_uv=False)):
            if np.max(np.abs(A_ - Qf @ (Qf.T @ A_)), initial=0.0) > 1e-8 * max(1.0, float(np.max(np.abs(M), initial=0.0))):
                chk.finding("tensorly.tenalg.svd.randomized_svd", meta_, "the range finder's Q does not cover the range although n_eigenvecs + n_oversamples >= rank", "C05_range_cover")
        try:
            sv_ents = []
            for (m, full, ans) in svds:
                other = tuple(np.linalg.svd(m, full_matrices=not full))
                a_, b_ = (ans, other) if full else (other, ans)
                sv_ents.append(f"({qmat(m)}, {triple_lit(a_)}, {triple_lit(b_)})")
            qr_ents = [f"({qmat(m)}, {qmat(q_)})" for (m, q_) in qrs]
            lit = (f"(DRandom {len(dcases)}%nat {d1}%nat {d2}%nat {optnat(n)} {n_over}%nat {n_iter}%nat {qmat(M)} {qmat(drawn[0])} "
                   f"[{'; '.join(qr_ents)}] [{'; '.join(sv_ents)}] {triple_lit(out[1])})")
        except (ValueError, np.linalg.LinAlgError):
            continue
        dcases.append(lit)
        dmeta.append(meta_)
        # round 7: the hypotheses of C05_range_finder_covers (reduced-QR contract of the LAST tl.qr answer, "the last sketch spans the
        # columns of A" with an explicit witness C, A = X C) evaluated INSIDE Coq on the recorded run (Corr/C05.v sketch_ok); the witness
        # comes from a least-squares solve and is only offered when n_eigenvecs + n_oversamples covers the numerical rank
        try:
            Xs = qrs[-1][0]
            if Qf.shape[0] == A_.shape[0] and Xs.shape[0] == A_.shape[0] and nd_ >= num_rank(np.linalg.svd(M, compute_uv=False)):
                Cw = np.linalg.lstsq(Xs, A_, rcond=None)[0]
                sc_ = max(1.0, float(np.max(np.abs(A_), initial=0.0)))
                if np.all(np.isfinite(Cw)) and np.max(np.abs(A_ - Xs @ Cw), initial=0.0) <= 1e-9 * sc_ and np.max(np.abs(Cw), initial=0.0) < 1e6:
                    dcases.append(f"(DSketch {len(dcases)}%nat {d1}%nat {d2}%nat {optnat(n)} {n_over}%nat {n_iter}%nat {qmat(M)} {qmat(drawn[0])} "
                                  f"[{'; '.join(qr_ents)}] {qmat(Cw)})")
                    dmeta.append(dict(meta_, call="randomized_svd(sketch hypotheses: qr_ok, spans, covers)"))
                    chk.cov["sketch_hypotheses_in_coq"] = chk.cov.get("sketch_hypotheses_in_coq", 0) + 1
                else:
                    chk.cov["sketch_witness_ill_conditioned"] = chk.cov.get("sketch_witness_ill_conditioned", 0) + 1
            else:
                chk.cov["sketch_rank_not_covered"] = chk.cov.get("sketch_rank_not_covered", 0) + 1
        except (ValueError, np.linalg.LinAlgError):
            pass
    complex_cases(chk, tier, rng, svdmod, dcases, dmeta)
    complex_cases_r7(chk, tier, rng, svdmod, dcases, dmeta, RecRS)
    nn_direct_cases(chk, tier, rng, svdmod, dcases, dmeta)
    reject_cases(chk, svdmod, dcases, dmeta)
    return dcases, dmeta


def _has_real_max(v, tol):
    """some entry of (numerically) largest magnitude is real non-negative.  With several entries of equal magnitude only the one the
    code picked (the first maximiser before the flip) is made real; after rounding any of them may be the floating-point argmax."""
    v = np.asarray(v)
    if v.size == 0:
        return True
    a = np.abs(v)
    top = a >= a.max() - tol * max(1.0, float(a.max()))
    return bool(np.any(top & (np.abs(v.imag) <= tol * max(1.0, float(a.max()))) & (v.real >= -tol)))


NNREQ = [(None, "NRnone"), (False, "NRfalse"), (True, "NRtrue"), ("nndsvd", "NRnndsvd"), ("nndsvda", "NRnndsvda"), ("foo", "NRother"), (0, "NRother"), ("", "NRother")]


def reject_cases(chk, svdmod, dcases, dmeta):
    """argument validation (Model/SvdValidate.v request_rejected): non-matrix inputs for the built-in methods, unknown method names,
    every kind of non_negative value; the implementation must raise exactly when the model says so (and by ValueError, not by a crash)"""
    shapes = [(), (3,), (2, 2, 2), (1, 2, 1, 2), (2, 3), (3, 2)]
    for shp in shapes:
        for method in ("truncated_svd", "symeig_svd", "randomized_svd", "callable", "no_such_svd"):
            if method == "callable" and len(shp) != 2:
                continue          # tensorly does not validate for a callable; what a user function does with a non-matrix is its own business
            for (nnv, nnlit) in NNREQ:
                if len(shp) != 2 and nnv not in (None, "foo"):
                    continue
                X = np.arange(1.0, 1.0 + int(np.prod(shp, dtype=int))).reshape(shp) if len(shp) else np.array(1.0)
                meth = numpy_thin_svd if method == "callable" else method
                kw = {"random_state": 3} if method == "randomized_svd" else {}
                out = C.call_impl(lambda: svdmod.svd_interface(X.copy(), method=meth, n_eigenvecs=1, non_negative=nnv, **kw))
                inp = {"shape": list(shp), "method": method, "non_negative": repr(nnv), "n_eigenvecs": 1}
                chk.count(key=("validation", shp, method, repr(nnv)), nontrivial=True)
                chk.hist("method", "validation")
                if out[0] == "crash" or (out[0] == "reject" and not str(out[1]).startswith("ValueError")):
                    chk.finding(EP, inp, f"invalid argument not rejected by ValueError: {out[0]} {str(out[1])[:100]}", "C05_validation")
                    continue
                dcases.append(f"(DReject {len(dcases)}%nat {C.nat_list(list(shp))} {METH_LIT.get(method, 'MUnknown')} {nnlit} {C.boolc(out[0] != 'ok')})")
                dmeta.append(dict(inp, call="svd_interface(validation)"))


def complex_cases(chk, tier, rng, svdmod, dcases=None, dmeta=None):
    """complex input (svd_flip as of ca31a67, symeig_svd as of d995974).  Predicates only (tests): the executable model's scalars are
    real (the complex-aware model Model/SvdConj.v equals it for real scalars, C05_flip_conj_real); the statements tested are
    C05_conj_flip_product_u / _v and C05_conj_flip_deciding (any commutative ring with conjugation)."""
    def cv():
        return complex(rng.randint(-8, 8) / 4.0, rng.randint(-8, 8) / 4.0)
    for _ in range(60 if tier == "quick" else 400):
        a, c, r, b = rng.randint(1, 4), rng.randint(1, 4), rng.randint(1, 4), rng.randint(1, 4)
        if rng.random() < 0.5:
            r = c
        U = np.array([[cv() for _ in range(c)] for _ in range(a)]); V = np.array([[cv() for _ in range(b)] for _ in range(r)])
        if rng.random() < 0.2:
            U[:, rng.randrange(c)] = 0.0
        ub = rng.random() < 0.5
        out = C.call_impl(lambda: svdmod.svd_flip(U.copy(), V.copy(), u_based_decision=ub))
        chk.count(key=("svd_flip_complex", U.shape, V.shape, ub, U.tobytes(), V.tobytes()), nontrivial=True)
        chk.hist("method", "svd_flip(complex)")
        inp = {"U": [[str(z) for z in row] for row in U], "V": [[str(z) for z in row] for row in V], "u_based_decision": ub}
        if out[0] != "ok":
            chk.finding("tensorly.tenalg.svd.svd_flip", inp, f"svd_flip raised on complex input: {out[1]}", "C05_flip_returns")
            continue
        U2, V2 = np.asarray(out[1][0]), np.asarray(out[1][1])
        msg = None
        if U2.shape != U.shape or V2.shape != V.shape:
            msg = "svd_flip changes shapes (complex input)"
        elif not np.allclose(np.abs(U2), np.abs(U) * (np.abs(U2) > 0), atol=1e-12) or not np.allclose(np.abs(V2), np.abs(V) * (np.abs(V2) > 0), atol=1e-12):
            msg = "svd_flip changes magnitudes (complex input)"
        else:
            vecs = [U2[:, j] for j in range(c)] if ub else [V2[i, :] for i in range(r)]
            if not all(_has_real_max(v, 1e-12) for v in vecs):
                msg = "a deciding entry is not real non-negative after svd_flip (complex input)"
            q = min(c, r)
            nz = all(np.any(U[:, j] != 0) for j in range(q)) if ub else all(np.any(V[i, :] != 0) for i in range(q))
            P0 = U[:, :q] @ V[:q, :]
            if msg is None and nz and np.max(np.abs(U2[:, :q] @ V2[:q, :] - P0), initial=0.0) > 1e-12 * max(1.0, float(np.max(np.abs(P0), initial=0.0))):
                msg = "svd_flip changes the product U V (complex input)"
        if msg:
            chk.finding("tensorly.tenalg.svd.svd_flip", inp, msg, "C05_flip_complex")
        if dcases is not None:
            if near_tie([U[:, j] for j in range(c)] if ub else [V[i, :] for i in range(r)]):
                chk.cov["complex_near_tie_skipped"] = chk.cov.get("complex_near_tie_skipped", 0) + 1
            else:
                dcases.append(f"(DFlipC {len(dcases)}%nat {cmat_lit(U)} {cmat_lit(V)} {C.boolc(ub)} {cmat_lit(U2)} {cmat_lit(V2)})")
                dmeta.append(dict(inp, call="svd_flip(complex)"))
    # svd_interface on well-conditioned complex matrices: Hermitian orthonormality, true singular values, error identity, sign convention
    n_if, tries = (30 if tier == "quick" else 172), 0
    # round 8: the first accepted requests of every run are symeig_svd on strictly tall and strictly wide complex matrices (both Gram
    # branches with their conjugate transposes are then exercised on every seed, not only when the random draw happens to produce them)
    forced = [("symeig_svd", True), ("symeig_svd", False)] * (3 if tier == "quick" else 6)
    while n_if > 0 and tries < 5000:
        tries += 1
        d1, d2 = rng.randint(1, 5), rng.randint(1, 5)
        if forced:
            lo_, hi_ = sorted(rng.sample(range(1, 6), 2))
            d1, d2 = (hi_, lo_) if forced[0][1] else (lo_, hi_)
        M = np.array([[cv() for _ in range(d2)] for _ in range(d1)])
        sig = np.linalg.svd(M, compute_uv=False)
        if sig.max() == 0 or sig.min() < 0.2 * sig.max() or (len(sig) > 1 and np.min(sig[:-1] - sig[1:]) < 0.05 * sig.max()):
            continue
        n_if -= 1
        method = forced.pop(0)[0] if forced else rng.choice(["truncated_svd", "symeig_svd", "randomized_svd"])
        n = rng.randint(1, min(d1, d2))
        ub = rng.random() < 0.5
        kw = {"random_state": rng.randrange(10 ** 6)} if method == "randomized_svd" else {}
        from tensorly.backend.numpy_backend import NumpyBackend
        etape = []

        def rec_eigh(a_, *args, **kw_):
            r_ = np.linalg.eigh(a_, *args, **kw_)
            etape.append((np.array(a_, copy=True), np.array(r_[0], copy=True), np.array(r_[1], copy=True)))
            return r_
        NumpyBackend.register_method("eigh", rec_eigh)
        try:
            out = C.call_impl(lambda: svdmod.svd_interface(M.copy(), method=method, n_eigenvecs=n, flip_sign=True, u_based_flip_sign=ub, **kw))
        finally:
            NumpyBackend.register_method("eigh", np.linalg.eigh)
        chk.count(key=("svd_interface_complex", method, M.shape, n, ub, M.tobytes()), nontrivial=M.size > 1)
        chk.hist("method", method + "(complex)")
        inp = {"matrix": [[str(z) for z in row] for row in M], "method": method, "n_eigenvecs": n, "flip_sign": True, "u_based_flip_sign": ub, "kwargs": kw}
        if out[0] != "ok":
            chk.finding(EP, inp, f"svd_interface raised on a well-conditioned complex matrix: {str(out[1])[:120]}", "C05_complex_returns")
            continue
        U, S, V = (np.asarray(x) for x in out[1])
        tol = 1e-6 if method == "symeig_svd" else 1e-9
        msg = None
        if U.shape != (d1, n) or S.shape != (n,) or V.shape != (n, d2):
            msg = f"shapes {U.shape},{S.shape},{V.shape}"
        elif not finite3((np.abs(U), np.abs(S), np.abs(V))):
            msg = "non-finite entries"
        elif np.max(np.abs(U.conj().T @ U - np.eye(n))) > tol or np.max(np.abs(V @ V.conj().T - np.eye(n))) > tol:
            msg = "factors are not orthonormal (Hermitian inner product)"
        elif np.max(np.abs(np.real(S) - sig[:n])) > tol * sig.max() or np.max(np.abs(np.imag(S))) > 0:
            msg = "S differs from the leading singular values"
        elif abs(float(np.sum(np.abs(M - (U * S) @ V) ** 2)) - float(np.sum(sig[n:] ** 2))) > tol * float(np.sum(sig ** 2)):
            msg = "error identity fails"
        else:
            vecs = [U[:, j] for j in range(n)] if ub else [V[i, :] for i in range(n)]
            if not all(_has_real_max(v, 1e-9) for v in vecs):
                msg = "a deciding entry is not real positive"
        if msg:
            chk.finding(EP, inp, msg + " (complex input)", "C05_complex")
        # the same request inside Coq: Gaussian-rational model (Model/SvdComplex.v), LAPACK's / eigh's answer taped
        # (a triple of undocumented shapes is already a finding above; it is not indexed further)
        if dcases is not None and method in ("truncated_svd", "symeig_svd") and finite3((np.abs(U), np.abs(S), np.abs(V))) \
                and U.shape == (d1, n) and S.shape == (n,) and V.shape == (n, d2):
            if method == "truncated_svd":
                a_, b_ = np.linalg.svd(M, full_matrices=True), np.linalg.svd(M, full_matrices=False)
                tape, pre = f"(CTsvd {ctriple_lit(a_)} {ctriple_lit(b_)})", (b_[0][:, :n], b_[2][:n, :])
            elif len(etape) == 1:
                Gin_, lam_, W_ = etape[0]
                tape = f"(CTeigh {cmat_lit(Gin_)} {cvec_lit(lam_)} {cmat_lit(W_)})"
                pre = None
            else:
                tape = None
            if tape is not None:
                # deciding vectors before the flip have the same magnitudes as after it
                if near_tie([U[:, j] for j in range(n)] if ub else [V[i, :] for i in range(n)], rel=1e-7):
                    chk.cov["complex_near_tie_skipped"] = chk.cov.get("complex_near_tie_skipped", 0) + 1
                else:
                    dcases.append(f"(DIfaceC {len(dcases)}%nat {d1}%nat {d2}%nat {METH_LIT[method]} {optnat(n)} true {C.boolc(ub)} "
                                  f"{cmat_lit(M)} {tape} (Ok {ctriple_lit((U, S, V))}))")
                    dmeta.append(dict(inp, call="svd_interface(complex)"))


def complex_cases_r7(chk, tier, rng, svdmod, dcases, dmeta, RecRS):
    """round 7: complex randomized_svd called directly (Gaussian draw, every tl.qr and tl.svd answer taped; the conjugate-aware model
    Model/SvdConj.v randomized_svd_conj at the Gaussian rationals does products, conjugate transposes, branch choice, power iterations,
    inner truncation and lifting) and complex svd_interface requests WITH A MASK (method truncated_svd, LAPACK's answers for the matrix of
    every back-end call taped by call order; the model does the imputation loop, the slicing and the conjugate-aware flip)."""
    from tensorly.backend.numpy_backend import NumpyBackend

    def cv():
        return complex(rng.randint(-8, 8) / 4.0, rng.randint(-8, 8) / 4.0)

    def well_conditioned():
        for _ in range(2000):
            d1, d2 = rng.randint(1, 5), rng.randint(1, 5)
            M = np.array([[cv() for _ in range(d2)] for _ in range(d1)])
            sig = np.linalg.svd(M, compute_uv=False)
            if sig.max() == 0 or sig.min() < 0.2 * sig.max() or (len(sig) > 1 and np.min(sig[:-1] - sig[1:]) < 0.05 * sig.max()):
                continue
            return d1, d2, M, sig
        return None
    def low_rank():
        # complex matrix of rank <= 2 with more rows / columns than its rank: the range finder's Q is then NOT square when
        # n_eigenvecs + n_oversamples is small, although the rank is covered - a wrong conjugate in the reduction / lifting is visible
        d1, d2 = rng.randint(3, 5), rng.randint(3, 5)
        rk = rng.randint(1, 2)
        A_ = np.array([[cv() for _ in range(rk)] for _ in range(d1)]); B_ = np.array([[cv() for _ in range(d2)] for _ in range(rk)])
        M_ = A_ @ B_
        return d1, d2, M_, np.linalg.svd(M_, compute_uv=False)
    for it_ in range(14 if tier == "quick" else 90):
        wc = low_rank() if it_ % 2 == 1 else well_conditioned()
        if wc is None:
            break
        d1, d2, M, sig = wc
        if sig.max() == 0:
            continue
        n = rng.choice([None] + list(range(1, max(d1, d2) + 2)))
        n_over, n_iter, seed = rng.choice([0, 1, 2, 5]), rng.choice([0, 1, 2]), rng.randrange(10 ** 6)
        if it_ % 2 == 1:
            n, n_over = rng.randint(1, 2), rng.choice([0, 1])
        qrs, svds = [], []

        def rec_qr(a, *args, **kw):
            r_ = np.linalg.qr(a, *args, **kw)
            qrs.append((np.array(a, dtype=complex, copy=True), np.array(r_[0], copy=True)))
            return r_

        def rec_svd(a, full_matrices=True, **kw):
            r_ = np.linalg.svd(a, full_matrices=full_matrices, **kw)
            svds.append((np.array(a, dtype=complex, copy=True), bool(full_matrices), tuple(np.array(x, copy=True) for x in r_)))
            return r_
        rs = RecRS(seed)
        NumpyBackend.register_method("qr", rec_qr)
        NumpyBackend.register_method("svd", rec_svd)
        try:
            out = C.call_impl(lambda: svdmod.randomized_svd(M.copy(), n_eigenvecs=n, n_oversamples=n_over, n_iter=n_iter, random_state=rs))
        finally:
            NumpyBackend.register_method("qr", np.linalg.qr)
            NumpyBackend.register_method("svd", np.linalg.svd)
        inp = {"call": "randomized_svd(complex)", "matrix": [[str(z) for z in row] for row in M], "n_eigenvecs": n, "n_oversamples": n_over,
               "n_iter": n_iter, "random_state": seed}
        chk.count(key=("randomized_svd_complex", M.shape, n, n_over, n_iter, M.tobytes()), nontrivial=M.size > 1)
        chk.hist("method", "randomized_svd(complex direct)")
        if out[0] == "crash" and out[1] == "timeout":
            continue
        drawn = getattr(rs, "drawn", [])
        if out[0] != "ok" or len(drawn) != 1 or not qrs or not svds:
            chk.finding("tensorly.tenalg.svd.randomized_svd", inp, f"randomized_svd failed on a well-conditioned complex matrix: {out[0]} {str(out[1])[:100]}", "C05_complex_returns")
            continue
        U, S, V = (np.asarray(x) for x in out[1])
        if not finite3((np.abs(U), np.abs(S), np.abs(V))):
            chk.finding("tensorly.tenalg.svd.randomized_svd", inp, "non-finite entries (complex input)", "C05_complex")
            continue
        # predicates (tests): Hermitian-orthonormal factors; exact SVD when the rank is covered
        k_ = max(d1, d2) if n is None else min(n, max(d1, d2))
        p_ = S.shape[0]
        msg = None
        try:
            if np.max(np.abs(U.conj().T @ U - np.eye(U.shape[1])), initial=0.0) > 1e-9 or np.max(np.abs(V @ V.conj().T - np.eye(V.shape[0])), initial=0.0) > 1e-9:
                msg = "factors are not orthonormal (Hermitian inner product)"
            elif min(k_ + n_over, max(d1, d2)) >= num_rank(sig):
                if np.max(np.abs(np.real(S) - sig[:p_]), initial=0.0) > 1e-8 * sig.max():
                    msg = "S differs from the leading singular values although the rank is covered"
                elif abs(float(np.sum(np.abs(M - (U[:, :p_] * S) @ V[:p_, :]) ** 2)) - float(np.sum(sig[p_:] ** 2))) > 1e-8 * float(np.sum(sig ** 2)):
                    msg = "error identity fails although the rank is covered"
        except (ValueError, IndexError) as e_:      # factors whose shapes do not fit together: a finding, not a harness error
            msg = f"factors of inconsistent shapes {U.shape}, {S.shape}, {V.shape} ({str(e_)[:80]})"
        if msg:
            chk.finding("tensorly.tenalg.svd.randomized_svd", inp, msg + " (complex input)", "C05_complex")
        try:
            sv_ents = []
            for (m_, full, ans) in svds:
                other = tuple(np.linalg.svd(m_, full_matrices=not full))
                a_, b_ = (ans, other) if full else (other, ans)
                sv_ents.append(f"({cmat_lit(m_)}, {ctriple_lit(a_)}, {ctriple_lit(b_)})")
            qr_ents = [f"({cmat_lit(m_)}, {cmat_lit(q_)})" for (m_, q_) in qrs]
            dcases.append(f"(DRandomC {len(dcases)}%nat {d1}%nat {d2}%nat {optnat(n)} {n_over}%nat {n_iter}%nat {cmat_lit(M)} {cmat_lit(drawn[0])} "
                          f"[{'; '.join(qr_ents)}] [{'; '.join(sv_ents)}] {ctriple_lit((U, S, V))})")
            dmeta.append(inp)
        except (ValueError, np.linalg.LinAlgError):
            continue
    # complex svd_interface with a mask
    for _ in range(10 if tier == "quick" else 70):
        wc = well_conditioned()
        if wc is None:
            break
        d1, d2, M, sig = wc
        n = rng.randint(1, max(d1, d2) + 1)
        iters = rng.choice([1, 1, 2])
        flip, ub = rng.random() < 0.8, rng.random() < 0.5
        mask = make_mask((d1, d2), rng)
        if mask is None:
            mask = np.ones((d1, d2))
        mask = np.asarray(mask, dtype=float)
        calls = []

        def rec_svd2(a, full_matrices=True, **kw):
            calls.append(np.array(a, dtype=complex, copy=True))
            return np.linalg.svd(a, full_matrices=full_matrices, **kw)
        NumpyBackend.register_method("svd", rec_svd2)
        try:
            out = C.call_impl(lambda: svdmod.svd_interface(M.copy(), method="truncated_svd", n_eigenvecs=n, flip_sign=flip, u_based_flip_sign=ub,
                                                           mask=mask.copy(), n_iter_mask_imputation=iters))
        finally:
            NumpyBackend.register_method("svd", np.linalg.svd)
        inp = {"call": "svd_interface(complex, mask)", "matrix": [[str(z) for z in row] for row in M], "method": "truncated_svd", "n_eigenvecs": n,
               "flip_sign": flip, "u_based_flip_sign": ub, "mask": mask.tolist(), "n_iter_mask_imputation": iters}
        chk.count(key=("svd_interface_complex_mask", M.shape, n, flip, ub, iters, M.tobytes(), mask.tobytes()), nontrivial=M.size > 1)
        chk.hist("method", "truncated_svd(complex, mask)")
        if out[0] == "crash" and out[1] == "timeout":
            continue
        if out[0] != "ok" or len(calls) != 1 + iters:
            chk.finding(EP, inp, f"svd_interface with a mask failed on a complex matrix / unexpected number of tl.svd calls ({len(calls)}): {out[0]} {str(out[1])[:100]}", "C05_complex_returns")
            continue
        U, S, V = (np.asarray(x) for x in out[1])
        if not finite3((np.abs(U), np.abs(S), np.abs(V))):
            chk.finding(EP, inp, "non-finite entries (complex input, mask)", "C05_complex")
            continue
        # predicate (test): the matrix last handed to LAPACK equals the input on the observed entries
        if np.max(np.abs((calls[-1] - M) * mask), initial=0.0) > 0:
            chk.finding(EP, inp, "imputation changed an observed entry (complex input)", "C05_complex")
        if flip and near_tie([U[:, j] for j in range(U.shape[1])] if ub else [V[i, :] for i in range(V.shape[0])], rel=1e-7):
            chk.cov["complex_near_tie_skipped"] = chk.cov.get("complex_near_tie_skipped", 0) + 1
            continue
        try:
            ents = [f"({cmat_lit(m_)}, {ctriple_lit(np.linalg.svd(m_, full_matrices=True))}, {ctriple_lit(np.linalg.svd(m_, full_matrices=False))})" for m_ in calls]
        except (ValueError, np.linalg.LinAlgError):
            continue
        dcases.append(f"(DIfaceCM {len(dcases)}%nat {d1}%nat {d2}%nat {optnat(n)} {C.boolc(flip)} {C.boolc(ub)} {cmat_lit(M)} {cmat_lit(mask)} {iters}%nat "
                      f"[{'; '.join(ents)}] (Ok {ctriple_lit((U, S, V))}))")
        dmeta.append(inp)


def nn_direct_cases(chk, tier, rng, svdmod, dcases, dmeta):
    """round 7: make_svd_non_negative called directly on hand-made factors with entries 0 / +-1 whose positive / negative parts have
    0, 1 or 4 entries and S in {1, 4, 16}: every norm and square root is exact, so EXACT TIES m_p == m_n (the `else` branch: negative
    parts), zero parts (`continue`) and unequal numbers of U columns / V rows are compared with the model without a conditioning skip"""
    def vec(n_):
        while True:
            v = [rng.choice([1.0, -1.0, 0.0]) for _ in range(n_)]
            if sum(1 for x in v if x > 0) in (0, 1, 4) and sum(1 for x in v if x < 0) in (0, 1, 4):
                return v
    for _ in range(40 if tier == "quick" else 300):
        a, b = rng.randint(2, 6), rng.randint(2, 6)
        c = rng.randint(1, 3)
        r = c if rng.random() < 0.7 else rng.randint(1, 3)
        U = np.array([vec(a) for _ in range(c)]).T.copy()
        V = np.array([vec(b) for _ in range(r)])
        if rng.random() < 0.5 and min(c, r) > 1:
            # force a tie in column 1: #pos(x) * #pos(y) == #neg(x) * #neg(y)
            x = [1.0, -1.0] + [0.0] * (a - 2); y = [-1.0, 1.0] + [0.0] * (b - 2)
            rng.shuffle(x); rng.shuffle(y)
            U[:, 1] = x; V[1, :] = y
        S = np.array([rng.choice([1.0, 4.0, 16.0]) for _ in range(max(c, r))])
        M = np.array([[rng.randint(-8, 8) / 4.0 for _ in range(b)] for _ in range(a)])
        nt = rng.choice(["nndsvd", "nndsvda", True])
        out = C.call_impl(lambda: svdmod.make_svd_non_negative(M.copy(), U.copy(), S.copy(), V.copy(), nt))
        inp = {"call": "make_svd_non_negative", "tensor": M, "U": U, "S": S, "V": V, "nntype": nt}
        chk.count(key=("make_svd_non_negative", U.shape, V.shape, str(nt), U.tobytes(), V.tobytes()), nontrivial=True)
        chk.hist("method", "make_svd_non_negative(direct)")
        if out[0] != "ok":
            chk.finding("tensorly.tenalg.svd.make_svd_non_negative", inp, f"make_svd_non_negative raised: {str(out[1])[:120]}", "C05_nn_returns")
            continue
        W, H = np.asarray(out[1][0]), np.asarray(out[1][1])
        if W.shape != U.shape or H.shape != V.shape or not (np.all(np.isfinite(W)) and np.all(np.isfinite(H))) or np.any(W < 0) or np.any(H < 0):
            chk.finding("tensorly.tenalg.svd.make_svd_non_negative", inp, "factors are not finite, non-negative and of the shapes of U, V", "C05_nn_direct")
            continue
        ty = "NNDSVD" if nt == "nndsvd" else "NNDSVDA"
        dcases.append(f"(DNN {len(dcases)}%nat {qmat(M)} {qmat(U)} {qvec(S)} {qmat(V)} {ty} {qmat(W)} {qmat(H)})")
        dmeta.append(inp)


# ----------------------------------------------------------------------------- replay
def cfg_from_inputs(inp):
    def arr(x):
        return None if x is None else (C.from_jsonable_array(x) if isinstance(x, dict) else np.asarray(x, dtype=float))
    return dict(matrix=arr(inp["matrix"]), kind=inp.get("kind", "replay"), method=inp["method"], n=inp.get("n_eigenvecs"),
                flip=bool(inp.get("flip_sign", True)), ub=bool(inp.get("u_based_flip_sign", True)), nn=inp.get("non_negative"),
                mask=arr(inp.get("mask")), iters=int(inp.get("n_iter_mask_imputation", 0) or 0), kwargs=dict(inp.get("kwargs") or {}))


def replay(payload):
    if payload.get("kind") != "failing-input":
        print("replay file names a broken theorem/correspondence, not an input:", payload.get("theorem_or_correspondence"))
        return 1
    ep = payload["entry_point"]
    inp = payload["inputs"]
    cfg = None
    if ep == EP:
        try:
            cfg = cfg_from_inputs(inp)        # validation / complex findings carry no real matrix: they replay through the direct streams
            if cfg["matrix"] is None or cfg["matrix"].dtype.kind not in "fiu":
                cfg = None
        except Exception:  # noqa
            cfg = None
    if cfg is not None:
        out, tp, M_last, bad = evaluate(cfg)
        names = [p for p, _ in bad]
        print("replay:", cfg["method"], cfg["matrix"].shape, "n_eigenvecs=", cfg["n"], "->", bad or "holds")
        return 1 if payload.get("predicate") in names or (bad and payload.get("predicate") not in names) else 0
    print("replay of direct svd_flip / symeig_svd findings: re-running the direct streams")
    chk = C.Check("C05", "quick", payload.get("seed", 0))
    direct_cases(chk, "thorough", random.Random(payload.get("seed", 0)))
    return 1 if chk.findings else 0
