"""C05, round 8: SEMANTIC FALLBACKS of the per-run ast ties (harness/props/C05.py `ties`).

The ast ties fail closed: a source the translator no longer understands, or whose generated goal no longer proves, is a
broken tie.  A harmless restructuring (a dispatch table instead of an if-chain, a helper variable, `bool(...)` around a
comparison, two successive slices) would therefore be reported although the decision logic is unchanged.  Before a tie
is declared broken, the decisions of the CURRENT code are OBSERVED by executing it on a finite box of requests with
recording stubs installed through the public extension points (Backend.register_method, module attributes, a callable
method), and the observations are compared INSIDE COQ (vm_compute) with the model's decision functions
(Proofs/SvdDecisions*.v: svd_checks, dec_full, dec_trunc_bounds, dec_symeig_tall, dec_symeig_bounds,
dec_rand_transposed, dispatch, interface_trace, dec_mask_st).  Equal on the whole box -> the tie is reported as
"restructured source; equal on the finite box" in the evidence (not a violation); different anywhere -> broken tie.

The value-level ties (svd_flip padding and roles, make_svd_non_negative, randomized_range_finder) fall back on the direct
differential cases of the same run (whole-function comparison with the model in Coq: DFlip / DFlipC, DNN,
DRandom / DSketch / DRandomC): see VALUE_LEVEL and resolve_value_level.
Nothing here runs while the primary ties prove (the normal case on the unchanged tree)."""
import importlib
import itertools
import numpy as np

HEADER = """From Coq Require Import List Arith Bool. Import ListNotations.
From TLV Require Import Base.Ops Base.Tensor Model.Svd Model.SvdConj Proofs.SvdDecisions Proofs.SvdDecisions2.
Definition beq (a b : bool) : bool := Bool.eqb a b.
"""

# tie name -> labels (dmeta["call"]) of the direct differential cases that exercise the same function
VALUE_LEVEL = {
    "svd_flip": ("svd_flip", "svd_flip(complex)"),
    "svd_flip_roles": ("svd_flip", "svd_flip(complex)"),
    "make_svd_non_negative": ("make_svd_non_negative",),
    "randomized_range_finder": ("randomized_svd", "randomized_svd(complex)"),
}
MIN_VALUE_CASES = 20

DIMS = [1, 2, 3, 4]
REQS = [None, 0, 1, 2, 3, 4, 5, 6]


def _opt(n):
    return "None" if n is None else f"(Some {n})"


def _b(x):
    return "true" if x else "false"


def _mat(d1, d2, seed=0):
    """a fixed well-conditioned non-symmetric matrix with distinct entries"""
    rs = np.random.RandomState(1000 * d1 + 10 * d2 + seed)
    return rs.uniform(-1.0, 1.0, size=(d1, d2)) + np.eye(d1, d2) * 2.0


_MISSING = object()


class _Patch:
    """install recording stubs (module attributes of tensorly.tenalg.svd, backend methods); always restored"""
    def __init__(self):
        self.svdmod = importlib.import_module("tensorly.tenalg.svd")
        from tensorly.backend.numpy_backend import NumpyBackend
        self.NB = NumpyBackend
        self.saved_attr, self.saved_meth = {}, {}

    def attr(self, name, fn):
        self.saved_attr.setdefault(name, getattr(self.svdmod, name))
        setattr(self.svdmod, name, fn)

    def method(self, name, wrap):
        """wrap(original function) -> recording function"""
        if name not in self.saved_meth:
            self.saved_meth[name] = self.NB.__dict__.get(name, _MISSING)
        self.NB.register_method(name, wrap(getattr(self.NB, name)))

    def __enter__(self):
        return self

    def __exit__(self, *a):
        for k, v in self.saved_attr.items():
            setattr(self.svdmod, k, v)
        for k, v in self.saved_meth.items():
            if v is _MISSING:
                delattr(self.NB, k)
            else:
                setattr(self.NB, k, v)
        return False


def _quiet(f):
    import warnings
    with warnings.catch_warnings():
        warnings.simplefilter("ignore")
        try:
            return ("ok", f())
        except ValueError as e:
            return ("reject", str(e))
        except Exception as e:  # noqa
            return ("crash", f"{type(e).__name__}: {e}")


# ----------------------------------------------------------------------------- decision-level boxes
def box_svd_checks():
    with _Patch() as p:
        ents = []
        for d1, d2, n in itertools.product(DIMS, DIMS, REQS + [7]):
            st, r = _quiet(lambda: p.svdmod.svd_checks(np.zeros((d1, d2)), n))
            if st != "ok":
                return None, f"svd_checks({d1}x{d2}, {n}) -> {st} {r}"
            k, mn, mx = (int(x) for x in r)
            ents.append(f"({d1}, {d2}, {_opt(n)}, ({k}, {mn}, {mx}))")
    return (HEADER + "Definition ok (e : nat * nat * option nat * (nat * nat * nat)) : bool :=\n"
            "  let '(d1, d2, n, (k, mn, mx)) := e in let '(k', mn', mx') := svd_checks d1 d2 n in (k =? k') && (mn =? mn') && (mx =? mx').\n"
            "Goal forallb ok [" + "; ".join(ents) + "] = true.\nProof. vm_compute. reflexivity. Qed.\n"), len(ents)


def box_truncated():
    """full_matrices flag handed to tl.svd (immaterial, hence not compared, when the clamped request equals min(shape): the thin and the
    full answer then have the same leading min(shape) vectors) and the shapes of the returned triple"""
    ents = []
    with _Patch() as p:
        seen = []

        def rec_svd(orig):
            def f(a, full_matrices=True, **kw):
                seen.append(bool(full_matrices))
                return orig(a, full_matrices=full_matrices, **kw)
            return f
        p.method("svd", rec_svd)
        for d1, d2, n in itertools.product(DIMS, DIMS, REQS):
            del seen[:]
            st, r = _quiet(lambda: p.svdmod.truncated_svd(_mat(d1, d2), n_eigenvecs=n))
            if st != "ok" or len(set(seen)) != 1:
                return None, f"truncated_svd({d1}x{d2}, {n}) -> {st}, full_matrices seen {seen}"
            U, S, V = (np.asarray(x) for x in r)
            if U.ndim != 2 or V.ndim != 2 or S.ndim != 1 or U.shape[0] != d1 or V.shape[1] != d2:
                return None, f"truncated_svd({d1}x{d2}, {n}) output shapes {U.shape} {S.shape} {V.shape}"
            ents.append(f"({d1}, {d2}, {_opt(n)}, {_b(seen[0])}, ({U.shape[1]}, {S.shape[0]}, {V.shape[0]}))")
    return (HEADER + "Definition ok (e : nat * nat * option nat * bool * (nat * nat * nat)) : bool :=\n"
            "  let '(d1, d2, n, full, (cu, ls, rv)) := e in let '(k, mn, _) := svd_checks d1 d2 n in let '(b1, b2, b3) := dec_trunc_bounds k in\n"
            "  (beq (dec_full k mn) full || (k =? mn)) && (Nat.min b1 (if full then d1 else mn) =? cu) && (Nat.min b2 mn =? ls) && (Nat.min b3 (if full then d2 else mn) =? rv).\n"
            "Goal forallb ok [" + "; ".join(ents) + "] = true.\nProof. vm_compute. reflexivity. Qed.\n"), len(ents)


def box_symeig():
    ents = []
    with _Patch() as p:
        seen = []

        def rec_eigh(orig):
            def f(a, *args, **kw):
                seen.append(np.array(a, copy=True))
                return orig(a, *args, **kw)
            return f
        p.method("eigh", rec_eigh)
        for d1, d2, n in itertools.product(DIMS, DIMS, REQS):
            del seen[:]
            M = _mat(d1, d2)
            st, r = _quiet(lambda: p.svdmod.symeig_svd(M.copy(), n_eigenvecs=n))
            if st != "ok" or len(seen) != 1:
                return None, f"symeig_svd({d1}x{d2}, {n}) -> {st}, {len(seen)} eigh calls"
            G = seen[0]
            tall = G.shape == (d1, d1) and np.allclose(G, M @ M.T)
            wide = G.shape == (d2, d2) and np.allclose(G, M.T @ M)
            if tall and wide and d1 == d2 == 1:
                tall = False                # a 1 x 1 matrix: both Gram matrices coincide
            elif tall == wide:
                return None, f"symeig_svd({d1}x{d2}, {n}): the matrix handed to eigh is neither M M^T nor M^T M (or both)"
            U, S, V = (np.asarray(x) for x in r)
            ents.append(f"({d1}, {d2}, {_opt(n)}, {_b(tall)}, ({U.shape[1]}, {S.shape[0]}, {V.shape[0]}))")
    return (HEADER + "Definition ok (e : nat * nat * option nat * bool * (nat * nat * nat)) : bool :=\n"
            "  let '(d1, d2, n, tall, (cu, ls, rv)) := e in let '(k, _, _) := svd_checks d1 d2 n in let '(b1, b2, b3) := dec_symeig_bounds d1 d2 k in\n"
            "  let c := if dec_symeig_tall d1 d2 then d1 else d2 in\n"
            "  beq (dec_symeig_tall d1 d2) tall && (Nat.min b1 c =? cu) && (Nat.min b2 c =? ls) && (Nat.min b3 c =? rv).\n"
            "Goal forallb ok [" + "; ".join(ents) + "] = true.\nProof. vm_compute. reflexivity. Qed.\n"), len(ents)


def box_randomized():
    """which matrix the range finder is handed (the matrix or its transpose) as a function of shape, request and n_oversamples"""
    ents = []
    with _Patch() as p:
        orig = p.svdmod.randomized_range_finder
        seen = []

        def rec_rf(A, *args, **kw):
            seen.append(np.array(A, copy=True))
            return orig(A, *args, **kw)
        p.attr("randomized_range_finder", rec_rf)
        for d1, d2, n, n_over in itertools.product(DIMS, DIMS, REQS, [0, 1, 2, 5]):
            del seen[:]
            M = _mat(d1, d2)
            _quiet(lambda: p.svdmod.randomized_svd(M.copy(), n_eigenvecs=n, n_oversamples=n_over, n_iter=1, random_state=0))
            if len(seen) != 1:
                return None, f"randomized_svd({d1}x{d2}, {n}, n_oversamples={n_over}): {len(seen)} range-finder calls"
            A = seen[0]
            direct = A.shape == M.shape and np.array_equal(A, M)
            transposed = A.shape == M.T.shape and np.array_equal(A, M.T)
            if d1 == d2 == 1:
                transposed = False          # a 1 x 1 matrix equals its transpose: both branches coincide
            elif direct == transposed:
                return None, f"randomized_svd({d1}x{d2}, {n}, {n_over}): the range finder saw neither the matrix nor its transpose"
            ents.append(f"({d1}, {d2}, {_opt(n)}, {n_over}, {_b(transposed)})")
    return (HEADER + "Definition ok (e : nat * nat * option nat * nat * bool) : bool :=\n"
            "  let '(d1, d2, n, n_over, tr) := e in let '(k, mn, mx) := svd_checks d1 d2 n in\n"
            "  beq (dec_rand_transposed d1 d2 k mn (dec_rand_ndims k n_over mx)) tr.\n"
            "Goal forallb ok [" + "; ".join(ents) + "] = true.\nProof. vm_compute. reflexivity. Qed.\n"), len(ents)


def _stub_backends(p, log):
    def mk(label):
        def f(m, n_eigenvecs=None, **kw):
            log.append(label)
            d1, d2 = np.shape(m)
            k = min(d1, d2) if n_eigenvecs is None else min(n_eigenvecs, min(d1, d2))
            return np.eye(d1, k), np.ones(k), np.eye(k, d2)
        return f
    for name in ("truncated_svd", "symeig_svd", "randomized_svd"):
        p.attr(name, mk(name))
    return mk("callable")


def box_dispatch():
    FN = {"truncated_svd": "(Some FTruncated)", "symeig_svd": "(Some FSymeig)", "randomized_svd": "(Some FRandomized)", "callable": "(Some FUser)"}
    ents = []
    with _Patch() as p:
        log = []
        user = _stub_backends(p, log)
        reqs = [("MTruncated", "truncated_svd"), ("MSymeig", "symeig_svd"), ("MRandomized", "randomized_svd"), ("MCallable", user),
                ("MUnknown", "foo"), ("MUnknown", ""), ("MUnknown", "Truncated_SVD"), ("MUnknown", None), ("MUnknown", 3), ("MUnknown", "svd")]
        for lit, meth in reqs:
            del log[:]
            st, r = _quiet(lambda: p.svdmod.svd_interface(_mat(3, 2), method=meth, n_eigenvecs=1, flip_sign=False))
            if st == "ok" and len(log) == 1:
                obs = FN[log[0]]
            elif st == "reject" and not log:
                obs = "None"
            else:
                return None, f"svd_interface(method={meth!r}) -> {st} after back-end calls {log}: {str(r)[:80]}"
            ents.append(f"({lit}, {obs})")
    return (HEADER + "Definition feq (a b : option fname) : bool := match a, b with None, None => true | Some FTruncated, Some FTruncated | Some FSymeig, Some FSymeig\n"
            "  | Some FRandomized, Some FRandomized | Some FUser, Some FUser => true | _, _ => false end.\n"
            "Goal forallb (fun e : method * option fname => feq (dispatch (fst e)) (snd e)) [" + "; ".join(ents) + "] = true.\nProof. vm_compute. reflexivity. Qed.\n"), len(ents)


def box_steps():
    """order and guards of the post-processing steps: back-end call, imputation loop, sign flip, non-negative step"""
    # 0 and "" are neither None nor False: the code enters the non_negative step (which then rejects them), like any other string
    NN = [(None, "NNnone"), (False, "NNfalse"), (True, "NNtrue"), ("nndsvd", "NNstr"), ("nndsvda", "NNstr"), (0, "NNstr"), ("", "NNstr")]
    ents = []
    with _Patch() as p:
        log = []
        user = _stub_backends(p, log)
        p.attr("svd_flip", lambda U, V, *a, **kw: (log.append("flip"), (U, V))[1])
        p.attr("make_svd_non_negative", lambda t, U, S, V, *a, **kw: (log.append("nn"), (U, V))[1])
        iters = 2
        for masked, n, fl, (nnv, nnl) in itertools.product([False, True], [None, 1], [False, True], NN):
            del log[:]
            kw = dict(method=user, n_eigenvecs=n, flip_sign=fl, non_negative=nnv)
            if masked:
                kw.update(mask=np.array([[1, 0], [1, 1], [0, 1]]), n_iter_mask_imputation=iters)
            st, r = _quiet(lambda: p.svdmod.svd_interface(_mat(3, 2), **kw))
            if st != "ok" or not log or log[0] != "callable":
                return None, f"svd_interface(mask={masked}, n={n}, flip={fl}, non_negative={nnv!r}) -> {st}, steps {log}"
            steps, i = ["StepCall"], 1
            extra = 0
            while i < len(log) and log[i] == "callable":
                extra += 1; i += 1
            if extra == iters:
                steps.append("StepMaskLoop")
            elif extra != 0:
                return None, f"imputation loop called the back end {extra} times for n_iter_mask_imputation={iters}"
            for x in log[i:]:
                if x == "callable":
                    return None, f"back end called after post-processing started: {log}"
                steps.append("StepFlip" if x == "flip" else "StepNN")
            ents.append(f"({_b(masked)}, {_b(n is not None)}, {_b(fl)}, {nnl}, [{'; '.join(steps)}])")
    return (HEADER + "Definition seq_ (a b : istep) : bool := match a, b with StepCall, StepCall | StepMaskLoop, StepMaskLoop | StepFlip, StepFlip | StepNN, StepNN => true | _, _ => false end.\n"
            "Fixpoint leq (a b : list istep) : bool := match a, b with [], [] => true | x :: a', y :: b' => seq_ x y && leq a' b' | _, _ => false end.\n"
            "Goal forallb (fun e : bool * bool * bool * nnarg * list istep => let '(mg, ng, fl, a, t) := e in leq (interface_trace mg ng fl (nn_truthy a)) t) ["
            + "; ".join(ents) + "] = true.\nProof. vm_compute. reflexivity. Qed.\n"), len(ents)


def box_mask_loop():
    """imputation loop: number of back-end calls, shape of St = eye(r, c), number of diagonal entries written per pass"""
    ents = []
    with _Patch() as p:
        eyes, upd, calls = [], [0], [0]

        def rec_eye(orig):
            def f(*a, **kw):
                eyes.append(tuple(int(x) for x in a[:2]))
                return orig(*a, **kw)
            return f

        def rec_upd(orig):
            def f(*a, **kw):
                upd[0] += 1
                return orig(*a, **kw)
            return f
        p.method("eye", rec_eye)
        p.method("index_update", rec_upd)
        for iters, cu, rv, d1, d2 in itertools.product([0, 1, 3], [1, 2, 3], [1, 2, 3], [2, 3], [2, 3]):
            for ls in sorted({min(cu, rv), max(0, min(cu, rv) - 1)}):
                def user(m, n_eigenvecs=None, **kw):
                    calls[0] += 1
                    return np.ones((d1, cu)), np.arange(1.0, ls + 1.0), np.ones((rv, d2))
                del eyes[:]; upd[0] = 0; calls[0] = 0
                st, r = _quiet(lambda: p.svdmod.svd_interface(_mat(d1, d2), method=user, n_eigenvecs=1, flip_sign=False,
                                                              mask=np.ones((d1, d2)), n_iter_mask_imputation=iters))
                if st != "ok" or len(eyes) != iters or len(set(eyes)) > 1 or (iters and upd[0] % iters) or (not iters and upd[0]):
                    return None, f"mask loop (iters={iters}, U cols {cu}, V rows {rv}, len S {ls}) -> {st} {str(r)[:80]}, eye calls {eyes}, index updates {upd[0]}"
                if iters == 0:
                    if calls[0] != 1:
                        return None, f"mask loop with n_iter_mask_imputation=0 called the back end {calls[0]} times"
                    continue
                r_, c_ = eyes[0]
                ents.append(f"({iters}, {cu}, {rv}, {ls}, ({calls[0] - 1}, {r_}, {c_}, {upd[0] // iters}))")
    return (HEADER + "Definition ok (e : nat * nat * nat * nat * (nat * nat * nat * nat)) : bool :=\n"
            "  let '(iters, cu, rv, ls, (i', r', c', l')) := e in let '(i, r, c, l) := dec_mask_st iters cu rv ls in (i =? i') && (r =? r') && (c =? c') && (l =? l').\n"
            "Goal forallb ok [" + "; ".join(ents) + "] = true.\nProof. vm_compute. reflexivity. Qed.\n"), len(ents)


BOXES = {
    "svd_checks": box_svd_checks,
    "truncated_svd": box_truncated,
    "symeig_svd": box_symeig,
    "randomized_svd": box_randomized,
    "svd_interface": box_dispatch,
    "svd_interface_steps": box_steps,
    "svd_interface_mask_loop": box_mask_loop,
}


def box_for(name):
    """-> (Coq text or None, number of observations or the reason why the code could not be observed)"""
    fn = BOXES.get(name)
    if fn is None:
        return None, "no decision-level box"
    try:
        return fn()
    except Exception as e:  # noqa: an observation that cannot be made is not a verdict in favour of the code
        return None, f"observation failed: {type(e).__name__}: {e}"


def resolve_value_level(pending, dmeta, dfail, evaluated):
    """pending: {tie name: reason}; -> (resolved {name: n cases}, unresolved {name: reason})"""
    ok, bad = {}, {}
    for name, why in pending.items():
        labels = VALUE_LEVEL[name]
        ids = [i for i, m in enumerate(dmeta) if isinstance(m, dict) and m.get("call") in labels]
        failing = [i for i in ids if i in dfail]
        if not evaluated:
            bad[name] = why + " | fallback: the direct differential shards were not evaluated"
        elif failing:
            bad[name] = why + f" | fallback: {len(failing)} of {len(ids)} direct differential cases disagree with the model"
        elif len(ids) < MIN_VALUE_CASES:
            bad[name] = why + f" | fallback: only {len(ids)} direct differential cases"
        else:
            ok[name] = len(ids)
    return ok, bad
