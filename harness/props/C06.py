"""C06 -- reported reconstruction errors are finite and equal the true error of the iterate they belong to.

Correspondence (Corr/C06.v, Model/Errors.v), all numeric comparisons on SQUARED relative errors, |a-b| <= 1e-9 (+1e-9 rel):
  * prefix runs n_iter_max = 1..K with a fixed seed / explicit init and the convergence test neutralised: the model (exact Q)
    rebuilds the reconstruction from the RETURNED decomposition (CP, CP+sparse, CP under a mask, Tucker; dense tensor handed
    over by the implementation's *_to_tensor for PARAFAC2 and tensor ring) and compares with (last reported error)^2;
  * callback runs: every (decomposition, error) pair handed to a callback is checked the same way (all iterations of one run);
  * direct calls of error_calc with the implementation's own MTTKRP as data (KErrCalc) and with the model's MTTKRP (KCPfast,
    which also re-checks shortcut == residual exactly in Q on that instance);
  * PARAFAC2: the model evaluates the slice-wise shortcut (both forms of B_i^T X_i) AND the residual from scratch from the returned
    (weights, (A, B, C), projections) -- they must coincide exactly -- and compares with (reported)^2; direct calls of
    _parafac2_reconstruction_error on random decompositions with slices of different heights;
  * tensor ring: the model rebuilds the ring from the cores handed to the callback, evaluates the residual of the last least-squares
    sub-problem (what the code reports) AND the residual from scratch -- they must coincide exactly -- and compares with (reported)^2;
  * HOOI: (reported)^2 against the model of the shortcut |norm^2 - norm(core)^2| (KHooi) and against the residual from scratch (KTucker);
  * convergence-stopped runs (tol > 0): the last reported value against the returned decomposition (break paths);
  * skeleton traces: number of reports / callbacks / block updates / break for chosen decision sequences;
  * direct calls of cp_normalize / tucker_normalize against the executed models (answer tape of column norms, validated by squaring);
  * static tie (C06_ast.py): error expressions / iprod pairing / line-search test regenerated from the Python ast, identities re-proved by coqc.
Predicates (Python, float64, independent of Coq): finiteness, callback values == returned list, recomputed error, the list of the
longest prefix run restricted to k entries equals the list of the k-run (every list entry belongs to the iterate of its iteration)."""
import itertools, random, math, io, contextlib, json, os
import numpy as np
from harness import common as C

HEADER = """From Coq Require Import List ZArith QArith Bool. Import ListNotations.
From TLV Require Import Base.Tensor Corr.C06.
Close Scope Q_scope."""

ATOL = 1e-9


# ----------------------------------------------------------------------------- literals
class Lit:
    """printer of numeric literals: 'd' = dyadic pairs (mantissa, exponent) [default execution], 'q' = Q (cross-check sample)"""
    def __init__(self, mode):
        self.mode = mode

    def num(self, x):
        x = float(x)
        if self.mode == "q":
            return C.q(x)
        n, d = x.as_integer_ratio()
        return f"(({n})%Z, ({d.bit_length() - 1})%Z)"

    def nums(self, xs):
        xs = list(xs)
        return "[" + "; ".join(self.num(x) for x in xs) + "]" if xs else "nil"

    def t(self, a):
        a = np.asarray(a, dtype=np.float64)
        return f"(mk {C.nat_list(a.shape)} {self.nums(a.ravel())})"

    def opt_t(self, a):
        return "None" if a is None else f"(Some {self.t(a)})"

    def opt_w(self, w):
        return "None" if w is None else f"(Some {self.nums(np.asarray(w).ravel())})"

    def ts(self, fs):
        return "[" + "; ".join(self.t(f) for f in fs) + "]"


LD, LQ = Lit("d"), Lit("q")


def optnat(x):
    return "None" if x is None else f"(Some {C.nat(x)})"


# ----------------------------------------------------------------------------- reference arithmetic (float64, own code)
def cp_dense(w, fs):
    R = fs[0].shape[1]
    w = np.ones(R) if w is None else np.asarray(w, dtype=float)
    letters = "abcdefgh"[:len(fs)]
    return np.einsum(",".join(l + "z" for l in letters) + ",z->" + letters, *[np.asarray(f, dtype=float) for f in fs], w)


def tucker_dense(G, fs):
    out = np.asarray(G, dtype=float)
    for k, f in enumerate(fs):
        out = np.moveaxis(np.tensordot(np.asarray(f, dtype=float), out, axes=(1, k)), 0, k)
    return out


def tr_dense(cores):
    """tensor ring -> dense, own arithmetic: entry = trace(G_0[:, i_0, :] ... G_{N-1}[:, i_{N-1}, :])"""
    out = cores[0]                                    # (r0, n0, r1)
    for G in cores[1:]:
        out = np.tensordot(out, G, axes=([-1], [0]))  # (r0, n0, ..., nk, r_{k+1})
    return np.trace(out, axis1=0, axis2=out.ndim - 1)


def rel2(X, L, S=None, mask=None):
    """squared relative error exactly as the property reads it (error_calc's definition under a mask)"""
    X = np.asarray(X, dtype=float)
    Xp = X if mask is None else X * mask + L * (1 - mask)
    res = Xp - L - (0.0 if S is None else S)
    return float(np.sum(res * res) / np.sum(Xp * Xp))


# ----------------------------------------------------------------------------- data
SHAPES_Q = {2: [(4, 5), (6, 4)], 3: [(3, 4, 3), (4, 3, 5)], 4: [(2, 3, 2, 3)]}
SHAPES_T = {2: [(4, 5), (6, 4), (3, 7), (5, 5)], 3: [(3, 4, 3), (4, 3, 5), (2, 5, 4), (3, 3, 3)], 4: [(2, 3, 2, 3), (3, 2, 2, 4), (2, 2, 3, 3)]}
KINDS = ["generic", "lowrank", "nonneg", "integer"]


def make_tensor(kind, shape, rank, rs):
    if kind == "generic":
        return rs.standard_normal(shape)
    if kind == "lowrank":
        fs = [rs.uniform(0.3, 1.5, (d, rank)) * rs.choice([-1.0, 1.0], (d, rank)) for d in shape]
        return cp_dense(None, fs)
    if kind == "nn_lowrank":
        fs = [rs.uniform(0.2, 1.5, (d, rank)) for d in shape]
        return cp_dense(None, fs)
    if kind == "nonneg":
        return rs.uniform(0.1, 1.0, shape)
    if kind == "integer":
        return rs.randint(-4, 5, shape).astype(np.float64)
    if kind == "nn_integer":
        return rs.randint(0, 6, shape).astype(np.float64) + 1.0
    raise KeyError(kind)


def rand_cp_init(shape, rank, rs, nonneg=False, weights=False):
    import tensorly as tl
    fs = [rs.uniform(0.2, 1.2, (d, rank)) if nonneg else rs.standard_normal((d, rank)) for d in shape]
    w = rs.uniform(0.5, 2.0, rank) if weights else np.ones(rank)
    return tl.cp_tensor.CPTensor((w, fs))


# ----------------------------------------------------------------------------- algorithm table
class Rec:
    """what one run of an algorithm produced: the returned iterate, the error list, the callback log"""
    def __init__(self):
        self.final = None      # dict(kind=..., arrays) describing the returned decomposition
        self.errors = None     # list of floats (None if the entry point returns no list)
        self.cb = []           # list of (iterate dict, error or None)
        self.squared_unnormalised = False
        self.ls = []           # line-search decisions (True = accepted) where they can be observed


def _cp_it(cp, S=None, mask=None):
    w, fs = cp
    return dict(kind="cp", w=None if w is None else np.array(w, dtype=float), fs=[np.array(f, dtype=float) for f in fs],
                S=None if S is None else np.array(S, dtype=float), mask=mask)


def ls_decisions(text):
    """line-search decisions as printed by verbose mode (the only outside view of them)"""
    out = []
    for ln in text.splitlines():
        if ln.startswith("Accepted line search jump"):
            out.append(True)
        elif ln.startswith("Line search failed"):
            out.append(False)
    return out


def run_parafac(X, rank, k, seed, opts):
    from tensorly.decomposition import parafac
    o = dict(opts)
    rec = Rec()
    mask = o.get("mask")
    want_cb = o.pop("_cb", False)
    stop_at = o.pop("_stop_at", None)
    init = o.pop("_init", None)
    rs = np.random.RandomState(seed)
    if init is not None:
        o["init"] = rand_cp_init(X.shape, rank, rs, weights=(init == "weighted"))
    count = [0]

    def cb(dec, err=None):
        if isinstance(dec, tuple) and not hasattr(dec, "factors"):
            it = _cp_it(dec[0], dec[1], mask)
        else:
            it = _cp_it(dec, None, mask)
        rec.cb.append((it, None if err is None else float(err)))
        j = count[0]
        count[0] += 1
        return stop_at is not None and j - 1 == stop_at   # call 0 is the one before the loop

    tol = o.pop("_tol", 0)
    buf = io.StringIO()
    with contextlib.redirect_stdout(buf):
        out, errs = parafac(np.array(X), rank, n_iter_max=k, tol=tol, return_errors=True, random_state=seed,
                            callback=cb if want_cb else None, verbose=1 if o.get("linesearch") else 0, **o)
    rec.ls = ls_decisions(buf.getvalue())
    if o.get("sparsity"):
        rec.final = _cp_it(out[0], out[1], mask)
    else:
        rec.final = _cp_it(out, None, mask)
    rec.errors = [float(e) for e in errs]
    return rec


def run_nn_parafac(X, rank, k, seed, opts):
    from tensorly.decomposition import non_negative_parafac
    o = dict(opts)
    rec = Rec()
    init = o.pop("_init", None)
    if init is not None:
        o["init"] = rand_cp_init(X.shape, rank, np.random.RandomState(seed), nonneg=True)
    out, errs = non_negative_parafac(np.array(X), rank, n_iter_max=k, tol=o.pop("_tol", 1e-300), return_errors=True, random_state=seed, **o)
    rec.final = _cp_it(out, None, o.get("mask"))
    rec.errors = [float(e) for e in errs]
    return rec


def run_hals(X, rank, k, seed, opts):
    from tensorly.decomposition import non_negative_parafac_hals
    o = dict(opts)
    rec = Rec()
    init = o.pop("_init", None)
    if init is not None:
        o["init"] = rand_cp_init(X.shape, rank, np.random.RandomState(seed), nonneg=True, weights=(init == "weighted"))
    out, errs = non_negative_parafac_hals(np.array(X), rank, n_iter_max=k, tol=o.pop("_tol", 1e-300), return_errors=True, random_state=seed, **o)
    rec.final = _cp_it(out)
    rec.errors = [float(e) for e in errs]
    return rec


def run_constrained(X, rank, k, seed, opts):
    from tensorly.decomposition import constrained_parafac
    opts = dict(opts)
    if "_n_iter_max_inner" in opts:
        opts["n_iter_max_inner"] = opts.pop("_n_iter_max_inner")
    out, errs = constrained_parafac(np.array(X), rank, n_iter_max=k, tol_outer=opts.pop("_tol", 0), return_errors=True, random_state=seed,
                                    init="random", **opts)
    rec = Rec()
    rec.final = _cp_it(out)
    rec.errors = [float(e) for e in errs]
    return rec


def _tk_it(core, fs, mask=None):
    return dict(kind="tucker", G=np.array(core, dtype=float), fs=[np.array(f, dtype=float) for f in fs], mask=mask)


def run_tucker(X, rank, k, seed, opts):
    from tensorly.decomposition import tucker
    rk = [min(rank, d) for d in X.shape]
    opts = dict(opts)
    out, errs = tucker(np.array(X), rk, n_iter_max=k, tol=opts.pop("_tol", 0), return_errors=True, random_state=seed, **opts)
    rec = Rec()
    rec.final = _tk_it(out[0], out[1], opts.get("mask"))
    rec.final["hooi"] = opts.get("mask") is None
    rec.errors = [float(e) for e in errs]
    return rec


def run_partial_tucker(X, rank, k, seed, opts):
    from tensorly.decomposition import partial_tucker
    modes = opts["modes"]
    rk = [min(rank, X.shape[m]) for m in modes]
    (core, fs), errs = partial_tucker(np.array(X), rk, modes=modes, n_iter_max=k, tol=0, random_state=seed,
                                      init=opts.get("init", "svd"), mask=opts.get("mask"))
    full = [np.eye(d) for d in X.shape]
    for m, f in zip(modes, fs):
        full[m] = f
    rec = Rec()
    rec.final = _tk_it(core, full, opts.get("mask"))
    rec.final["hooi"] = opts.get("mask") is None
    rec.errors = [float(e) for e in errs]
    return rec


def run_nn_tucker(X, rank, k, seed, opts):
    from tensorly.decomposition import non_negative_tucker
    rk = [min(rank, d) for d in X.shape]
    opts = dict(opts)
    out, errs = non_negative_tucker(np.array(X), rk, n_iter_max=k, tol=opts.pop("_tol", 0), return_errors=True, random_state=seed, **opts)
    rec = Rec()
    rec.final = _tk_it(out[0], out[1])
    rec.errors = [float(e) for e in errs]
    return rec


def run_nn_tucker_hals(X, rank, k, seed, opts):
    from tensorly.decomposition import non_negative_tucker_hals
    rk = [min(rank, d) for d in X.shape]
    opts = dict(opts)
    out, errs = non_negative_tucker_hals(np.array(X), rk, n_iter_max=k, tol=opts.pop("_tol", 0), return_errors=True, random_state=seed, **opts)
    rec = Rec()
    rec.final = _tk_it(out[0], out[1])
    rec.errors = [float(e) for e in errs]
    return rec


def run_parafac2(X, rank, k, seed, opts):
    import tensorly as tl
    from tensorly.decomposition import parafac2
    opts = dict(opts)
    if opts.pop("_reject_jumps", False):
        # a line search that computes its candidate as usual and then REJECTS it, answering exactly what the real line_step answers
        # on a rejection (the iterate and the error value it was given): the decision sequence "always reject", reachable with data
        # but rarely (about 1 run in 20), made deterministic through the extension point linesearch=<instance>.  (Before fix
        # 0080ddd the value given was the previous iterate's error, which then stayed the last reported one.)
        from tensorly.decomposition._parafac2 import _BroThesisLineSearch

        class Rejecting(_BroThesisLineSearch):
            def line_step(self, iteration, tensor_slices, factors_last, weights, factors, projections, rec_error):
                super().line_step(iteration, tensor_slices, factors_last, weights, factors, projections, rec_error)
                print("Line search failed (forced by the harness)")
                return factors, projections, rec_error
        norm = math.sqrt(float(np.sum(np.asarray(X, dtype=float) ** 2)))
        opts["linesearch"] = Rejecting(norm, "truncated_svd", verbose=False, nn_modes=opts.get("nn_modes"), random_state=np.random.RandomState(seed))
    if opts.pop("_accept_jumps", False):
        # the symmetric decision sequence "always accept": the real line_step is asked to compare the extrapolated iterate with an
        # infinite current error, so it keeps the jump and answers the iterate / error IT computed for it.  (Accepted jumps occur with
        # data too, but a line_step that over-estimates the candidate's error also rejects more often: forced here.)
        from tensorly.decomposition._parafac2 import _BroThesisLineSearch

        class Accepting(_BroThesisLineSearch):
            def line_step(self, iteration, tensor_slices, factors_last, weights, factors, projections, rec_error):
                out = super().line_step(iteration, tensor_slices, factors_last, weights, factors, projections, float("inf"))
                print("Accepted line search jump (forced by the harness)")
                return out
        norm = math.sqrt(float(np.sum(np.asarray(X, dtype=float) ** 2)))
        opts["linesearch"] = Accepting(norm, "truncated_svd", verbose=False, nn_modes=opts.get("nn_modes"), random_state=np.random.RandomState(seed))
    buf = io.StringIO()
    with contextlib.redirect_stdout(buf):
        out, errs = parafac2(np.array(X), rank, n_iter_max=k, tol=opts.pop("_tol", 1e-300), return_errors=True, random_state=seed,
                             init="random", n_iter_parafac=3, verbose=True, **opts)
    rec = Rec()
    rec.ls = ls_decisions(buf.getvalue())
    # number of executed outer iterations: n_iter_max, or what "converged in <iteration> iterations." says (break in that iteration)
    import re as _re
    mconv = _re.search(r"^converged in (\d+) iterations\.", buf.getvalue(), _re.M)
    rec.executed = k if mconv is None else int(mconv.group(1)) + 1
    w, (A, B, Cm), Ps = out
    rec.final = dict(kind="parafac2", w=None if w is None else np.array(w, dtype=float), A=np.array(A, dtype=float), B=np.array(B, dtype=float),
                     C=np.array(Cm, dtype=float), Ps=[np.array(P, dtype=float) for P in Ps], slices=[np.array(X[i], dtype=float) for i in range(X.shape[0])])
    rec.errors = [float(e) for e in errs]
    return rec


def run_tr_als(X, rank, k, seed, opts):
    import tensorly as tl
    from tensorly.decomposition import tensor_ring_als
    rec = Rec()
    stop_at = opts.get("_stop_at")

    def cb(dec, err):
        rec.cb.append((dict(kind="tr", cores=[np.array(f, dtype=float) for f in dec]), float(err)))
        return stop_at is not None and len(rec.cb) - 2 == stop_at

    rk = [rank] * (X.ndim + 1)
    out = tensor_ring_als(np.array(X), rk, n_iter_max=k, tol=0, random_state=seed, callback=cb,
                          ls_solve=opts.get("ls_solve", "lstsq"))
    rec.final = dict(kind="tr", cores=[np.array(f, dtype=float) for f in out])
    rec.errors = None
    return rec

def run_tr_als_sampled(X, rank, k, seed, opts):
    from tensorly.decomposition import tensor_ring_als_sampled
    rec = Rec()
    stop_at = opts.get("_stop_at")

    def cb(dec, err):
        rec.cb.append((dict(kind="tr", cores=[np.array(f, dtype=float) for f in dec]), float(err)))
        return stop_at is not None and len(rec.cb) - 2 == stop_at

    rk = [rank] * (X.ndim + 1)
    out = tensor_ring_als_sampled(np.array(X), rk, opts.get("n_samples", 40), n_iter_max=k, tol=0, random_state=seed, callback=cb,
                                  uniform_sampling=opts.get("uniform_sampling", False), randomized_error=False)
    rec.final = dict(kind="tr", cores=[np.array(f, dtype=float) for f in out])
    rec.errors = None
    return rec


def run_randomised(X, rank, k, seed, opts):
    from tensorly.decomposition import randomised_parafac
    rec = Rec()

    stop_at = opts.get("_stop_at")

    def cb(dec, err=None):
        rec.cb.append((_cp_it(dec), None if err is None else float(err)))
        return stop_at is not None and len(rec.cb) - 2 == stop_at     # call 0 is the one before the loop

    out, errs = randomised_parafac(np.array(X), rank, n_samples=opts.get("n_samples", 40), n_iter_max=k, tol=opts.get("_tol", 0),
                                   max_stagnation=opts.get("max_stagnation", 1000), return_errors=True, random_state=seed,
                                   callback=cb if opts.get("_cb") else None, init=opts.get("init", "random"))
    rec.final = _cp_it(out)
    rec.errors = [float(e) for e in errs]
    return rec


def run_cmtf(X, rank, k, seed, opts):
    from tensorly.decomposition._cmtf_als import coupled_matrix_tensor_3d_factorization
    rs = np.random.RandomState(seed)
    Y = opts["_Y"]
    np.random.seed(seed % (2 ** 31))
    tcp, mcp, errs = coupled_matrix_tensor_3d_factorization(np.array(X), np.array(Y), rank, init=opts.get("init", "svd"),
                                                            n_iter_max=k, tol=opts.get("_tol", 0), normalize_factors=opts.get("normalize_factors", False))
    rec = Rec()
    rec.final = dict(kind="cmtf", cpX=_cp_it(tcp), cpY=_cp_it(mcp), Y=np.array(Y, dtype=float))
    rec.errors = [float(e) for e in errs]
    rec.squared_unnormalised = True
    return rec

# class API (DecompositionMixin wrappers): fit_transform stores decomposition_ / errors_ - the glue between the two is under the same check
CLASS_TABLE = {
    "CP": ("tensorly.decomposition._cp", "CP", "cp", dict(tol=0)),
    "CP_NN": ("tensorly.decomposition._nn_cp", "CP_NN", "cp", dict(tol=1e-300)),
    "CP_NN_HALS": ("tensorly.decomposition._nn_cp", "CP_NN_HALS", "cp", dict(tol=1e-300)),
    "Tucker_NN": ("tensorly.decomposition._tucker", "Tucker_NN", "tucker", dict(tol=0)),
    "Tucker_NN_HALS": ("tensorly.decomposition._tucker", "Tucker_NN_HALS", "tucker", dict(tol=0)),
    "Parafac2": ("tensorly.decomposition._parafac2", "Parafac2", "parafac2", dict(tol=1e-300, return_errors=True, n_iter_parafac=3, init="random")),
    "RandomizedCP": ("tensorly.decomposition._cp", "RandomizedCP", "cp", dict(tol=0, max_stagnation=1000, n_samples=40, init="random")),
    "ConstrainedCP": ("tensorly.decomposition._constrained_cp", "ConstrainedCP", "cp", dict(tol_outer=0, init="random")),
}


def run_class(X, rank, k, seed, opts):
    import importlib
    o = dict(opts)
    mod, cls, kind, base = CLASS_TABLE[o.pop("_class")]
    Cls = getattr(importlib.import_module(mod), cls)
    kw = dict(base); kw.update({kk: vv for kk, vv in o.items() if not kk.startswith("_")})
    rk = [min(rank, d) for d in X.shape] if kind == "tucker" else rank
    obj = Cls(rk, n_iter_max=k, random_state=seed, **kw)
    buf = io.StringIO()
    with contextlib.redirect_stdout(buf):
        ret = obj.fit_transform(np.array(X))
    dec = obj.decomposition_
    rec = Rec()
    rec.errors = [float(e) for e in obj.errors_]
    if ret is not dec:
        raise AssertionError("fit_transform does not return the stored decomposition_")
    if kind == "cp":
        rec.final = _cp_it(dec)
    elif kind == "tucker":
        rec.final = _tk_it(dec[0], dec[1])
    else:
        w, (A, B, Cm), Ps = dec
        rec.final = dict(kind="parafac2", w=None if w is None else np.array(w, dtype=float), A=np.array(A, dtype=float), B=np.array(B, dtype=float),
                         C=np.array(Cm, dtype=float), Ps=[np.array(P, dtype=float) for P in Ps], slices=[np.array(X[i], dtype=float) for i in range(X.shape[0])])
    return rec


def configs(tier):
    """(name, entry point, runner, opts, data kinds, orders, ks (prefix lengths))"""
    q = tier == "quick"
    K = [1, 2, 3] if q else [1, 2, 3, 4, 6, 9, 12]
    KL = [7, 9] if q else [7, 8, 9, 11, 13]
    KT = [60]                      # convergence-stopped runs: n_iter_max large, tol > 0
    G = ["generic", "lowrank", "integer"]
    NN = ["nonneg", "nn_lowrank", "nn_integer"]
    o234 = [2, 3, 4]
    cfg = [
        ("parafac", "tensorly.decomposition.parafac", run_parafac, dict(init="random"), G, o234, K),
        ("parafac_cb", "tensorly.decomposition.parafac", run_parafac, dict(init="random", _cb=True), G, o234, K[-1:]),
        ("parafac_svd", "tensorly.decomposition.parafac", run_parafac, dict(init="svd"), G, o234, K),
        ("parafac_norm", "tensorly.decomposition.parafac", run_parafac, dict(init="random", normalize_factors=True), G, o234, K),
        ("parafac_norm_cb", "tensorly.decomposition.parafac", run_parafac, dict(init="random", normalize_factors=True, _cb=True), G, o234, K[-1:]),
        ("parafac_winit", "tensorly.decomposition.parafac", run_parafac, dict(_init="weighted"), G, o234, K),
        ("parafac_l2", "tensorly.decomposition.parafac", run_parafac, dict(init="random", l2_reg=0.1), G, [3], K),
        ("parafac_l2_norm", "tensorly.decomposition.parafac", run_parafac, dict(init="random", l2_reg=0.3, normalize_factors=True), G, [2, 4], K),
        ("parafac_l2_mask_fixed", "tensorly.decomposition.parafac", run_parafac, dict(_init="weighted", l2_reg=0.2, _mask=True, fixed_modes=[0], _cb=True), G, [3], K),
        ("parafac_sparse_l2_norm", "tensorly.decomposition.parafac", run_parafac, dict(init="random", sparsity=0.2, l2_reg=0.1, normalize_factors=True), G, [3], K),
        ("parafac_ls", "tensorly.decomposition.parafac", run_parafac, dict(init="random", linesearch=True), G, [3, 4], KL),
        ("parafac_ls_cb", "tensorly.decomposition.parafac", run_parafac, dict(init="random", linesearch=True, _cb=True), G, [2, 3], KL[-1:]),
        ("parafac_ls_norm", "tensorly.decomposition.parafac", run_parafac, dict(init="random", linesearch=True, normalize_factors=True), G, [3], KL),
        ("parafac_ls_mask", "tensorly.decomposition.parafac", run_parafac, dict(init="random", linesearch=True, _mask=True), G, [3], KL),
        ("parafac_ls_sparse", "tensorly.decomposition.parafac", run_parafac, dict(init="random", linesearch=True, sparsity=3), G, [3], KL[:1]),
        ("parafac_orth", "tensorly.decomposition.parafac", run_parafac, dict(init="random", orthogonalise=2), G, [3], K),
        ("parafac_tol", "tensorly.decomposition.parafac", run_parafac, dict(init="random", _tol=1e-3), G, [2, 3], KT),
        ("parafac_tol_norm", "tensorly.decomposition.parafac", run_parafac, dict(init="random", _tol=1e-3, normalize_factors=True, cvg_criterion="rec_error"), G, [3, 4], KT),
        ("parafac_tol_ls", "tensorly.decomposition.parafac", run_parafac, dict(init="random", _tol=1e-4, linesearch=True, normalize_factors=True), G, [3], [120]),
        ("parafac_sparse", "tensorly.decomposition.parafac", run_parafac, dict(init="random", sparsity=0.15), G, [3], K),
        ("parafac_sparse_cb", "tensorly.decomposition.parafac", run_parafac, dict(init="random", sparsity=3, _cb=True), G, [3], K[-1:]),
        ("parafac_mask", "tensorly.decomposition.parafac", run_parafac, dict(init="random", _mask=True), G, [2, 3], K),
        ("parafac_mask_sparse", "tensorly.decomposition.parafac", run_parafac, dict(init="random", _mask=True, sparsity=4, _cb=True), G, [3], K),
        ("parafac_mask_norm", "tensorly.decomposition.parafac", run_parafac, dict(init="random", _mask=True, normalize_factors=True, _cb=True), G, [3], K),
        ("parafac_fixed", "tensorly.decomposition.parafac", run_parafac, dict(_init="plain", fixed_modes=[0]), G, [3, 4], K),
        ("parafac_fixed_last", "tensorly.decomposition.parafac", run_parafac, dict(_init="plain", fixed_modes=[1, 2]), G, [3], K),
        ("nn_parafac", "tensorly.decomposition.non_negative_parafac", run_nn_parafac, dict(init="random"), NN, o234, K),
        ("nn_parafac_norm", "tensorly.decomposition.non_negative_parafac", run_nn_parafac, dict(init="random", normalize_factors=True), NN, o234, K),
        ("nn_parafac_mask", "tensorly.decomposition.non_negative_parafac", run_nn_parafac, dict(init="random", _mask=True), NN, [3], K),
        ("nn_parafac_fixed", "tensorly.decomposition.non_negative_parafac", run_nn_parafac, dict(_init="plain", fixed_modes=[1]), NN, [3], K),
        ("nn_parafac_tol", "tensorly.decomposition.non_negative_parafac", run_nn_parafac, dict(init="random", _tol=1e-3, normalize_factors=True), NN, [3], KT),
        ("hals_tol", "tensorly.decomposition.non_negative_parafac_hals", run_hals, dict(init="random", _tol=1e-3, normalize_factors=True), NN, [3], KT),
        ("hals", "tensorly.decomposition.non_negative_parafac_hals", run_hals, dict(init="random"), NN, o234, K),
        ("hals_norm", "tensorly.decomposition.non_negative_parafac_hals", run_hals, dict(init="random", normalize_factors=True), NN, o234, K),
        ("hals_svd", "tensorly.decomposition.non_negative_parafac_hals", run_hals, dict(init="svd"), NN, [3], K),
        ("hals_fixed_lbo", "tensorly.decomposition.non_negative_parafac_hals", run_hals, dict(_init="plain", fixed_modes="last_but_one"), NN, o234, K),
        ("hals_fixed_last", "tensorly.decomposition.non_negative_parafac_hals", run_hals, dict(_init="plain", fixed_modes="last"), NN, [3, 4], K),
        ("hals_fixed_last_norm", "tensorly.decomposition.non_negative_parafac_hals", run_hals, dict(_init="plain", fixed_modes="last", normalize_factors=True), NN, [3], K),
        # options that feed into (or sit next to) the error expression, each with a NON-ZERO value
        ("hals_sparse", "tensorly.decomposition.non_negative_parafac_hals", run_hals, dict(init="random", sparsity_coefficients=[0.2, 0.1, 0.3, 0.1]), NN, [3, 4], K),
        ("hals_sparse_norm_exact", "tensorly.decomposition.non_negative_parafac_hals", run_hals, dict(init="random", sparsity_coefficients=[0.3, 0.2, 0.1, 0.1], exact=True, normalize_factors=True), NN, [3], K[:1]),   # exact=True costs ~4 s CPU per sweep
        ("hals_sparse_fixed_last", "tensorly.decomposition.non_negative_parafac_hals", run_hals, dict(_init="plain", sparsity_coefficients=[0.2, 0.2, 0.2, 0.2], fixed_modes="last", normalize_factors=True), NN, [3], K),
        ("hals_winit_fixed_last", "tensorly.decomposition.non_negative_parafac_hals", run_hals, dict(_init="weighted", fixed_modes="last"), NN, [3], K),
        ("hals_nn_some", "tensorly.decomposition.non_negative_parafac_hals", run_hals, dict(init="random", nn_modes={0}), NN, [3], K),
        ("constrained_nn", "tensorly.decomposition.constrained_parafac", run_constrained, dict(non_negative=True), NN, o234, K),
        ("constrained_l2", "tensorly.decomposition.constrained_parafac", run_constrained, dict(l2_square_reg=0.05), G, [3], K),
        ("constrained_l1", "tensorly.decomposition.constrained_parafac", run_constrained, dict(l1_reg=0.1), G, [3], K),
        ("constrained_mixed", "tensorly.decomposition.constrained_parafac", run_constrained, dict(l2_reg=0.2, _n_iter_max_inner=3), G, [3, 4], K),
        ("constrained_smooth", "tensorly.decomposition.constrained_parafac", run_constrained, dict(smoothness=0.1), G, [3], K),
        ("constrained_normalize", "tensorly.decomposition.constrained_parafac", run_constrained, dict(normalize=True), NN, [3], K),
        ("constrained_fixed", "tensorly.decomposition.constrained_parafac", run_constrained, dict(non_negative=True, fixed_modes=[0]), NN, [3], K),
        ("constrained_tol", "tensorly.decomposition.constrained_parafac", run_constrained, dict(non_negative=True, _tol=1e-3), NN, [3], KT),
        ("tucker_svd", "tensorly.decomposition.tucker", run_tucker, dict(init="svd"), G, o234, K),
        ("tucker_tol", "tensorly.decomposition.tucker", run_tucker, dict(init="random", _tol=1e-4), G, [3], KT),
        ("tucker_mask", "tensorly.decomposition.tucker", run_tucker, dict(init="random", _mask=True), G, [3], K),
        ("partial_tucker_mask", "tensorly.decomposition.partial_tucker", run_partial_tucker, dict(modes="tail", init="svd", _mask=True), G, [3], K[:2]),
        ("tucker_random", "tensorly.decomposition.tucker", run_tucker, dict(init="random"), G, o234, K),
        ("partial_tucker", "tensorly.decomposition.partial_tucker", run_partial_tucker, dict(modes="tail"), G, [3, 4], K),
        ("partial_tucker_mid", "tensorly.decomposition.partial_tucker", run_partial_tucker, dict(modes="mid"), G, [3], K),
        ("nn_tucker", "tensorly.decomposition.non_negative_tucker", run_nn_tucker, dict(init="random"), NN, o234, K),
        ("nn_tucker_norm", "tensorly.decomposition.non_negative_tucker", run_nn_tucker, dict(init="random", normalize_factors=True), NN, [3], K),
        ("nn_tucker_hals", "tensorly.decomposition.non_negative_tucker_hals", run_nn_tucker_hals, dict(init="svd"), NN, [2, 3], K),
        ("nn_tucker_hals_as", "tensorly.decomposition.non_negative_tucker_hals", run_nn_tucker_hals, dict(init="svd", algorithm="active_set"), NN, [3], K),
        ("nn_tucker_tol", "tensorly.decomposition.non_negative_tucker", run_nn_tucker, dict(init="random", _tol=1e-3, normalize_factors=True), NN, [3], KT),
        ("nn_tucker_hals_tol", "tensorly.decomposition.non_negative_tucker_hals", run_nn_tucker_hals, dict(init="svd", _tol=1e-3), NN, [3], KT),
        ("nn_tucker_hals_sparse", "tensorly.decomposition.non_negative_tucker_hals", run_nn_tucker_hals, dict(init="svd", sparsity_coefficients=[0.3, 0.2, 0.4, 0.2]), NN, [2, 3], K),
        ("nn_tucker_hals_sparse_all", "tensorly.decomposition.non_negative_tucker_hals", run_nn_tucker_hals,
         dict(init="svd", sparsity_coefficients=[0.02, 0.03, 0.02], core_sparsity_coefficient=0.02), NN, [3], K),
    ] + ([] if q else [
        ("nn_tucker_hals_exact", "tensorly.decomposition.non_negative_tucker_hals", run_nn_tucker_hals,
         dict(init="svd", sparsity_coefficients=[0.02, 0.03, 0.02], exact=True), NN, [3], K[:1]),
    ]) + [
        ("nn_tucker_hals_core_sparse_norm", "tensorly.decomposition.non_negative_tucker_hals", run_nn_tucker_hals,
         dict(init="svd", core_sparsity_coefficient=0.05, normalize_factors=True), NN, [3], K),
        ("nn_tucker_hals_sparse_as", "tensorly.decomposition.non_negative_tucker_hals", run_nn_tucker_hals,
         dict(init="svd", sparsity_coefficients=[0.1, 0.3, 0.2], algorithm="active_set"), NN, [3], K),
        ("parafac2", "tensorly.decomposition.parafac2", run_parafac2, dict(), G, [3], K),
        ("parafac2_ls", "tensorly.decomposition.parafac2", run_parafac2, dict(), G, [3], KL),
        ("parafac2_ls_norm", "tensorly.decomposition.parafac2", run_parafac2, dict(normalize_factors=True), G, [3], KL[:1]),
        ("parafac2_nols", "tensorly.decomposition.parafac2", run_parafac2, dict(linesearch=False), G, [3], KL[:1]),
        ("parafac2_ls_accept", "tensorly.decomposition.parafac2", run_parafac2, dict(_accept_jumps=True), ["generic", "integer"], [3], KL),
        ("parafac2_ls_accept_norm", "tensorly.decomposition.parafac2", run_parafac2, dict(_accept_jumps=True, normalize_factors=True), ["generic"], [3], KL[:1]),
        ("parafac2_ls_reject", "tensorly.decomposition.parafac2", run_parafac2, dict(_reject_jumps=True), G, [3], KL),
        ("parafac2_tol", "tensorly.decomposition.parafac2", run_parafac2, dict(_tol=1e-4, linesearch=False), G, [3], KT),
        ("parafac2_norm", "tensorly.decomposition.parafac2", run_parafac2, dict(normalize_factors=True), G, [3], K),
        ("parafac2_nn", "tensorly.decomposition.parafac2", run_parafac2, dict(nn_modes=[0]), NN, [3], K),
        ("tr_als", "tensorly.decomposition.tensor_ring_als", run_tr_als, dict(ls_solve="lstsq"), G, [3, 4], K[-1:]),
        ("tr_als_ne", "tensorly.decomposition.tensor_ring_als", run_tr_als, dict(ls_solve="normal_eq"), G, [3], K[-1:]),
        # sampled tensor-ring ALS with the exact (randomized_error=False) error: every callback pair, incl. a callback stop
        ("tr_als_sampled", "tensorly.decomposition.tensor_ring_als_sampled", run_tr_als_sampled, dict(n_samples=40), G, [3], K[-1:]),
        ("tr_als_sampled_uniform_stop", "tensorly.decomposition.tensor_ring_als_sampled", run_tr_als_sampled, dict(n_samples=40, uniform_sampling=True, _stop_at=1), G, [3], [4]),
        ("randomised", "tensorly.decomposition.randomised_parafac", run_randomised, dict(), G, [3, 4], K),
        ("randomised_noisy", "tensorly.decomposition.randomised_parafac", run_randomised, dict(n_samples=6), G, [3], K + ([4, 5] if q else [])),
        ("randomised_cb_stop", "tensorly.decomposition.randomised_parafac", run_randomised, dict(_cb=True, _stop_at=2), G, [3], [6]),
        ("randomised_cb", "tensorly.decomposition.randomised_parafac", run_randomised, dict(_cb=True), G, [3], K[-1:]),
        ("randomised_tol", "tensorly.decomposition.randomised_parafac", run_randomised, dict(_tol=1e-2), G, [3], KT),
        # round 7: nothing but the callback asks for the error (tol=0, max_stagnation=0): rec_errors stays empty, every in-loop callback must
        # still receive the error of the iterate it is handed
        ("randomised_cb_nostag", "tensorly.decomposition.randomised_parafac", run_randomised, dict(_cb=True, max_stagnation=0), G, [3, 4], [4]),
        ("randomised_cb_nostag_stop", "tensorly.decomposition.randomised_parafac", run_randomised, dict(_cb=True, max_stagnation=0, _stop_at=1), G, [3], [5]),
        # round 7: EXACT-FIT data (rank-1 / exactly low-rank, run long enough to fit to rounding): the quantity under each shortcut's square
        # root is then 0 up to rounding of either sign - the abs guard is what keeps the value finite; the finiteness predicate sees
        # every entry of the list (and the shorter prefix run)
        ("constrained_nn_exact", "tensorly.decomposition.constrained_parafac", run_constrained, dict(non_negative=True, _rank=1), ["nn_lowrank"], o234, [4, 10]),
        ("parafac_exact", "tensorly.decomposition.parafac", run_parafac, dict(init="random", _rank=1), ["lowrank"], [3, 4], [4, 10]),
        ("parafac_exact_norm", "tensorly.decomposition.parafac", run_parafac, dict(init="svd", _rank=1, normalize_factors=True), ["lowrank", "nn_lowrank"], [3], [6]),
        ("nn_parafac_exact", "tensorly.decomposition.non_negative_parafac", run_nn_parafac, dict(init="svd", _rank=1), ["nn_lowrank"], [3], [30]),
        ("hals_exact", "tensorly.decomposition.non_negative_parafac_hals", run_hals, dict(init="random", _rank=1), ["nn_lowrank"], [3], [4, 10]),
        ("tucker_exact", "tensorly.decomposition.tucker", run_tucker, dict(init="svd"), ["lowrank"], [3], [2]),
        ("parafac2_exact", "tensorly.decomposition.parafac2", run_parafac2, dict(_rank=1, linesearch=False), ["lowrank"], [3], [4, 10]),
        ("cmtf", "tensorly.decomposition._cmtf_als.coupled_matrix_tensor_3d_factorization", run_cmtf, dict(init="svd"), G, [3], K),
        ("cmtf_tol", "tensorly.decomposition._cmtf_als.coupled_matrix_tensor_3d_factorization", run_cmtf, dict(init="svd", _tol=1e-3), G, [3], KT),
        ("cmtf_norm", "tensorly.decomposition._cmtf_als.coupled_matrix_tensor_3d_factorization", run_cmtf, dict(init="random", normalize_factors=True), G, [3], K),
        # the class API: errors_ / decomposition_ stored by fit_transform
        ("class_CP", "tensorly.decomposition.CP.fit_transform", run_class, dict(_class="CP", init="random", normalize_factors=True), G, [3], K),
        ("class_CP_ls", "tensorly.decomposition.CP.fit_transform", run_class, dict(_class="CP", init="random", linesearch=True), G, [3], KL[:1]),
        ("class_CP_NN", "tensorly.decomposition.CP_NN.fit_transform", run_class, dict(_class="CP_NN", init="random"), NN, [3], K),
        ("class_CP_NN_HALS", "tensorly.decomposition.CP_NN_HALS.fit_transform", run_class, dict(_class="CP_NN_HALS", init="random", normalize_factors=True), NN, [3], K),
        ("class_Tucker_NN", "tensorly.decomposition._tucker.Tucker_NN.fit_transform", run_class, dict(_class="Tucker_NN", init="random", normalize_factors=True), NN, [3], K),
        ("class_Tucker_NN_HALS", "tensorly.decomposition._tucker.Tucker_NN_HALS.fit_transform", run_class, dict(_class="Tucker_NN_HALS", init="svd"), NN, [3], K),
        ("class_Parafac2", "tensorly.decomposition.Parafac2.fit_transform", run_class, dict(_class="Parafac2"), G, [3], K[-1:] + KL[:1]),
        ("class_RandomizedCP", "tensorly.decomposition.RandomizedCP.fit_transform", run_class, dict(_class="RandomizedCP"), G, [3], K),
        ("class_ConstrainedCP", "tensorly.decomposition.ConstrainedCP.fit_transform", run_class, dict(_class="ConstrainedCP", non_negative=True), NN, [3], K),
    ]
    return cfg


NO_PREFIX = ("nn_tucker_hals", "class_Tucker_NN_HALS")   # fista / active-set inner loops are capped by the OUTER n_iter_max   # fista/active-set inner loops are capped by the OUTER n_iter_max; PARAFAC2's line search overwrites rec_errors[-1]
SLOW_CONFIGS = ("hals_sparse_norm_exact", "nn_tucker_hals_exact")   # exact=True: seconds of CPU per sweep
SWEEP_CONFIGS = ("parafac", "parafac_svd", "parafac_fixed")     # plain ALS: unit weights, no normalisation / mask / sparsity / line search
LS_CONFIGS = ("parafac_ls", "parafac_ls_cb", "parafac_ls_norm", "parafac_ls_mask", "parafac_ls_sparse", "parafac2_ls", "parafac2_ls_norm")
# shapes whose last two modes have the same size: a shortcut pairing the MTTKRP with the wrong factor then yields a wrong NUMBER instead of a shape error
SHAPES_EQ = {2: [(4, 4)], 3: [(3, 3, 3)], 4: [(2, 2, 2, 2)]}
SHAPES_EQ_T = {2: [(5, 5)], 3: [(4, 3, 3), (3, 4, 4)], 4: [(2, 3, 3, 3), (3, 2, 2, 2)]}


def concretise(opts, X, rank, rs):
    """fill the data-dependent options (mask, fixed modes, coupled matrix)"""
    o = dict(opts)
    n = X.ndim
    o.pop("_rank", None)
    if o.pop("_mask", False):
        m = (rs.uniform(size=X.shape) < 0.8).astype(np.float64)
        m.flat[0] = 1.0; m.flat[-1] = 0.0
        o["mask"] = m
    if isinstance(o.get("sparsity_coefficients"), list):
        o["sparsity_coefficients"] = list(o["sparsity_coefficients"][:n])
    if o.get("fixed_modes") == "last_but_one":
        o["fixed_modes"] = [n - 2]
    elif o.get("fixed_modes") == "last":
        o["fixed_modes"] = [n - 1]
    if o.get("modes") == "tail":
        o["modes"] = list(range(1, n))
    elif o.get("modes") == "mid":
        o["modes"] = [1]
    return o


# ----------------------------------------------------------------------------- turning an iterate into a Coq case + a Python verdict
def iterate_case(X, it, rep):
    """returns (Coq kind literal, python squared-relative error recomputed, python reported value squared) for iterate `it`"""
    if it["kind"] == "cp":
        R = it["fs"][0].shape[1]
        L = cp_dense(it["w"], it["fs"])
        lit = lambda P: f"(KCP {P.t(X)} {C.nat(R)} {P.opt_w(it['w'])} {P.ts(it['fs'])} {P.opt_t(it['S'])} {P.opt_t(it['mask'])} {P.num(rep)})"
        return lit, rel2(X, L, it["S"], it["mask"])
    if it["kind"] == "tucker":
        L = tucker_dense(it["G"], it["fs"])
        lit = lambda P: f"(KTucker {P.t(X)} {P.t(it['G'])} {P.ts(it['fs'])} {P.opt_t(it.get('mask'))} {P.num(rep)})"
        return lit, rel2(X, L, None, it.get("mask"))
    if it["kind"] == "parafac2":
        lit = lambda P: (f"(KParafac2 {P.ts(it['slices'])} {P.opt_w(it['w'])} {P.t(it['A'])} {P.t(it['B'])} {P.t(it['C'])} "
                         f"{P.ts(it['Ps'])} {P.num(rep)})")
        return lit, p2_rel2(it)
    if it["kind"] == "tr":
        lit = lambda P: f"(KTR {P.t(X)} {P.ts(it['cores'])} {P.num(rep)})"
        return lit, rel2(X, tr_dense(it["cores"]))
    if it["kind"] == "dense":
        lit = lambda P: f"(KDense {P.t(X)} {P.t(it['L'])} {P.num(rep)})"
        return lit, rel2(X, it["L"])
    raise KeyError(it["kind"])


def p2_rel2(it):
    """squared relative PARAFAC2 error from scratch (own arithmetic): sum_i ||X_i - (P_i B * (A[i] w)) C^T||^2 / sum_i ||X_i||^2"""
    w = np.ones(it["A"].shape[1]) if it["w"] is None else it["w"]
    num = den = 0.0
    for i, Xi in enumerate(it["slices"]):
        Li = ((it["Ps"][i] @ it["B"]) * (it["A"][i] * w)) @ it["C"].T
        num += float(np.sum((Xi - Li) ** 2)); den += float(np.sum(Xi * Xi))
    return num / den


def cmtf_case(X, it, rep):
    a, b = it["cpX"], it["cpY"]
    R = a["fs"][0].shape[1]
    lit = lambda P: (f"(KCmtf {P.t(X)} {C.nat(R)} {P.ts(a['fs'])} {P.t(it['Y'])} {P.ts(b['fs'])} {P.opt_w(a['w'])} {P.opt_w(b['w'])} {P.num(rep)})")
    val = float(np.sum((X - cp_dense(a["w"], a["fs"])) ** 2) + np.sum((it["Y"] - cp_dense(b["w"], b["fs"])) ** 2))
    den = float(np.sum(X * X) + np.sum(it["Y"] ** 2))
    return lit, val, den


def close(a, b):
    return abs(a - b) <= ATOL + 1e-9 * (abs(a) + abs(b))


class Collector:
    QSTEP = 32                          # thorough tier: first case of a kind + every 32nd
    QSTEP_QUICK = 48                    # round 8: quick tier - first case of a kind + every 48th
    Q_THOROUGH_ONLY = ("KTRData",)      # round 8: ~5 CPU-s per Qops case; the dyadic execution already demands exact equality

    def __init__(self, chk):
        self.chk = chk
        self.cases = []
        self.meta = []

    def add(self, lit, meta, expect_fail=False):
        """lit: function of a Lit printer.  Every case runs on dyadics; every 8th one is also run with Qops.
        expect_fail: the Python predicate already failed on this input (a finding carries it): the Coq case is then expected
        to fail as well and is not reported a second time as a bare disagreement."""
        meta = dict(meta, expect_fail=expect_fail)
        cid = len(self.cases)
        self.cases.append(f"({cid}%nat, inl {lit(LD)})")
        self.meta.append(meta)
        self.n_primary = getattr(self, "n_primary", 0) + 1
        text = self.cases[-1]
        kname = text[text.index("(K") + 1:].split(" ", 1)[0].rstrip(")")
        seen = self.__dict__.setdefault("q_seen", {})
        seen[kname] = seen.get(kname, 0) + 1
        # Qops cross-check of the dyadic execution: the first case of every kind, then every QSTEP-th case of the kind (a Q case costs 3-4x a dyadic one)
        quick = getattr(self.chk, "tier", "quick") == "quick"
        if quick and kname in self.Q_THOROUGH_ONLY:
            return cid
        if seen[kname] % (self.QSTEP_QUICK if quick else self.QSTEP) == 1:
            self.cases.append(f"({cid + 1}%nat, inr {lit(LQ)})")
            self.meta.append(dict(meta, what=meta["what"] + " [Qops cross-check of the dyadic execution]"))
        return cid

    def add_q(self, lit, meta, expect_fail=False):
        """a case executed with Qops only (models that divide: the dyadic carrier has no division)"""
        cid = len(self.cases)
        self.cases.append(f"({cid}%nat, inr {lit(LQ)})")
        self.meta.append(dict(meta, expect_fail=expect_fail))
        return cid


CB_STEP = {"quick": 10 ** 6, "thorough": 4}


def describe(name, entry, X, kind, rank, k, seed, opts):
    o = {kk: (vv if not isinstance(vv, np.ndarray) else {"array": vv}) for kk, vv in opts.items()}
    return {"config": name, "entry_point": entry, "tensor": np.asarray(X), "data_kind": kind, "rank": rank, "n_iter_max": k,
            "seed": seed, "options": o}


def check_run(col, name, entry, X, kind, rank, k, seed, opts, rec, light=False):
    """predicates on one run + Coq cases; returns number of findings"""
    chk = col.chk
    inputs = describe(name, entry, X, kind, rank, k, seed, opts)
    if rec.ls:
        inputs["observed_linesearch_decisions"] = list(rec.ls)
    nf = 0
    vals = list(rec.errors or []) + [e for _, e in rec.cb if e is not None]
    if any(not math.isfinite(v) for v in vals):
        chk.finding(entry, inputs, f"{name}: a reported error is not finite: {vals}", "C06_finite", observed=vals)
        return 1
    # callback values equal the returned list (entry points that have both)
    if rec.errors is not None and rec.cb:
        cbv = [e for _, e in rec.cb if e is not None]
        tail = cbv[-len(rec.errors):] if rec.errors else []
        if len(cbv) < len(rec.errors) or any(a != b for a, b in zip(tail, rec.errors)):
            chk.finding(entry, inputs, f"{name}: values passed to the callback {cbv} differ from the returned list {rec.errors}",
                        "C06_callback_equals_list", observed=cbv, expected=rec.errors)
            nf += 1
    # the last reported value belongs to the returned iterate
    reported = rec.errors if rec.errors is not None else [e for _, e in rec.cb if e is not None]
    if reported:
        rep = reported[-1]
        if rec.squared_unnormalised:
            lit, val, den = cmtf_case(X, rec.final, rep)
            ok = close(val / den, rep / den)
            mine, theirs = val, rep
        else:
            lit, mine = iterate_case(X, rec.final, rep)
            theirs = rep * rep
            ok = close(mine, theirs)
        if not light:
            col.add(lit, dict(inputs=inputs, what="last reported value vs returned decomposition", entry=entry), expect_fail=not ok)
        chk.count(key=(name, X.shape, kind, k), nontrivial=True)
        fin = rec.final
        if (not light and fin.get("kind") == "cp" and fin.get("mask") is not None and not rec.squared_unnormalised
                and (not opts.get("sparsity") or isinstance(opts.get("sparsity"), int))):
            # the right-hand side of C06_masked_loop_reports_errors_of_original_data: error_calc_model on the ORIGINAL data for the returned
            # factors (the model imputes and computes the sparse component itself) against the last value of the masked run
            card_ = opts.get("sparsity") or None
            col.add(lambda P, fin=fin, card_=card_, rep=rep: (f"(KErrCalcFull {P.t(X)} {C.nat(fin['fs'][0].shape[1])} {P.opt_w(fin['w'])} {P.ts(fin['fs'])} "
                                                              f"{optnat(card_)} {P.opt_t(fin['mask'])} None {P.num(rep)})"),
                    dict(inputs=inputs, what="masked CP run: last value vs error_calc_model on the original data for the returned factors", entry=entry), expect_fail=not ok)
            chk.count(key=(name, X.shape, kind, k, "masked_model"), nontrivial=True)
        if rec.final.get("hooi") and not light:
            # the model of HOOI's shortcut itself (|norm^2 - norm(core)^2| / norm^2) against the reported value
            G_ = rec.final["G"]
            col.add(lambda P, G_=G_, rep=rep: f"(KHooi {P.t(X)} {P.t(G_)} {P.num(rep)})",
                    dict(inputs=inputs, what="HOOI shortcut |norm^2 - norm(core)^2| vs reported value", entry=entry), expect_fail=not ok)
            chk.count(key=(name, X.shape, kind, k, "hooi"), nontrivial=True)
            # ... and the two hypotheses of C06_hooi_error_identity on the returned decomposition: orthonormal columns, core = X x U^T
            fs_ = rec.final["fs"]
            col.add(lambda P, G_=G_, fs_=fs_: f"(KHooiHyp {P.t(X)} {P.t(G_)} {P.ts(fs_)})",
                    dict(inputs=inputs, what="HOOI: hypotheses of C06_hooi_error_identity (orthonormal factor columns, core = X x U^T) on the returned decomposition", entry=entry))
            chk.count(key=(name, X.shape, kind, k, "hooi_hyp"), nontrivial=True)
        if not ok:
            chk.finding(entry, inputs, f"{name}: last reported error (squared: {theirs!r}) is not the error of the returned decomposition "
                        f"(squared, recomputed: {mine!r})", "C06_last_report_is_error_of_returned", observed=theirs, expected=mine)
            nf += 1
    # every callback pair is judged by the Python predicate; Coq cases (round 8 thinning) for the pre-loop pair, the first in-loop pair, the
    # last pair, every CB_STEP-th pair in between and every pair the predicate rejects
    js_ = [j for j, (_, e) in enumerate(rec.cb) if e is not None]
    keep_ = set(js_[:2] + js_[-1:] + [j for j in js_ if j % CB_STEP[getattr(chk, "tier", "quick")] == 0])   # replay() passes a Sink without a tier
    for j, (it, e) in enumerate(rec.cb):
        if e is None:
            continue
        lit, mine = iterate_case(X, it, e)
        if not light and (j in keep_ or not close(mine, e * e)):
            col.add(lit, dict(inputs=inputs, what=f"callback #{j} value vs the decomposition handed to the callback", entry=entry),
                    expect_fail=not close(mine, e * e))
        chk.count(key=(name, X.shape, kind, k, "cb", j), nontrivial=True)
        if it["kind"] == "tr" and j == len(rec.cb) - 1 and j > 0 and not light:
            # round 7: the sub-problem of EVERY mode as the tensordot / transpose / reshape pipeline on data (Model/Errors.v:tr_residual2_data) must equal
            # the index-level ls_residual2 exactly on these cores; for the last mode it is the reported value
            cores_ = it["cores"]
            col.add(lambda P, cores_=cores_, e=e: f"(KTRData {P.t(X)} {P.ts(cores_)} {P.num(e)})",
                    dict(inputs=inputs, what="tensor ring: the least-squares sub-problem of every mode as a tensordot / transpose / reshape pipeline on data vs the index-level residual (exact) "
                                             "and the reported value", entry=entry), expect_fail=not close(mine, e * e))
            chk.count(key=(name, X.shape, kind, k, "tr_data"), nontrivial=True)
        if not close(mine, e * e):
            chk.finding(entry, dict(inputs, callback_index=j), f"{name}: callback #{j} received error {e!r} (squared {e*e!r}) but the decomposition "
                        f"it received has squared error {mine!r}", "C06_callback_value_is_error_of_its_iterate", observed=e * e, expected=mine)
            nf += 1
    return nf


# ----------------------------------------------------------------------------- direct calls of error_calc
def error_calc_cases(col, tier, rng):
    from tensorly.decomposition._cp import error_calc, sparsify_tensor
    from tensorly.tenalg import unfolding_dot_khatri_rao
    import tensorly as tl
    chk = col.chk
    shapes = [(3, 4), (2, 3, 4), (3, 2, 2, 3)] if tier == "quick" else [(3, 4), (5, 2), (2, 3, 4), (3, 3, 3), (3, 2, 2, 3), (2, 2, 2, 2)]
    reps = 2 if tier == "quick" else 4
    for shape in shapes:
        for rep_i in range(reps):
            rs = np.random.RandomState(rng.randrange(2 ** 31))
            R = rs.randint(1, 4)
            integer = rep_i % 2 == 0
            if integer:
                X = rs.randint(-3, 4, shape).astype(float)
                fs = [rs.randint(-2, 3, (d, R)).astype(float) for d in shape]
                w = rs.randint(1, 4, R).astype(float)
            else:
                X = rs.standard_normal(shape)
                fs = [rs.standard_normal((d, R)) for d in shape]
                w = rs.uniform(0.5, 2, R)
            if not np.any(X):
                X.flat[0] = 1.0
            n = len(shape) - 1
            norm = tl.norm(X, 2)
            inputs = {"tensor": X, "weights": w, "factors": fs}
            M = unfolding_dot_khatri_rao(X, (w, fs), n)
            # branch 4 (shortcut)
            st, out = C.call_impl(error_calc, X, norm, w, fs, None, None, M)
            if st == "ok":
                rep = float(out[0]) / float(norm)
                col.add(lambda P, X=X, R=R, w=w, fs=fs, M=M, n=n, rep=rep: f"(KErrCalc {P.t(X)} {C.nat(R)} {P.opt_w(w)} {P.ts(fs)} {P.t(M)} {C.nat(n)} {P.num(rep)})",
                        dict(inputs=dict(inputs, branch="mttkrp shortcut, implementation's MTTKRP as data"), what="error_calc", entry="tensorly.decomposition._cp.error_calc"))
                col.add(lambda P, X=X, R=R, w=w, fs=fs, n=n, rep=rep: f"(KCPfast {P.t(X)} {C.nat(R)} {P.opt_w(w)} {P.ts(fs)} {C.nat(n)} {P.num(rep)})",
                        dict(inputs=dict(inputs, branch="mttkrp shortcut, model's MTTKRP"), what="error_calc", entry="tensorly.decomposition._cp.error_calc"))
                col.add(lambda P, X=X, R=R, w=w, fs=fs, M=M, rep=rep: f"(KErrCalcFull {P.t(X)} {C.nat(R)} {P.opt_w(w)} {P.ts(fs)} None None (Some {P.t(M)}) {P.num(rep)})",
                        dict(inputs=dict(inputs, branch="all arguments, the model selects the branch (shortcut expected)", mttkrp=M), what="error_calc (branch selected by the model)",
                             entry="tensorly.decomposition._cp.error_calc"))
                chk.count(key=("error_calc", shape, R, integer, "shortcut"), n=3)
                mine = rel2(X, cp_dense(w, fs))
                if not math.isfinite(rep) or not close(mine, rep * rep):
                    chk.finding("tensorly.decomposition._cp.error_calc", dict(inputs, mttkrp=M, branch="shortcut"),
                                f"error_calc shortcut returned {rep!r} (relative), squared {rep*rep!r}; residual from scratch {mine!r}",
                                "C06_error_calc", observed=rep * rep, expected=mine)
            # branches 1-3
            mask = (rs.uniform(size=shape) < 0.75).astype(float); mask.flat[0] = 1.0
            for sparsity, msk, with_m in ((None, None, False), (2, None, True), (2, None, False), (None, mask, True), (3, mask, False)):
                st, out = C.call_impl(error_calc, X, norm, w, fs, sparsity, msk, M if with_m else None)
                if st != "ok":
                    continue
                L = cp_dense(w, fs)
                Xp = X if msk is None else X * msk + L * (1 - msk)
                S = None if not sparsity else np.array(sparsify_tensor(Xp - L, sparsity), dtype=float)
                if S is not None:
                    # the model of sparsify_tensor itself (exact): same residual in, same tensor out
                    Rz = Xp - L
                    col.add(lambda P, Rz=Rz, card=sparsity, S=S: f"(KSparsify {P.t(Rz)} {C.nat(card)} {P.t(S)})",
                            dict(inputs={"tensor": Rz, "card": sparsity}, what="sparsify_tensor", entry="tensorly.decomposition._cp.sparsify_tensor"))
                    chk.count(key=("sparsify", shape, sparsity, integer, msk is not None))
                rep = float(out[0]) / float(out[2])
                if rep_i < (1 if tier == "quick" else 2):
                  col.add(lambda P, X=X, R=R, w=w, fs=fs, S=S, msk=msk, rep=rep: f"(KCP {P.t(X)} {C.nat(R)} {P.opt_w(w)} {P.ts(fs)} {P.opt_t(S)} {P.opt_t(msk)} {P.num(rep)})",
                        dict(inputs=dict(inputs, sparsity=sparsity, mask=msk, branch="explicit"), what="error_calc", entry="tensorly.decomposition._cp.error_calc"))
                col.add(lambda P, X=X, R=R, w=w, fs=fs, sparsity=sparsity, msk=msk, Mx=(M if with_m else None), rep=rep:
                        f"(KErrCalcFull {P.t(X)} {C.nat(R)} {P.opt_w(w)} {P.ts(fs)} {optnat(sparsity)} {P.opt_t(msk)} {P.opt_t(Mx)} {P.num(rep)})",
                        dict(inputs=dict(inputs, sparsity=sparsity, mask=msk, with_mttkrp=with_m, branch="all arguments, the model selects the branch and computes the sparse component"),
                             what="error_calc (branch selected by the model)", entry="tensorly.decomposition._cp.error_calc"))
                chk.count(key=("error_calc", shape, R, integer, sparsity, msk is not None, with_m), n=2)
                mine = rel2(X, L, S, msk)
                bad = not math.isfinite(rep) or not close(mine, rep * rep)
                if msk is not None and not bad:
                    # the returned tensor / norm must be the imputed tensor and ITS norm
                    if not np.allclose(out[1], Xp, rtol=1e-12, atol=1e-12) or not close(float(out[2]) ** 2, float(np.sum(Xp * Xp))):
                        bad = True
                if bad:
                    chk.finding("tensorly.decomposition._cp.error_calc", dict(inputs, sparsity=sparsity, mask=msk, with_mttkrp=with_m),
                                f"error_calc explicit branch returned relative error {rep!r} (squared {rep*rep!r}); from scratch {mine!r}",
                                "C06_error_calc", observed=rep * rep, expected=mine)


# ----------------------------------------------------------------------------- skeleton traces
def trace_cases(col, tier, rng):
    """observable projection of the parafac loop for chosen decision sequences"""
    from tensorly.decomposition import parafac
    chk = col.chk
    rs = np.random.RandomState(rng.randrange(2 ** 31))
    X = rs.standard_normal((3, 4, 3))
    runs = []
    for nrm in (False, True):
        for ls in (False, True):
            for cbk in (False, True):
                for n in ((0, 1, 3, 8) if tier == "quick" else (0, 1, 2, 3, 7, 8, 9, 12)):
                    stops = [None] + ([1] if cbk and n > 1 else []) + ([6] if cbk and n > 6 else [])
                    for stop_at in stops:
                        for fixed in ([], [0]):
                            runs.append((nrm, ls, cbk, n, stop_at, fixed))
    for (nrm, ls, cbk, n, stop_at, fixed) in runs:
        modes = [m for m in range(3) if m not in fixed]
        ncb = [0]
        accepted = []

        def cb(dec, err=None):
            ncb[0] += 1
            return stop_at is not None and ncb[0] - 2 == stop_at

        init = rand_cp_init(X.shape, 2, np.random.RandomState(5))
        st, out = C.call_impl(parafac, np.array(X), 2, n_iter_max=n, tol=0, return_errors=True, init=init, normalize_factors=nrm,
                              linesearch=ls, fixed_modes=list(fixed), callback=cb if cbk else None)
        if st != "ok":
            continue
        _, errs = out
        broke = stop_at is not None and ncb[0] - 2 == stop_at
        # the line-search decision is not observable from outside and does not change the counts: both answers are compared
        for acc in (True, False):
            lit = (f"(KTrace {C.nat_list(modes)} {C.boolc(nrm)} {C.boolc(ls)} {C.boolc(cbk)} {C.nat(n)} {optnat(stop_at)} {C.boolc(acc)} "
                   f"(mkObs {C.nat(len(errs))} {C.nat(ncb[0])} {C.boolc(broke)}))")
            col.add(lambda P, lit=lit: lit, dict(inputs={"normalize_factors": nrm, "linesearch": ls, "callback": cbk, "n_iter_max": n, "stop_at": stop_at,
                                      "fixed_modes": fixed, "observed": {"reports": len(errs), "callbacks": ncb[0], "broke": broke}},
                              what="loop skeleton trace projection", entry="tensorly.decomposition.parafac"))
        chk.count(key=("trace", nrm, ls, cbk, n, stop_at, tuple(fixed)), nontrivial=n > 0)
        chk.hist("kind", "trace")


# ----------------------------------------------------------------------------- event-level traces (parafac, MU, HALS)
class EventLog:
    """logs, in order, the MTTKRP calls (10 + mode), cp_normalize (1), error computations (2 = with an MTTKRP / inline shortcut,
    3 = explicit) and callbacks (4) of one run by temporarily rebinding the names the loop looks up in its own module
    (harness-side interposition; /repo is untouched)"""
    def __init__(self, module, inline_norm=False):
        self.module, self.inline_norm, self.events, self.saved = module, inline_norm, [], {}

    def __enter__(self):
        try:
            return self._enter()
        except Exception:
            self.__exit__()
            raise

    def _enter(self):
        m, ev = self.module, self.events
        def wrap(name, make):
            orig = getattr(m, name)
            self.saved[name] = orig
            setattr(m, name, make(orig))
        wrap("unfolding_dot_khatri_rao", lambda f: (lambda tensor, cp, mode: (ev.append(10 + mode), f(tensor, cp, mode))[1]))
        wrap("cp_normalize", lambda f: (lambda *a, **k: (ev.append(1), f(*a, **k))[1]))
        if self.inline_norm:
            wrap("cp_norm", lambda f: (lambda *a, **k: (ev.append(2), f(*a, **k))[1]))
        else:
            def mk(f):
                def error_calc(tensor, norm_tensor, weights, factors, sparsity, mask, mttkrp=None):
                    ev.append(2 if (mttkrp is not None and mask is None and not sparsity) else 3)
                    return f(tensor, norm_tensor, weights, factors, sparsity, mask, mttkrp)
                return error_calc
            wrap("error_calc", mk)
        return self

    def __exit__(self, *exc):
        for name, f in self.saved.items():
            setattr(self.module, name, f)
        return False

    def observed(self):
        ev = list(self.events)
        while ev and ev[0] == 1:      # normalisation inside the initialisation
            ev.pop(0)
        return ev


def event_cases(col, tier, rng):
    """the implementation's event sequence against the observable projection of the skeleton's trace (Model/Errors.v:obs_of_trace)"""
    from tensorly.decomposition import parafac, non_negative_parafac, non_negative_parafac_hals
    from tensorly.decomposition import _cp as cp_mod, _nn_cp as nn_mod
    chk = col.chk
    rs = np.random.RandomState(rng.randrange(2 ** 31))
    X = rs.standard_normal((3, 4, 3)); Xn = np.abs(X) + 0.1
    q = tier == "quick"

    def emit(entry, modes, nrm, nis, ls, cbk, n, stop_at, decs, observed, extra):
        lit = (f"(KEvents {C.nat_list(modes)} {C.boolc(nrm)} {C.boolc(nis)} {C.boolc(ls)} {C.boolc(cbk)} {C.nat(n)} {optnat(stop_at)} "
               f"{'[' + '; '.join(C.boolc(d) for d in decs) + ']' if decs else '(@nil bool)'} {C.nat_list(observed)})")
        col.add(lambda P, lit=lit: lit, dict(inputs=dict(extra, modes=modes, normalize_factors=nrm, linesearch=ls, callback=cbk, n_iter_max=n, stop_at=stop_at,
                                                         linesearch_decisions=decs, observed_events=observed),
                                             what="event-level trace (10+m = MTTKRP of mode m, 1 = cp_normalize, 2 = shortcut error, 3 = explicit error, 4 = callback)", entry=entry))
        chk.count(key=("events", entry.split(".")[-1], tuple(modes), nrm, ls, cbk, n, stop_at), nontrivial=n > 0)
        chk.hist("kind", "events")

    # parafac
    for nrm in (False, True):
        for ls in (False, True):
            for cbk in (False, True):
                for n in ((0, 2, 9) if q else (0, 1, 2, 7, 9, 13)):
                    for stop_at in [None] + ([1] if cbk and n > 1 else []) + ([6] if cbk and n > 6 and not q else []):
                        for fixed in ([], [1]):
                            if q and fixed and (cbk != ls):
                                continue
                            modes = [m for m in range(3) if m not in fixed]
                            ncb = [0]
                            log = EventLog(cp_mod)

                            def cb(dec, err=None):
                                log.events.append(4); ncb[0] += 1
                                return stop_at is not None and ncb[0] - 2 == stop_at
                            init = rand_cp_init(X.shape, 2, np.random.RandomState(5))
                            buf = io.StringIO()
                            with log, contextlib.redirect_stdout(buf):
                                st, out = C.call_impl(parafac, np.array(X), 2, n_iter_max=n, tol=0, return_errors=True, init=init, normalize_factors=nrm,
                                                      linesearch=ls, fixed_modes=list(fixed), callback=cb if cbk else None, verbose=1 if ls else 0)
                            if st != "ok":
                                chk.hist("skipped", f"events parafac: {str(out)[:50]}"); continue
                            emit("tensorly.decomposition.parafac", modes, nrm, False, ls, cbk, n, stop_at, ls_decisions(buf.getvalue()), log.observed(),
                                 {"fixed_modes": fixed})
    # multiplicative updates and HALS (normalisation inside the sweep, after every updated mode but the last updated one)
    for fn, entry, inline in ((non_negative_parafac, "tensorly.decomposition.non_negative_parafac", False),
                              (non_negative_parafac_hals, "tensorly.decomposition.non_negative_parafac_hals", True)):
        for nrm in (False, True):
            for fixed in ([], [0]) + (([2],) if inline else ()):
                for n in ((1, 3) if q else (0, 1, 2, 3, 5)):
                    modes = [m for m in range(3) if m not in fixed]
                    log = EventLog(nn_mod, inline_norm=inline)
                    init = rand_cp_init(Xn.shape, 2, np.random.RandomState(6), nonneg=True)
                    with log:
                        st, out = C.call_impl(fn, np.array(Xn), 2, n_iter_max=n, tol=1e-300, return_errors=True, init=init, normalize_factors=nrm,
                                              fixed_modes=list(fixed))
                    if st != "ok":
                        chk.hist("skipped", f"events {entry.split('.')[-1]}: {str(out)[:50]}"); continue
                    emit(entry, modes, nrm, True, False, False, n, None, [], log.observed(), {"fixed_modes": fixed})


def p2_event_cases(col, tier, rng):
    """parafac2's event sequence (projections, inner ALS update, error computations, cp_normalize) against the instrumented loop model
    Model/Errors.v:p2_loop_tr; names rebound in tensorly.decomposition._parafac2 (harness side).  The events logged before the first
    iteration (initialisation) are those of the same call with n_iter_max = 0 and are stripped."""
    from tensorly.decomposition import parafac2
    from tensorly.decomposition import _parafac2 as p2_mod
    chk = col.chk
    rs = np.random.RandomState(rng.randrange(2 ** 31))
    X = rs.standard_normal((3, 4, 3))
    entry = "tensorly.decomposition.parafac2"

    def logged(n, nrm, ls, nn):
        ev, saved = [], {}
        def wrap(name, code):
            orig = getattr(p2_mod, name)
            saved[name] = orig
            setattr(p2_mod, name, lambda *a, **k: (ev.append(code), orig(*a, **k))[1])
        try:
            wrap("_compute_projections", 5); wrap("parafac", 10); wrap("non_negative_parafac_hals", 10)
            wrap("_parafac2_reconstruction_error", 2); wrap("cp_normalize", 1)
            Xin = np.abs(X) + 0.1 if nn else np.array(X)
            st, out = C.call_impl(parafac2, Xin, 2, n_iter_max=n, tol=1e-300, return_errors=True, random_state=11, init="random", n_iter_parafac=2,
                                  normalize_factors=nrm, linesearch=ls, nn_modes=[0] if nn else None, timeout=60)
        finally:
            for name, f in saved.items():
                setattr(p2_mod, name, f)
        return st, out, ev

    for nrm in (False, True):
        for ls in (False, True):
            for nn in (False, True):
                for n in ((1, 9) if tier == "quick" else (1, 2, 7, 8, 9, 13)):
                    if tier == "quick" and nn and not (nrm and ls):
                        continue
                    st0, _, ev0 = logged(0, nrm, ls, nn)
                    st, out, ev = logged(n, nrm, ls, nn)
                    if st0 != "ok" or st != "ok" or ev[:len(ev0)] != ev0:
                        chk.hist("skipped", f"p2 events: {str(out)[:50]}"); continue
                    observed = ev[len(ev0):]
                    lit = f"(KP2Events {C.boolc(ls)} {C.boolc(nrm)} {C.nat(n)} {C.nat_list(observed)})"
                    col.add(lambda P, lit=lit: lit, dict(inputs=dict(normalize_factors=nrm, linesearch=ls, nn_modes=[0] if nn else None, n_iter_max=n, observed_events=observed),
                                                         what="parafac2 event-level trace (5 = projections, 10 = inner ALS update, 2 = error computation, 1 = cp_normalize)", entry=entry))
                    chk.count(key=("p2_events", nrm, ls, nn, n), nontrivial=n > 6)
                    chk.hist("kind", "p2_events")


# ----------------------------------------------------------------------------- direct calls of _parafac2_reconstruction_error
def parafac2_error_cases(col, tier, rng):
    """random decompositions (orthonormal projections - the function validates that -, slices of different heights, with / without
    weights, with / without the projected tensor): reported value vs the model's shortcut and residual from scratch"""
    from tensorly.decomposition._parafac2 import _parafac2_reconstruction_error
    chk = col.chk
    entry = "tensorly.decomposition._parafac2._parafac2_reconstruction_error"
    for rep_i in range(4 if tier == "quick" else 16):
        rs = np.random.RandomState(rng.randrange(2 ** 31))
        I, K, R = rs.randint(2, 4), rs.randint(2, 5), rs.randint(1, 4)
        Js = [int(rs.randint(R, R + 3)) for _ in range(I)]
        integer = rep_i % 2 == 0
        draw = (lambda *sh: rs.randint(-2, 3, sh).astype(float)) if integer else (lambda *sh: rs.standard_normal(sh))
        slices = [draw(J, K) for J in Js]
        if not any(np.any(x) for x in slices):
            slices[0][0, 0] = 1.0
        A, B, Cm = draw(I, R), draw(R, R), draw(K, R)
        if integer:
            # signed selection matrices: orthonormal columns with integer entries
            Ps = []
            for J in Js:
                P = np.zeros((J, R)); rows = rs.permutation(J)[:R]
                P[rows, np.arange(R)] = rs.choice([-1.0, 1.0], R)
                Ps.append(P)
        else:
            Ps = [np.linalg.qr(rs.standard_normal((J, R)))[0] for J in Js]
        w = None if rep_i % 4 < 2 else (rs.randint(1, 4, R).astype(float) if integer else rs.uniform(0.5, 2, R))
        it = dict(kind="parafac2", w=w, A=A, B=B, C=Cm, Ps=Ps, slices=slices)
        normX = math.sqrt(sum(float(np.sum(x * x)) for x in slices))
        for with_proj in (False, True):
            proj = [P.T @ x for P, x in zip(Ps, slices)] if with_proj else None
            st, out = C.call_impl(_parafac2_reconstruction_error, [np.array(x) for x in slices], (None if w is None else np.array(w), (A, B, Cm), Ps),
                                  normX if rep_i % 3 else None, proj)
            if st != "ok":
                chk.hist("skipped", f"p2 direct: {str(out)[:60]}")
                continue
            rep = float(out) / normX
            mine = p2_rel2(it)
            bad = not math.isfinite(rep) or not close(mine, rep * rep)
            inputs = {"slices": slices, "weights": w, "A": A, "B": B, "C": Cm, "projections": Ps, "with_projected_tensor": with_proj,
                      "norm_given": bool(rep_i % 3)}
            lit, _ = iterate_case(None, it, rep)
            col.add(lit, dict(inputs=inputs, what="_parafac2_reconstruction_error", entry=entry), expect_fail=bad)
            chk.count(key=("p2_error", tuple(Js), K, R, integer, w is None, with_proj))
            if bad:
                chk.finding(entry, inputs, f"_parafac2_reconstruction_error returned relative error {rep!r} (squared {rep*rep!r}); from scratch {mine!r}",
                            "C06_parafac2_error", observed=rep * rep, expected=mine)


# ----------------------------------------------------------------------------- direct calls of cp_normalize / tucker_normalize
def _nums_q(xs):
    xs = list(xs)
    return "[" + "; ".join(LQ.num(x) for x in xs) + "]" if xs else "nil"


def normalize_inputs(rs, shape, R, variant):
    """(weights or None, factors) for one direct cp_normalize call; the variants reach every branch of the function: weights None,
    positive, of mixed sign, with a zero entry (the absorption into factor 0), a zero column (scale replaced by 1)"""
    integer = variant.endswith("int")
    draw = (lambda *sh: rs.randint(-3, 4, sh).astype(float)) if integer else (lambda *sh: rs.standard_normal(sh))
    fs = [draw(d, R) for d in shape]
    for f in fs:                                  # no accidental zero columns
        for r in range(R):
            if not np.any(f[:, r]):
                f[0, r] = 1.0
    w = None
    if variant.startswith("pos"):
        w = rs.uniform(0.5, 2.0, R) if not integer else rs.randint(1, 4, R).astype(float)
    elif variant.startswith("mixed"):
        w = rs.uniform(0.5, 2.0, R) * np.where(np.arange(R) % 2 == 0, -1.0, 1.0)
    elif variant.startswith("zero_w"):
        w = rs.uniform(0.5, 2.0, R); w[rs.randint(R)] = 0.0
    elif variant.startswith("zero_col0"):
        w = rs.uniform(0.5, 2.0, R) * rs.choice([-1.0, 1.0], R); fs[0][:, rs.randint(R)] = 0.0
    elif variant.startswith("zero_colk"):
        w = rs.uniform(0.5, 2.0, R); fs[len(shape) - 1][:, rs.randint(R)] = 0.0
    return w, fs


def normalize_cases(col, tier, rng):
    """cp_normalize / tucker_normalize called directly: the model (Model/Errors.v: cp_normalize_F, tucker_normalize_core / _factors, executed
    with Qops) gets the column norms as an answer tape, validates it by squaring and must reproduce the returned weights / core / factors;
    Python predicate: the represented tensor is unchanged and every value is finite"""
    from tensorly.cp_tensor import cp_normalize
    from tensorly.tucker_tensor import tucker_normalize
    chk = col.chk
    q = tier == "quick"
    shapes = [(3, 4), (2, 3, 4), (3, 2, 2, 3)] if q else [(3, 4), (5, 2), (2, 3, 4), (3, 3, 3), (3, 2, 2, 3)]
    variants = ["none", "pos", "mixed", "zero_w", "zero_col0", "zero_colk", "pos_int", "none_int"]
    entry = "tensorly.cp_tensor.cp_normalize"
    for shape in shapes:
        for vi, variant in enumerate(variants):
            rs = np.random.RandomState(rng.randrange(2 ** 31))
            R = 1 + (vi + len(shape)) % 3
            w, fs = normalize_inputs(rs, shape, R, variant)
            st, out = C.call_impl(cp_normalize, (None if w is None else np.array(w), [np.array(f) for f in fs]))
            inputs = {"weights": w, "factors": fs, "variant": variant}
            if st != "ok":
                chk.hist("skipped", f"cp_normalize {variant}: {str(out)[:50]}"); continue
            w2, fs2 = np.array(out[0], dtype=float), [np.array(f, dtype=float) for f in out[1]]
            F0 = fs[0] * (np.ones(R) if w is None else w)
            sc = [np.linalg.norm(F0, axis=0)] + [np.linalg.norm(f, axis=0) for f in fs[1:]]
            before, after = cp_dense(w, fs), cp_dense(w2, fs2)
            scale = max(1.0, float(np.max(np.abs(before))))
            bad = (not np.all(np.isfinite(w2)) or any(not np.all(np.isfinite(f)) for f in fs2)
                   or len(fs2) != len(fs) or before.shape != after.shape or float(np.max(np.abs(before - after))) > 1e-9 * scale)
            lit = (lambda P, w=w, fs=fs, sc=sc, w2=w2, fs2=fs2:
                   f"(KNormalize {P.opt_w(w)} {P.ts(fs)} [{'; '.join(_nums_q(x) for x in sc)}] {_nums_q(w2)} {P.ts(fs2)})")
            col.add_q(lit, dict(inputs=inputs, what="cp_normalize: returned (weights, factors) vs Model/Errors.v:cp_normalize_F", entry=entry), expect_fail=bad)
            chk.count(key=("cp_normalize", shape, R, variant), nontrivial=variant != "none")
            chk.hist("kind", "cp_normalize")
            if bad:
                chk.finding(entry, inputs, f"cp_normalize ({variant}) changed the represented tensor (or returned non-finite values): max deviation "
                            f"{float(np.max(np.abs(before - after))) if before.shape == after.shape else 'shape'}", "C06_normalize_keeps_tensor",
                            observed=after, expected=before)
    entry = "tensorly.tucker_tensor.tucker_normalize"
    for shape in shapes:
        for variant in ("generic", "zero_col", "int"):
            rs = np.random.RandomState(rng.randrange(2 ** 31))
            rk = [int(rs.randint(1, min(d, 3) + 1)) for d in shape]
            draw = (lambda *sh: rs.randint(-3, 4, sh).astype(float)) if variant == "int" else (lambda *sh: rs.standard_normal(sh))
            G = draw(*rk); fs = [draw(d, r) for d, r in zip(shape, rk)]
            if variant == "zero_col":
                k = int(rs.randint(len(shape))); fs[k][:, int(rs.randint(rk[k]))] = 0.0
            st, out = C.call_impl(tucker_normalize, (np.array(G), [np.array(f) for f in fs]))
            inputs = {"core": G, "factors": fs, "variant": variant}
            if st != "ok":
                chk.hist("skipped", f"tucker_normalize {variant}: {str(out)[:50]}"); continue
            G2, fs2 = np.array(out[0], dtype=float), [np.array(f, dtype=float) for f in out[1]]
            sc = [np.linalg.norm(f, axis=0) for f in fs]
            before, after = tucker_dense(G, fs), tucker_dense(G2, fs2) if G2.shape == G.shape else None
            scale = max(1.0, float(np.max(np.abs(before))))
            bad = (after is None or not np.all(np.isfinite(G2)) or any(not np.all(np.isfinite(f)) for f in fs2)
                   or float(np.max(np.abs(before - after))) > 1e-9 * scale)
            lit = (lambda P, G=G, fs=fs, sc=sc, G2=G2, fs2=fs2:
                   f"(KTuckerNormalize {P.t(G)} {P.ts(fs)} [{'; '.join(_nums_q(x) for x in sc)}] {P.t(G2)} {P.ts(fs2)})")
            col.add_q(lit, dict(inputs=inputs, what="tucker_normalize: returned (core, factors) vs Model/Errors.v:tucker_normalize_core / _factors", entry=entry),
                      expect_fail=bad)
            chk.count(key=("tucker_normalize", shape, tuple(rk), variant), nontrivial=True)
            chk.hist("kind", "tucker_normalize")
            if bad:
                chk.finding(entry, inputs, f"tucker_normalize ({variant}) changed the represented tensor (or returned non-finite values)",
                            "C06_normalize_keeps_tensor", observed=after, expected=before)



# ----------------------------------------------------------------------------- round 7: one iteration on data (KSweepV, KIter)
def _jump_of(text):
    """(accepted?, jump) of the LAST line-search decision printed by parafac(verbose=1)"""
    out = None
    for ln in text.splitlines():
        if ln.startswith("Accepted line search jump of "):
            out = (True, float(ln[len("Accepted line search jump of "):].rstrip(". ")))
        elif ln.startswith("Line search failed for jump of "):
            out = (False, float(ln[len("Line search failed for jump of "):].rstrip(". ")))
    return out


def iter_cases(col, tier, rng):
    """one iteration of constrained_parafac / non_negative_parafac_hals on data (KSweepV: the model computes every MTTKRP of the sweep and
    the inline shortcut itself; tape = the factors after the iteration) and of parafac with non-unit weights, end-of-iteration
    normalisation, sparsity and line search (KIter: Model/Errors.v:fl_iteration; the pre-normalisation state comes from the callback,
    the post-sweep factors of a line-search iteration from the run without line search, jump and decision from the verbose output)"""
    from tensorly.decomposition import parafac, constrained_parafac, non_negative_parafac_hals
    chk = col.chk
    quick = tier == "quick"
    shapes = SHAPES_Q if quick else SHAPES_T

    def pick(order):
        return shapes[order][rng.randrange(len(shapes[order]))]

    def fl(fs):
        return [np.array(f, dtype=float) for f in fs]

    # ---- constrained_parafac (variant 1) and non_negative_parafac_hals (variant 2)
    con_opts = [dict(non_negative=True), dict(l2_reg=0.2), dict(non_negative=True, fixed_modes=[0]), dict(l1_reg=0.1)]
    hals_opts = [dict(), dict(fixed_modes="last"), dict(sparsity_coefficients=[0.2, 0.1, 0.3, 0.1]), dict(fixed_modes="last", _winit=True), dict(nn_modes={0})]
    plan = [(1, o) for o in con_opts] + [(2, o) for o in hals_opts]
    for variant, o0 in plan:
        for order in ([3] if quick else [2, 3, 4]) if variant == 1 or "sparsity_coefficients" in o0 else ([rng.choice([2, 3, 4])] if quick else [2, 3, 4]):
            shape = pick(order) if "fixed_modes" not in o0 else (SHAPES_EQ[order][0] if quick else rng.choice(SHAPES_EQ[order] + SHAPES_EQ_T[order]))
            seed = rng.randrange(1, 2 ** 31 - 1)
            rs = np.random.RandomState(seed)
            X = make_tensor("nonneg" if rng.random() < 0.6 else "nn_integer", shape, 2, rs)
            n = X.ndim
            R = 2
            o = dict(o0)
            if o.get("fixed_modes") == "last":
                o["fixed_modes"] = [n - 1]
            if isinstance(o.get("sparsity_coefficients"), list):
                o["sparsity_coefficients"] = o["sparsity_coefficients"][:n]
            winit = o.pop("_winit", False)
            fixed = list(o.get("fixed_modes") or [])
            if variant == 1:
                fixed = [m for m in fixed if m != n - 1]
            ms = [m for m in range(n) if m not in fixed]
            outs = {}
            ok = True
            for k in (1, 2, 3):
                def call(k=k):
                    if variant == 1:
                        return constrained_parafac(np.array(X), R, n_iter_max=k, tol_outer=0, return_errors=True, random_state=seed, init="random", **o)
                    kw = dict(o)
                    kw["init"] = rand_cp_init(X.shape, R, np.random.RandomState(seed), nonneg=True, weights=winit) if (winit or fixed) else "random"
                    return non_negative_parafac_hals(np.array(X), R, n_iter_max=k, tol=1e-300, return_errors=True, random_state=seed, **kw)
                st, res = C.call_impl(call, timeout=60)
                if st != "ok":
                    ok = False
                    chk.hist("skipped", f"iter_cases variant {variant}: {str(res)[:50]}")
                    break
                outs[k] = res
            if not ok:
                continue
            for k in (2, 3):
                (w_b, f_b), _ = outs[k - 1]
                (w_a, f_a), errs = outs[k]
                if len(errs) != k:
                    continue
                w_ = None if w_a is None else np.array(w_a, dtype=float)
                fb, fa, rep_ = fl(f_b), fl(f_a), float(errs[-1])
                entry = "tensorly.decomposition.constrained_parafac" if variant == 1 else "tensorly.decomposition.non_negative_parafac_hals"
                inputs = {"entry_point": entry, "tensor": X, "rank": R, "n_iter_max": k, "seed": seed, "options": {kk: (sorted(vv) if isinstance(vv, set) else vv) for kk, vv in o.items()},
                          "weighted_init": winit, "iteration": k - 1}
                col.add(lambda P, w_=w_, fb=fb, fa=fa, rep_=rep_, ms=ms, variant=variant, X=X: (
                    f"(KSweepV {C.nat(variant)} {P.t(X)} {C.nat(R)} {P.opt_w(w_)} {P.ts(fb)} {P.ts(fa)} {C.nat_list(ms)} {P.num(rep_)})"),
                    dict(inputs=inputs, what=("constrained_parafac" if variant == 1 else "non_negative_parafac_hals") +
                         ": one iteration on data (the model's own MTTKRPs + the inline shortcut) vs the reported value", entry=entry))
                chk.count(key=("iter", variant, X.shape, tuple(ms), k), nontrivial=True)
                chk.hist("iteration_on_data", "constrained" if variant == 1 else "hals")

    # ---- parafac: ordinary iterations with weights / normalisation / sparsity, and the first line-search iteration (it = 6)
    def run_pf(X, R, k, seed, o, ls, want_cb):
        rec = []

        def cb(dec, err=None):
            if isinstance(dec, tuple) and not hasattr(dec, "factors"):
                dec = dec[0]
            rec.append((None if dec[0] is None else np.array(dec[0], dtype=float), fl(dec[1]), None if err is None else float(err)))
            return False
        buf = io.StringIO()
        with contextlib.redirect_stdout(buf):
            out, errs = parafac(np.array(X), R, n_iter_max=k, tol=0, return_errors=True, random_state=seed, init="random",
                                callback=cb if want_cb else None, linesearch=ls, verbose=1 if ls else 0, **o)
        if o.get("sparsity"):
            out = out[0]
        return (None if out[0] is None else np.array(out[0], dtype=float), fl(out[1])), [float(e) for e in errs], rec, buf.getvalue()

    pf_opts = [dict(normalize_factors=True), dict(normalize_factors=True, l2_reg=0.1), dict(sparsity=3), dict(normalize_factors=True, fixed_modes=[0]),
               dict(normalize_factors=True, sparsity=2)]
    for j_o, o in enumerate(pf_opts):
        for order in ([rng.choice([3, 4])] if quick else [2, 3, 4]):
            # equal first / last dimensions for every other option: an MTTKRP of the wrong mode then gives a wrong NUMBER, not a shape error
            shape = pick(order) if j_o % 2 else rng.choice(SHAPES_EQ[order] + ([] if quick else SHAPES_EQ_T[order]))
            seed = rng.randrange(1, 2 ** 31 - 1)
            rs = np.random.RandomState(seed)
            X = make_tensor(rng.choice(["generic", "integer", "lowrank"]), shape, 3, rs)
            n = X.ndim
            R = 2
            ms = [m for m in range(n) if m not in (o.get("fixed_modes") or [])]
            card = o.get("sparsity")
            runs = {}
            for k in (1, 2, 3):
                st, res = C.call_impl(run_pf, X, R, k, seed, o, False, True, timeout=60)
                if st != "ok":
                    chk.hist("skipped", f"iter_cases parafac: {str(res)[:50]}")
                    break
                runs[k] = res
            for k in (2, 3):
                if k not in runs or k - 1 not in runs or len(runs[k][1]) != k or not runs[k][2]:
                    continue
                (w0, f0), (w2, f2, e2), rep_ = runs[k - 1][0], runs[k][2][-1], runs[k][1][-1]
                inputs = {"entry_point": "tensorly.decomposition.parafac", "tensor": X, "rank": R, "n_iter_max": k, "seed": seed, "options": dict(o), "iteration": k - 1}
                col.add(lambda P, X=X, w0=w0, f0=f0, w2=w2, f2=f2, rep_=rep_, ms=ms, card=card, k=k: (
                    f"(KIter {P.t(X)} {C.nat(R)} {optnat(card)} {P.opt_w(w0)} {P.ts(f0)} {P.opt_w(w0)} {P.ts(f0)} {P.ts(f2)} {C.nat_list(ms)} false {C.nat(k - 1)} true "
                    f"{P.num(0.0)} false {P.opt_w(w2)} {P.ts(f2)} {P.num(rep_)})"),
                    dict(inputs=inputs, what="parafac: one iteration on data with weights (state before = the normalised state the shorter run returns, "
                         "state after = the one handed to the callback) vs the reported value", entry="tensorly.decomposition.parafac"))
                chk.count(key=("iter", "parafac", X.shape, tuple(sorted(o)), k), nontrivial=True)
                chk.hist("iteration_on_data", "parafac")
    ls_opts = [dict(), dict(normalize_factors=True), dict(sparsity=3)]
    for o in ls_opts:
        seen = {True: 0, False: 0}
        want = 1 if quick else 2
        for attempt in range(14 if quick else 30):
            if seen[True] >= want and seen[False] >= want:
                break
            order = rng.choice([3, 3, 4, 2])
            shape = pick(order)
            seed = rng.randrange(1, 2 ** 31 - 1)
            rs = np.random.RandomState(seed)
            X = make_tensor(rng.choice(["generic", "integer"]), shape, 3, rs)
            R = 2
            ms = list(range(X.ndim))
            card = o.get("sparsity")
            st, C7 = C.call_impl(run_pf, X, R, 7, seed, o, True, True, timeout=60)
            if st != "ok" or len(C7[1]) != 7 or not C7[2]:
                continue
            dec = _jump_of(C7[3])
            if dec is None or seen[dec[0]] >= want:
                continue
            st, A6 = C.call_impl(run_pf, X, R, 6, seed, o, True, False, timeout=60)
            st2, B7 = C.call_impl(run_pf, X, R, 7, seed, o, False, True, timeout=60)
            if st != "ok" or st2 != "ok" or not B7[2]:
                continue
            seen[dec[0]] += 1
            (w0, f0), f1, (w2, f2, e2), rep_ = A6[0], B7[2][-1][1], C7[2][-1], C7[1][-1]
            inputs = {"entry_point": "tensorly.decomposition.parafac", "tensor": X, "rank": R, "n_iter_max": 7, "seed": seed, "options": dict(o, linesearch=True),
                      "iteration": 6, "observed_linesearch_decision": {"accepted": dec[0], "jump": dec[1]}}
            for tape in ((True, False) if dec[0] else (True,)):
                col.add(lambda P, X=X, w0=w0, f0=f0, f1=f1, w2=w2, f2=f2, rep_=rep_, ms=ms, card=card, dec=dec, tape=tape: (
                    f"(KIter {P.t(X)} {C.nat(R)} {optnat(card)} {P.opt_w(w0)} {P.ts(f0)} {P.opt_w(w0)} {P.ts(f0)} {P.ts(f1)} {C.nat_list(ms)} true {C.nat(6)} {C.boolc(tape)} "
                    f"{P.num(dec[1])} {C.boolc(dec[0])} {P.opt_w(w2)} {P.ts(f2)} {P.num(rep_)})"),
                    dict(inputs=inputs, advisory=not tape,
                         what=("parafac: the first line-search iteration on data (snapshot = state before, post-sweep factors from the run without line search, "
                               "printed decision; the candidate of an accepted jump is the observed state) vs the state handed to the callback and the reported value") if tape else
                              ("parafac: accepted line-search jump: the TRANSCRIBED extrapolation last + (current - last) * jump with the printed jump vs the observed "
                               "candidate (advisory: a different extrapolation rule does not concern C06)"),
                         entry="tensorly.decomposition.parafac"))
            chk.count(key=("iter", "parafac_ls", X.shape, tuple(sorted(o)), dec[0]), nontrivial=True)
            chk.hist("iteration_on_data", f"parafac line search: {'accepted' if dec[0] else 'rejected'}")


class DataLog:
    """records, in order, the arguments of the MTTKRP calls and the inputs / outputs of the cp_normalize calls of one run by temporarily
    rebinding the two names in the module of the decomposition (harness side; /repo untouched)"""
    def __init__(self, module):
        self.module, self.events, self.saved = module, [], {}

    def __enter__(self):
        m, ev = self.module, self.events
        cp = lambda w, fs: (None if w is None else np.array(w, dtype=float), [np.array(f, dtype=float) for f in fs])
        f_m, f_n = getattr(m, "unfolding_dot_khatri_rao"), getattr(m, "cp_normalize")
        self.saved = {"unfolding_dot_khatri_rao": f_m, "cp_normalize": f_n}

        def mttkrp(tensor, cp_tensor, mode):
            ev.append(("m", mode, cp(cp_tensor[0], cp_tensor[1])))
            return f_m(tensor, cp_tensor, mode)

        def normalize(cp_tensor, *a, **k):
            out = f_n(cp_tensor, *a, **k)
            ev.append(("n", cp(cp_tensor[0], cp_tensor[1]), cp(out[0], out[1])))
            return out
        setattr(m, "unfolding_dot_khatri_rao", mttkrp); setattr(m, "cp_normalize", normalize)
        return self

    def __exit__(self, *exc):
        for name, f in self.saved.items():
            setattr(self.module, name, f)
        return False


def norm_sweep_cases(col, tier, rng):
    """one sweep of non_negative_parafac_hals / non_negative_parafac with normalize_factors=True on data (KNormSweep = Model/Errors.v:norm_sweep_error):
    the state at the first MTTKRP call, the updated factors and the outputs of the in-sweep cp_normalize calls are logged from a real
    one-iteration run; the model computes every MTTKRP itself and pairs the last one with the last updated mode"""
    from tensorly.decomposition import non_negative_parafac, non_negative_parafac_hals
    from tensorly.decomposition import _nn_cp as nn_mod
    chk = col.chk
    quick = tier == "quick"
    shapes = SHAPES_Q if quick else SHAPES_T
    plan = [("hals", dict()), ("hals", dict(fixed_modes="last")), ("mu", dict()), ("hals", dict(sparsity_coefficients=[0.2, 0.1, 0.3, 0.1]))]
    for algo, o0 in plan:
        for order in ([rng.choice([3, 4])] if quick else [2, 3, 4]):
            shape = shapes[order][rng.randrange(len(shapes[order]))] if "fixed_modes" not in o0 else SHAPES_EQ[order][0]
            seed = rng.randrange(1, 2 ** 31 - 1)
            rs = np.random.RandomState(seed)
            X = make_tensor("nonneg" if rng.random() < 0.6 else "nn_integer", shape, 2, rs)
            n, R = X.ndim, 2
            o = dict(o0)
            if o.get("fixed_modes") == "last":
                o["fixed_modes"] = [n - 1]
            if isinstance(o.get("sparsity_coefficients"), list):
                o["sparsity_coefficients"] = o["sparsity_coefficients"][:n]
            init = rand_cp_init(X.shape, R, np.random.RandomState(seed), nonneg=True, weights=True)

            def call():
                with DataLog(nn_mod) as log:
                    if algo == "hals":
                        out, errs = non_negative_parafac_hals(np.array(X), R, n_iter_max=1, tol=1e-300, return_errors=True, random_state=seed, init=init,
                                                              normalize_factors=True, **o)
                    else:
                        out, errs = non_negative_parafac(np.array(X), R, n_iter_max=1, tol=1e-300, return_errors=True, random_state=seed, init=init,
                                                         normalize_factors=True, **o)
                return out, [float(e) for e in errs], list(log.events)
            try:
                st, res = C.call_impl(call, timeout=60)
            except AttributeError:
                raise
            if st != "ok" or len(res[1]) != 1:
                chk.hist("skipped", f"norm_sweep_cases: {str(res)[:50]}")
                continue
            out, errs, ev = res
            first = next((j for j, e in enumerate(ev) if e[0] == "m"), None)
            if first is None:
                continue
            ev = ev[first:]
            mpos = [j for j, e in enumerate(ev) if e[0] == "m"]
            ms = [ev[j][1] for j in mpos]
            if len(set(ms)) != len(ms):
                chk.hist("skipped", "norm_sweep_cases: a mode is visited twice")
                continue
            w0, f0 = ev[0][2]
            solve_tape, norm_tape = [], []
            okc = True
            for q, j in enumerate(mpos):
                nxt = ev[j + 1] if j + 1 < len(ev) else None
                if nxt is None:
                    after = (None, [np.array(f, dtype=float) for f in out[1]])       # no normalisation at the end: the returned factors
                elif nxt[0] == "n":
                    after = nxt[1]
                else:
                    after = nxt[2]
                solve_tape.append(after[1][ms[q]])
                if q < len(mpos) - 1:
                    if nxt is not None and nxt[0] == "n":
                        norm_tape.append(nxt[2])
                    else:
                        okc = False      # no normalisation between two updates although normalize_factors=True: not the loop the model describes
                else:
                    norm_tape.append(after)    # never used by the model (no normalisation after the last updated mode)
            if not okc:
                chk.hist("skipped", "norm_sweep_cases: unexpected event order")
                continue
            rep_ = errs[0]
            entry = "tensorly.decomposition.non_negative_parafac_hals" if algo == "hals" else "tensorly.decomposition.non_negative_parafac"
            inputs = {"entry_point": entry, "tensor": X, "rank": R, "n_iter_max": 1, "seed": seed, "options": dict(o, normalize_factors=True), "weighted_init": True}
            col.add(lambda P, X=X, w0=w0, f0=f0, ms=ms, solve_tape=solve_tape, norm_tape=norm_tape, rep_=rep_: (
                f"(KNormSweep {P.t(X)} {C.nat(R)} {P.opt_w(w0)} {P.ts(f0)} {C.nat_list(ms)} {P.ts(solve_tape)} "
                f"[{'; '.join('(' + P.opt_w(a) + ', ' + P.ts(b) + ')' for a, b in norm_tape)}] {P.num(rep_)})"),
                dict(inputs=inputs, what=("non_negative_parafac_hals" if algo == "hals" else "non_negative_parafac") +
                     ": one sweep with cp_normalize inside it on data (logged updates / normalisations as tapes, the model's own MTTKRPs + shortcut) vs the reported value",
                     entry=entry))
            chk.count(key=("norm_sweep", algo, X.shape, tuple(ms)), nontrivial=True)
            chk.hist("iteration_on_data", f"{algo} with in-sweep normalisation")

# ----------------------------------------------------------------------------- main
def gen_runs(tier, rng):
    shapes = SHAPES_Q if tier == "quick" else SHAPES_T
    for (name, entry, runner, opts, kinds, orders, ks) in configs(tier):
        for order in orders:
            shp = shapes[order]
            if "fixed_last" in name or name in ("nn_parafac_fixed", "constrained_fixed", "parafac_l2_mask_fixed"):
                shp = SHAPES_EQ[order] + ((SHAPES_EQ_T[order] + shp) if tier != "quick" else [])
            if tier == "quick":
                # one shape per (config, order), data kind rotating with the seed
                picks = [(shp[rng.randrange(len(shp))], kinds[rng.randrange(len(kinds))])]
            else:
                # thorough: every shape of the order, the data kind rotating with the seed (one Coq case costs ~0.2 s CPU: all shapes x all
                # kinds x all prefix lengths does not fit the 15-minute budget)
                rot = rng.randrange(len(kinds))
                picks = [(s_, kinds[(j + rot) % len(kinds)]) for j, s_ in enumerate(shp)]
            if name in SLOW_CONFIGS:
                picks = picks[:2]
            if "_exact" in name and name not in SLOW_CONFIGS and tier == "quick":
                # exact-fit data: whether rounding makes the quantity under the square root negative depends on the draw - several seeds
                # (run() judges the further ones by the Python predicates only)
                picks = picks + [(shp[rng.randrange(len(shp))], kinds[rng.randrange(len(kinds))]) for _ in range(3)]
            if name in LS_CONFIGS:
                # several seeds: accepted AND rejected jumps at the last iteration are both wanted (decisions are data dependent);
                # run() stops drawing further seeds for a configuration once both have been seen
                if tier == "quick":
                    picks = picks + [(shp[rng.randrange(len(shp))], kinds[j % len(kinds)]) for j in range(39 if name.startswith("parafac_") else 9)]
                else:
                    picks = picks * 3
            for shape, kind in picks:
                seed = rng.randrange(1, 2 ** 31 - 1)
                rank = 2 if min(shape) < 3 or rng.random() < 0.5 else 3
                if name.startswith(("parafac2", "class_Parafac2")):
                    rank = min(rank, shape[2], shape[1])
                rank = opts.get("_rank", rank)
                yield name, entry, runner, opts, kind, shape, rank, seed, ks, None


def corpus_runs():
    """corpus/C06/*.json: pinned (configuration, tensor, rank, seed, prefix lengths) of past disagreements / witnesses; they run first"""
    d = os.path.join(C.VERIF, "corpus", "C06")
    if not os.path.isdir(d):
        return
    cfgs = {c[0]: c for c in configs("thorough")}
    for fn in sorted(os.listdir(d)):
        if not fn.endswith(".json"):
            continue
        try:
            e = json.load(open(os.path.join(d, fn)))
            name, entry, runner, opts, _, _, _ = cfgs[e["config"]]
            X = C.from_jsonable_array(e["tensor"])
            yield name, entry, runner, opts, e.get("data_kind", "generic"), X.shape, int(e["rank"]), int(e["seed"]), [int(k) for k in e["ks"]], X
        except Exception as ex:   # a malformed corpus file is skipped, never a verdict
            print(f"[C06] corpus file {fn} ignored: {type(ex).__name__}: {ex}")


def one_run(runner, X, rank, k, seed, o):
    return C.call_impl(runner, X, rank, k, seed, o, timeout=60)


def series(rec):
    return list(rec.errors) if rec.errors is not None else [e for _, e in rec.cb if e is not None]


def prefix_consistency(chk, name, entry, X, kind, rank, seed, o, recs):
    """the list of the longest run, cut after k iterations, must be the list of the k-run (same seed, same init): every entry of a
    returned list then is the value some prefix run reports LAST, which is checked against that run's returned iterate"""
    if len(recs) < 2 or name.startswith(NO_PREFIX) or "_tol" in o:
        return
    K = max(recs)
    long = series(recs[K])
    for k in sorted(recs):
        if k == K:
            continue
        short = series(recs[k])
        if len(long) - len(short) != K - k:
            continue        # not one value per iteration (nothing to align)
        bad = [j for j, (a, b) in enumerate(zip(long, short)) if not close(a * a, b * b)] if not recs[K].squared_unnormalised else \
              [j for j, (a, b) in enumerate(zip(long, short)) if abs(a - b) > 1e-9 * (abs(a) + abs(b)) + 1e-12]
        chk.count(key=(name, X.shape, kind, "prefix", k), nontrivial=True)
        if bad:
            inputs = describe(name, entry, X, kind, rank, K, seed, o)
            inputs["shorter_n_iter_max"] = k
            chk.finding(entry, inputs, f"{name}: entries {bad} of the list returned for n_iter_max={K} ({long}) differ from the list returned for "
                        f"n_iter_max={k} ({short}) with the same seed: those entries are not the errors of the iterates of their iterations",
                        "C06_list_prefix_consistent", observed=long, expected=short)


# ----------------------------------------------------------------------------- known findings
# None at present: randomised_parafac stopped by its callback (round 3) and the four classes found in round 2 (parafac2 rejected line-search jump, masked HOOI, CMTF convergence exit,
# parafac pre-loop callback under mask+sparsity) are repaired in /repo (known_findings.d/C06.json, "fixed") and are regressions now.
CLASSIFIERS = {}


def _install_local_known():
    """known_findings.d/C06.json is authoritative for C06: common.load_known reads the aggregated known_findings.json, which is
    regenerated by the coordinator and may lag behind (local helper, common.py is untouched)"""
    orig = C.load_known
    if getattr(orig, "_c06", False):
        return

    def load_known(prop):
        p = os.path.join(C.VERIF, "known_findings.d", "C06.json")
        if prop == "C06" and os.path.exists(p):
            return [k for k in json.load(open(p)).get("findings", []) if k.get("property") == "C06"]
        return list(orig(prop))
    load_known._c06 = True
    C.load_known = load_known

# measured CPU seconds per case (coqc vm_compute, dyadic / Qops) used to balance the shards; unknown kinds count as 0.2
KIND_COST = {"KCP": (0.12, 0.32), "KTucker": (0.31, 0.93), "KParafac2": (0.5, 1.9), "KHooiHyp": (0.31, 0.9), "KTR": (0.32, 1.45), "KErrCalcFull": (0.12, 0.35),
             "KNormalize": (0.16, 0.16), "KHooi": (0.13, 0.33), "KCmtf": (0.31, 1.1), "KTrace": (0.013, 0.04), "KTuckerNormalize": (0.26, 0.26), "KEvents": (0.025, 0.09),
             "KSparsify": (0.08, 0.14), "KCPfast": (0.24, 0.7), "KSLoop": (0.015, 0.2), "KErrCalc": (0.18, 0.5), "KP2Len": (0.026, 0.24), "KP2Events": (0.09, 0.78),
             "KDense": (0.1, 0.3), "KSweepV": (0.3, 0.9), "KIter": (0.35, 1.0), "KRLoop": (0.015, 0.2), "KNormSweep": (0.3, 0.9), "KTRData": (1.0, 4.0)}


def balanced(cases, nsh):
    """reorder the case list so that contiguous chunks of equal length have about equal estimated cost: heaviest first, dealt round-robin
    (the ids travel with the cases).  Returns (ordered cases, chunk length)."""
    import re as _re
    def cost(c):
        m_ = _re.match(r"\(\d+%nat, (inl|inr) \((K\w+)", c)
        if not m_:
            return 0.2
        a, b = KIND_COST.get(m_.group(2), (0.2, 0.2))
        return (b if m_.group(1) == "inr" else a) * (1.0 + len(c) / 20000.0)
    idx = sorted(range(len(cases)), key=lambda i: -cost(cases[i]))
    bins = [[] for _ in range(nsh)]
    for j, i in enumerate(idx):
        r = j % (2 * nsh)
        bins[r if r < nsh else 2 * nsh - 1 - r].append(i)     # boustrophedon deal
    size = max(1, -(-len(cases) // nsh))
    # equalise the bin lengths to `size` (the last chunk may be shorter): move surplus items of a bin to the next one
    flat = [i for b in bins for i in b]
    return [cases[i] for i in flat], size


def run(chk):
    rng = random.Random(chk.seed)
    chk.build_proofs()
    C.reset_backends()
    _install_local_known()
    col = Collector(chk)
    # static tie (harness/props/C06_ast.py): the expression under each shortcut's square root, the iprod pairing, the MTTKRP weights and
    # the line-search test of the CURRENT source are translated from the Python ast and coqc re-proves the C06 identities for them
    from harness.props import C06_ast
    C06_ast.run_ast_tie(chk)
    skipped = 0
    nruns = 0
    ls_seen = {}
    ex_seen = {}
    fam_seen = {}
    for (name, entry, runner, opts, kind, shape, rank, seed, ks, X_pinned) in itertools.chain(corpus_runs(), gen_runs(chk.tier, rng)):
        light = False
        if X_pinned is not None:
            chk.hist("corpus", name)
        if name in LS_CONFIGS and chk.tier == "quick" and X_pinned is None:
            # the first pick runs the configured prefixes; further seeds (Python predicates only, no Coq case unless the jump of the
            # last iteration was rejected) are drawn until three rejected-at-the-last-iteration runs have been seen: a rejected jump
            # is where a stale error would surface, and it only shows while ALS still makes progress
            seen = ls_seen.setdefault(name, {"n": 0, "acc": 0, "rej": 0})
            if seen["n"] >= 1 and seen["rej"] >= 3:
                continue
            seen["n"] += 1
            if seen["n"] > 1:
                ks = [(7, 9, 13)[seen["n"] % 3]]
                light = True
        if "_exact" in name and name not in SLOW_CONFIGS and chk.tier == "quick" and X_pinned is None:
            n_ex = ex_seen.get((name, len(shape)), 0)
            ex_seen[(name, len(shape))] = n_ex + 1
            if n_ex >= 1:
                light = True
        rs = np.random.RandomState(seed)
        X = make_tensor(kind, shape, rank, rs) if X_pinned is None else np.array(X_pinned, dtype=np.float64)
        if not np.any(X):
            continue
        o = concretise(opts, X, rank, rs)
        # round 8 thinning (both tiers): the Coq cases of the FIRST prefix length are built for every other run family of a configuration (parity
        # rotating with the seed); the last prefix of every family keeps its Coq cases and the Python predicates judge every prefix
        fam_i = fam_seen.get("*", 0)           # one counter over all generated run families: half of them whatever the seed
        if X_pinned is None:
            fam_seen["*"] = fam_i + 1
        skip_first = X_pinned is None and (fam_i + chk.seed) % 2 == 1
        # thorough: the middle prefix ks[2] gets Coq cases for one run family in four (rotating with the seed), the longest always, the first
        # for every other family (as in quick)
        mid_prefix = (fam_i + chk.seed) % 4 == 0
        if name.startswith("cmtf"):
            A = rs.standard_normal((shape[0], rank)); V = rs.standard_normal((3, rank))
            o["_Y"] = A @ V.T + 0.1 * rs.standard_normal((shape[0], 3))
        recs = {}
        for k in ks:
            # thorough: every prefix length runs and is judged by the Python predicates; Coq cases for the first and the longest one (+ the third
            # one for every third run family)
            light_k = light or (chk.tier != "quick" and X_pinned is None and len(ks) > 3 and k not in ((ks[0], ks[2], ks[-1]) if mid_prefix else (ks[0], ks[-1]))) \
                or (chk.tier == "quick" and X_pinned is None and len(ks) >= 3 and k not in (ks[0], ks[-1])) \
                or (chk.tier == "quick" and X_pinned is None and "_exact" in name and k != ks[-1]) \
                or (skip_first and len(ks) >= 2 and k == ks[0] and k != ks[-1])
            st, rec = one_run(runner, X, rank, k, seed, o)
            nruns += 1
            chk.hist("algorithm", name); chk.hist("order", len(shape)); chk.hist("data", kind); chk.hist("outcome", st)
            if st != "ok" and "math domain error" in str(rec) and name.startswith(("tucker", "partial_tucker")):
                # math.sqrt of a negative number inside an error formula (HOOI's shortcut uses math.sqrt): no finite error value can be
                # reported for a valid input - the finiteness clause, not a degenerate problem
                chk.finding(entry, describe(name, entry, X, kind, rank, k, seed, o), f"{name}: computing the reported error raised {rec} "
                            "(square root of a negative quantity: no finite error value is reported)", "C06_finite", observed=str(rec))
            if st != "ok":
                # degenerate problems (singular Gram matrices, ...) raise, loaded machines time out: outside the premise, counted
                skipped += 1
                chk.hist("skipped", f"{name}: {str(rec)[:60]}")
                continue
            recs[k] = rec
            if series(rec) and not rec.squared_unnormalised and series(rec)[-1] > 0.999:
                chk.hist("degenerate_iterate(error ~ 1)", name)
            nf = check_run(col, name, entry, X, kind, rank, k, seed, o, rec, light=light_k and not (light and rec.ls and rec.ls[-1] is False))
            if (light_k and not light) or (light and "_exact" in name):
                continue_light = True
            else:
                continue_light = False
            if name.startswith("parafac2") and "_tol" not in o and rec.errors is not None and not continue_light:
                # PARAFAC2 loop skeleton, observable projection: number of recorded values (one per iteration, line search included)
                ls_on = o.get("linesearch", True) is not False
                lit_len = (f"(KP2Len {C.boolc(ls_on)} {C.boolc(bool(o.get('normalize_factors')))} {C.nat(getattr(rec, 'executed', k))} {C.nat(len(rec.errors))})")
                col.add(lambda P, lit_len=lit_len: lit_len, dict(inputs=describe(name, entry, X, kind, rank, k, seed, o), what="PARAFAC2 skeleton: number of reported values",
                                                                  entry=entry))
                chk.count(key=(name, "p2len", k), nontrivial=k > 6)
            if (name.startswith(("tucker", "partial_tucker", "nn_tucker", "cmtf", "randomised")) and "_tol" not in o and rec.errors is not None and not continue_light
                    and not name.startswith("randomised_cb_nostag")):      # nothing is recorded there (tol = 0, max_stagnation = 0): callbacks only
                # one-value-per-iteration loops, observable projection of Model/Errors.v:s_loop: number of recorded values (callback stop included)
                stop_at = o.get("_stop_at") if o.get("_cb") else None
                lit_s = f"(KSLoop {C.nat(k)} {optnat(stop_at)} {C.nat(len(rec.errors))})"
                col.add(lambda P, lit_s=lit_s: lit_s, dict(inputs=describe(name, entry, X, kind, rank, k, seed, o), what="one-value-per-iteration loop skeleton: number of recorded values",
                                                          entry=entry))
                chk.count(key=(name, "sloop_len", k), nontrivial=True)
            if name.startswith("randomised") and "_tol" not in o and rec.errors is not None and not continue_light:
                # randomised_parafac's gating (Model/Errors.v:r_loop): recorded values and in-loop callback invocations for the option combination
                track = bool(o.get("max_stagnation", 1000))
                has_cb = bool(o.get("_cb"))
                stop_at = o.get("_stop_at") if has_cb else None
                lit_r = (f"(KRLoop {C.nat(k)} {optnat(stop_at)} {C.boolc(track or has_cb)} {C.boolc(track)} {C.boolc(has_cb)} {C.nat(len(rec.errors))} "
                         f"{C.nat(max(0, len(rec.cb) - 1))})")
                col.add(lambda P, lit_r=lit_r: lit_r, dict(inputs=describe(name, entry, X, kind, rank, k, seed, o), what="randomised_parafac gating: number of recorded values / in-loop callbacks",
                                                          entry=entry))
                chk.count(key=(name, "rloop", k), nontrivial=True)
            if "_tol" in o:
                chk.hist("stopped_by_convergence", f"{name}: {len(series(rec)) < k}")
            if name in LS_CONFIGS and (k - 1) > 5 and (k - 1) % 2 == 0 and rec.ls:
                chk.hist("linesearch_at_last_iteration", f"{name.split('_')[0]}: {'accepted' if rec.ls[-1] else 'rejected'}")
                if name in ls_seen:
                    ls_seen[name]["acc" if rec.ls[-1] else "rej"] += 1
            if nruns % 97 == 1:
                chk.sample({"config": name, "shape": list(shape), "data": kind, "rank": rank, "n_iter_max": k,
                            "reported": series(rec)[-3:], "findings": nf})
        prefix_consistency(chk, name, entry, X, kind, rank, seed, o, recs)
        if name in SWEEP_CONFIGS and not light:
            # consecutive prefix runs (same seed, same trajectory): factors before / after iteration k and the value reported for it, against
            # one iteration of the loop on data (the model computes the MTTKRPs of the sweep itself)
            ms_ = [m_ for m_ in range(X.ndim) if m_ not in (o.get("fixed_modes") or [])]
            for k in sorted(recs):
                if k - 1 in recs and recs[k].errors and len(recs[k].errors) == k and recs[k - 1].final["kind"] == "cp":
                    b, a, rep_ = recs[k - 1].final, recs[k].final, recs[k].errors[-1]
                    col.add(lambda P, b=b, a=a, rep_=rep_, ms_=ms_: (f"(KSweep {P.t(X)} {C.nat(a['fs'][0].shape[1])} {P.opt_w(b['w'])} {P.ts(b['fs'])} {P.ts(a['fs'])} "
                                                                       f"{C.nat_list(ms_)} {P.num(rep_)})"),
                            dict(inputs=dict(describe(name, entry, X, kind, rank, k, seed, o), iteration=k - 1),
                                 what="one parafac iteration on data: sweep with the model's own MTTKRPs + error_calc shortcut vs the reported value", entry=entry))
                    chk.count(key=(name, X.shape, kind, "sweep", k), nontrivial=True)
    error_calc_cases(col, chk.tier, rng)
    parafac2_error_cases(col, chk.tier, rng)
    normalize_cases(col, chk.tier, rng)
    trace_cases(col, chk.tier, rng)
    iter_cases(col, chk.tier, rng)
    try:
        norm_sweep_cases(col, chk.tier, rng)
    except AttributeError as ex:     # a renamed helper cannot be interposed any more: skipped and counted, never a verdict
        skipped += 1
        chk.hist("skipped", f"norm sweep on data: {ex}"[:80])
    try:
        p2_event_cases(col, chk.tier, rng)
    except AttributeError as ex:     # a renamed helper cannot be interposed any more: skipped and counted, never a verdict
        skipped += 1
        chk.hist("skipped", f"parafac2 event traces: {ex}"[:80])
    try:
        event_cases(col, chk.tier, rng)
    except AttributeError as ex:     # a renamed helper cannot be interposed any more: the event cases are skipped, never a verdict
        skipped += 1
        chk.hist("skipped", f"event traces: {ex}"[:80])
    # one wave of 16 shards of equal estimated cost (quick); thorough: 48 balanced shards
    nsh = 16 if chk.tier == "quick" else 48
    ordered, shard = balanced(col.cases, nsh)
    failing, n_eval, broken = C.run_case_shards("C06", HEADER, "case", ordered, shard=shard)
    chk.checker_cmds.append("coqc (vm_compute) on generated build/cases/C06/*.v: Corr.C06.failing")
    chk.cov["traces_validated_against_impl"] = n_eval
    chk.cov["skipped_ill_conditioned_or_raising"] = skipped
    chk.cov["runs"] = nruns
    chk.cov["rule"] = ("every algorithm configuration of the table in harness/props/C06.py:configs x tensor order 2-4 x data kind (generic / exactly low-rank / "
                       "non-negative / integer, <= 60 entries) x prefix length n_iter_max = k (quick: 1..3, line search 7 and 9 with several seeds so that accepted "
                       "and rejected jumps occur at the last iteration; thorough: up to 13) + convergence-stopped runs (tol > 0, n_iter_max = 60); "
                       "Coq cases for (run, last reported value) and callback invocations (a sample since round 8: see the end of this text); + direct error_calc calls in all four branches; "
                       "+ direct _parafac2_reconstruction_error calls; + loop-skeleton trace projections (counts) and event-level traces of parafac / non_negative_parafac / "
                       "non_negative_parafac_hals (MTTKRP modes, cp_normalize, shortcut / explicit error computations, callbacks) against Model/Errors.v:obs_of_trace.  "
                       "Every option that feeds into or sits next to an error expression (l2_reg, sparsity, masks, fixed modes, sparsity_coefficients, core_sparsity_coefficient, exact, "
                       "constraint weights) occurs with a non-zero value in at least one configuration.  distinct key = (configuration, shape, data kind, k[, callback index]).  "
                       "+ direct cp_normalize / tucker_normalize calls against the executed models (validated tape of column norms); + direct error_calc calls where the model selects the branch; "
                       "+ HOOI hypotheses (orthonormal factors, core = X x U^T) on every unmasked tucker / partial_tucker run; + recorded-value counts of the one-value-per-iteration loops; "
                       "+ parafac2 event-level traces; + class API (fit_transform: errors_ vs decomposition_); + tensor_ring_als_sampled with the exact error; "
                       "+ one parafac iteration on data for consecutive prefix runs (KSweep); + masked CP runs against error_calc_model on the original data; "
                       "+ static ast tie (harness/props/C06_ast.py: 16 generated goals re-proved by coqc, tr_idx and tr_pieces optional) + round 7: one iteration on data of constrained_parafac / HALS (KSweepV) and of parafac with weights / normalisation / sparsity / the first line-search iteration (KIter), one sweep with in-sweep normalisation (KNormSweep), randomised gating counts (KRLoop), exact-fit configurations.  Every run, prefix length and callback pair is judged by the Python predicates in both tiers; Coq cases are a sample of them "
                       "(round 8): the longest prefix of every run family, the first prefix of every other family (parity rotating with the seed), "
                       "callback pairs #0, #1, the last one (thorough: + every 4th) and every pair the predicate rejects.  Quick: Qops cross-check for the first and "
                       "every 48th case of a kind (KTRData: thorough only), 16 cost-balanced shards.  Thorough: every shape, data kind rotating, "
                       "Qops cross-check first + every 32nd, the third prefix for one run family in four, 48 shards")
    for b in broken:
        chk.broken.append({"what": "correspondence corr:C06 shard not evaluated", "detail": b})
    for i in sorted(failing):
        m = col.meta[i]
        if m.get("expect_fail"):
            continue        # the Python predicate failed on the same input: reported as a finding (classified there)
        if m.get("advisory"):
            # the transcription of a step the property does not constrain (the extrapolation rule of the line search) no longer matches: noted, never a verdict
            chk.hist("advisory_mismatch", m["what"][:60])
            chk.notes.append("advisory: " + m["what"])
            continue
        chk.disagreement("corr:C06 (Model/Errors.v vs reported errors of " + m["entry"] + ")", {"what": m["what"], "inputs": m["inputs"]})
    unexpected_agree = [i for i, m in enumerate(col.meta) if m.get("expect_fail") and i not in failing]
    if unexpected_agree and not broken:
        chk.notes.append(f"{len(unexpected_agree)} case(s) failed the Python predicate but agreed in Coq (borderline tolerance)")
    chk.assumptions = ["inputs are well-conditioned by construction (runs that raise LinAlgError/ValueError or time out are skipped and counted)",
                       "0/1 masks; real data (complex conjugation in error_calc is outside the model)",
                       "prefix runs: convergence tests neutralised (tol=0 where errors are still produced, 1e-300 where tol gates the error computation); "
                       "the break paths are covered by the skeleton theorems, the callback-driven stops and the convergence-stopped runs (tol > 0)"]
    chk.trusted = [                   "sparse components are the implementation's (returned, or sparsify_tensor on the imputed residual in the direct error_calc cases)",
                   "line-search decisions are read from the verbose output of parafac / parafac2 (used for coverage histograms and to steer the extra line-search seeds only)",
                   "event logs are taken by temporarily rebinding unfolding_dot_khatri_rao / cp_normalize / error_calc / cp_norm in tensorly.decomposition._cp and _nn_cp (harness side; skipped and counted if a name is missing)",
                   "the tapes of KNormSweep (updated factors, outputs of the in-sweep cp_normalize calls) are logged by rebinding unfolding_dot_khatri_rao / cp_normalize in tensorly.decomposition._nn_cp; "
                   "the tapes of KSweepV / KIter come from consecutive prefix runs, callbacks, the run without line search and the verbose output (jump, decision)",
                   "Q / dyadic execution of the model stands for the ring-regime model on rational inputs; KCPfast and KParafac2 re-check shortcut == residual exactly on each instance",
                   "column norms handed to the executed cp_normalize / tucker_normalize models are computed by the harness (numpy) and validated by squaring inside Coq (1e-9 relative)",
                   "parafac2 event logs are taken by rebinding _compute_projections / parafac / non_negative_parafac_hals / _parafac2_reconstruction_error / cp_normalize in tensorly.decomposition._parafac2",
                   "the ast tie trusts Python's ast module and the hand-written translator harness/props/C06_ast.py (arithmetic + - * ** 2, comparisons of `iteration`, statement order)"]
    return chk.finish(CLASSIFIERS)


def replay(payload):
    """re-run a stored failing input against the current implementation; 1 = still failing"""
    if payload.get("kind") != "failing-input":
        print("replay file names a broken theorem/correspondence, not an input:", payload.get("theorem_or_correspondence"))
        return 1
    C.reset_backends()
    inp = payload["inputs"]

    def arr(x):
        return C.from_jsonable_array(x) if isinstance(x, dict) and "shape" in x else x
    if payload["predicate"] == "C06_error_calc":
        from tensorly.decomposition._cp import error_calc, sparsify_tensor
        import tensorly as tl
        X = arr(inp["tensor"]); w = arr(inp["weights"]); fs = [arr(f) for f in inp["factors"]]
        L = cp_dense(w, fs)
        if inp.get("branch") == "shortcut":
            out = error_calc(X, tl.norm(X, 2), w, fs, None, None, arr(inp["mttkrp"]))
            rep = float(out[0]) / float(tl.norm(X, 2)); mine = rel2(X, L)
        else:
            from tensorly.tenalg import unfolding_dot_khatri_rao
            msk = arr(inp.get("mask")); sp = inp.get("sparsity")
            M = unfolding_dot_khatri_rao(X, (w, fs), X.ndim - 1) if inp.get("with_mttkrp") else None
            out = error_calc(X, tl.norm(X, 2), w, fs, sp, msk, M)
            Xp = X if msk is None else X * msk + L * (1 - msk)
            S = None if not sp else np.array(sparsify_tensor(Xp - L, sp), dtype=float)
            rep = float(out[0]) / float(out[2]); mine = rel2(X, L, S, msk)
        bad = not math.isfinite(rep) or not close(mine, rep * rep)
        print("replay error_calc:", rep * rep, "vs", mine, "->", "fails" if bad else "holds")
        return 1 if bad else 0
    if payload["predicate"] == "C06_parafac2_error":
        from tensorly.decomposition._parafac2 import _parafac2_reconstruction_error
        slices = [arr(x) for x in inp["slices"]]; Ps = [arr(x) for x in inp["projections"]]
        w = arr(inp["weights"]); A, B, Cm = arr(inp["A"]), arr(inp["B"]), arr(inp["C"])
        it = dict(kind="parafac2", w=w, A=A, B=B, C=Cm, Ps=Ps, slices=slices)
        normX = math.sqrt(sum(float(np.sum(x * x)) for x in slices))
        proj = [P.T @ x for P, x in zip(Ps, slices)] if inp.get("with_projected_tensor") else None
        out = _parafac2_reconstruction_error(slices, (w, (A, B, Cm), Ps), normX if inp.get("norm_given") else None, proj)
        rep = float(out) / normX; mine = p2_rel2(it)
        bad = not math.isfinite(rep) or not close(mine, rep * rep)
        print("replay _parafac2_reconstruction_error:", rep * rep, "vs", mine, "->", "fails" if bad else "holds")
        return 1 if bad else 0
    if payload["predicate"] == "C06_normalize_keeps_tensor":
        fs = [arr(f) for f in inp["factors"]]
        if "core" in inp:
            from tensorly.tucker_tensor import tucker_normalize
            G = arr(inp["core"]); out = tucker_normalize((np.array(G), [np.array(f) for f in fs]))
            before, after = tucker_dense(G, fs), tucker_dense(np.array(out[0], dtype=float), [np.array(f, dtype=float) for f in out[1]])
        else:
            from tensorly.cp_tensor import cp_normalize
            w = arr(inp["weights"]); out = cp_normalize((None if w is None else np.array(w), [np.array(f) for f in fs]))
            before, after = cp_dense(w, fs), cp_dense(np.array(out[0], dtype=float), [np.array(f, dtype=float) for f in out[1]])
        bad = before.shape != after.shape or not np.all(np.isfinite(after)) or float(np.max(np.abs(before - after))) > 1e-9 * max(1.0, float(np.max(np.abs(before))))
        print("replay normalize:", "fails" if bad else "holds")
        return 1 if bad else 0
    name = inp["config"]
    cfgs = {c[0]: c for c in configs("thorough")}
    if name not in cfgs:
        print("replay: unknown configuration", name)
        return 1
    _, entry, runner, _, _, _, _ = cfgs[name]
    X = arr(inp["tensor"])
    o = {}
    for kk, vv in inp["options"].items():
        if isinstance(vv, dict) and "array" in vv:
            o[kk] = arr(vv["array"])
        else:
            o[kk] = vv
    if "nn_modes" in o and isinstance(o["nn_modes"], list):
        o["nn_modes"] = set(o["nn_modes"])

    class Sink:
        def __init__(self): self.findings = []
        def finding(self, *a, **k): self.findings.append((a, k))
        def count(self, *a, **k): pass
    sink = Sink()
    col = Collector(sink)
    st, rec = one_run(runner, X, inp["rank"], inp["n_iter_max"], inp["seed"], o)
    if st != "ok":
        print("replay: the call raised", rec)
        return 1
    if payload["predicate"] == "C06_list_prefix_consistent":
        st2, rec2 = one_run(runner, X, inp["rank"], inp["shorter_n_iter_max"], inp["seed"], o)
        if st2 != "ok":
            print("replay: the shorter call raised", rec2)
            return 1
        prefix_consistency(sink, name, entry, X, inp["data_kind"], inp["rank"], inp["seed"], o,
                           {inp["n_iter_max"]: rec, inp["shorter_n_iter_max"]: rec2})
        print("replay:", name, "prefix consistency ->", "fails" if sink.findings else "holds")
        return 1 if sink.findings else 0
    nf = check_run(col, name, entry, X, inp["data_kind"], inp["rank"], inp["n_iter_max"], inp["seed"], o, rec)
    print("replay:", name, X.shape, "n_iter_max", inp["n_iter_max"], "->", f"{nf} predicate failure(s)" if nf else "holds")
    return 1 if nf else 0
