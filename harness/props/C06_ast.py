"""C06 -- static tie between the error EXPRESSIONS of the current Python source and Model/Errors.v.

On every run the arithmetic that sits under the square root of each shortcut (error_calc, the inline variants of
non_negative_parafac_hals and constrained_parafac, HOOI's norm shortcut in partial_tucker, _parafac2_reconstruction_error), the way
`iprod` pairs the remembered MTTKRP with a factor and with the weights, the weights handed to the MTTKRP, and the test that makes an
iteration a line-search iteration (parafac, parafac2) are read from the Python ast of /repo's working tree, translated into Gallina
terms over an abstract operation record, and coqc RE-PROVES the property's identity for the regenerated term:

    gen(norm_tensor, factors_norm, iprod_model(u, v, n))  =  || X - [[w; A]] ||^2            (C06_error_calc_shortcut re-checked)
    gen(norm_tensor, norm(core))                          =  || X - G x U ||^2               (C06_hooi_error_identity re-checked)
    gen(norm_X_sq, inner_product, norm_cmf_sq)            =  sum_i || X_i - B_i C^T ||^2     (C06_parafac2_error_identity re-checked)
    gen_line_iter(linesearch, iteration)                  =  Model/Errors.v:line_iter / the test inside p2_loop
    flags read off the statement order of the parafac / non_negative_parafac / non_negative_parafac_hals loops satisfy `well_formed`
    (error computed after the sweep and before the append, no normalisation and no exit in between, line-search iterations report)

Fail closed: a construct the translator does not know, a missing statement, or a goal that no longer proves is reported as a broken
tie (the model and the code may have diverged); a coqc killed from outside is counted as skipped, never a verdict.  Incidental
details are not policed: temporaries, operand order, parenthesisation, `x**2` vs `x*x`, factors[-1] vs factors[modes[-1]] are all
accepted (the goals are proved with `ring`, the pairing mode is universally quantified)."""
import ast, os, shutil, subprocess, warnings

PRELUDE = """From Coq Require Import List Arith Lia Bool Ring.
From TLV Require Import Base.Shape Base.PyList Base.Tensor Base.BigSum Base.Ops Model.Errors Proofs.ErrorsProofs Proofs.ErrorsP2 Proofs.ErrorsSkeleton Proofs.ErrorsTR.
Import ListNotations.
Lemma even_mod2 n : Nat.even n = (n mod 2 =? 0).
Proof.
  rewrite (Nat.div_mod n 2) at 1 by lia. pose proof (Nat.mod_upper_bound n 2).
  destruct (n mod 2) as [|[|k]]; [| |lia].
  - rewrite Nat.add_0_r, Nat.even_mul. reflexivity.
  - rewrite Nat.add_comm, Nat.even_add_mul_2. reflexivity.
Qed.
Section Tie.
Context {F : Type} (Op : fops F).
Hypothesis Rth : ring_theory (f0 Op) (f1 Op) (fadd Op) (fmul Op) (fsub Op) (fopp Op) (@eq F).
Add Ring FrTie : Rth.
"""
POSTLUDE = "\nEnd Tie.\n"


class Untranslatable(Exception):
    pass


def _fn(tree, name):
    for n in ast.walk(tree):
        if isinstance(n, ast.FunctionDef) and n.name == name:
            return n
    raise Untranslatable(f"function {name} not found")


def _callname(c):
    f = c.func
    return f.attr if isinstance(f, ast.Attribute) else getattr(f, "id", "")


def _mentions(node, names):
    ids = {x.id for x in ast.walk(node) if isinstance(x, ast.Name)}
    return all(n in ids for n in names)


def local_defs(fn):
    """names assigned exactly once in fn by a plain `name = expression` (temporaries that may be inlined)"""
    count, val = {}, {}
    for n in ast.walk(fn):
        if isinstance(n, (ast.Assign, ast.AugAssign, ast.AnnAssign, ast.For)):
            targets = n.targets if isinstance(n, ast.Assign) else [n.target]
            for t in targets:
                for x in ast.walk(t):
                    if isinstance(x, ast.Name):
                        count[x.id] = count.get(x.id, 0) + 1
                        if isinstance(n, ast.Assign) and len(n.targets) == 1 and isinstance(t, ast.Name):
                            val[x.id] = n.value
    return {k: v for k, v in val.items() if count.get(k) == 1}


def _expanded_names(node, defs, stop, depth=0):
    ids = set()
    for x in ast.walk(node):
        if isinstance(x, ast.Name):
            if x.id in defs and x.id not in stop and depth < 6:
                ids |= _expanded_names(defs[x.id], defs, stop, depth + 1)
            else:
                ids.add(x.id)
    return ids


def under_sqrt_abs(fn, must_mention):
    """the expression E of the unique `sqrt(abs(E))` in fn whose E mentions (possibly through once-assigned temporaries) all of must_mention"""
    defs = local_defs(fn)
    hits = []
    for n in ast.walk(fn):
        if isinstance(n, ast.Call) and _callname(n) == "sqrt" and len(n.args) == 1 and isinstance(n.args[0], ast.Call) \
                and _callname(n.args[0]) == "abs" and len(n.args[0].args) == 1:
            E = n.args[0].args[0]
            if set(must_mention) <= _expanded_names(E, defs, set(must_mention)):
                hits.append(E)
    if len(hits) != 1:
        raise Untranslatable(f"{fn.name}: expected exactly one sqrt(abs(E)) mentioning {must_mention}, found {len(hits)}")
    return hits[0], defs


def arith(node, atoms, defs=None, depth=0):
    """Python arithmetic over the atoms -> Gallina term over Op.  atoms: unparsed sub-expression -> Gallina variable;
    defs: once-assigned temporaries, inlined"""
    src = ast.unparse(node)
    if src in atoms:
        return atoms[src]
    if isinstance(node, ast.Name) and defs and node.id in defs and depth < 6:
        return arith(defs[node.id], atoms, defs, depth + 1)
    if isinstance(node, ast.BinOp):
        if isinstance(node.op, ast.Pow):
            if isinstance(node.right, ast.Constant) and node.right.value == 2:
                a = arith(node.left, atoms, defs, depth)
                return f"(fmul Op {a} {a})"
            raise Untranslatable(f"power other than 2: {src}")
        op = {ast.Add: "fadd", ast.Sub: "fsub", ast.Mult: "fmul"}.get(type(node.op))
        if op is None:
            raise Untranslatable(f"operator {type(node.op).__name__} in {src}")
        return f"({op} Op {arith(node.left, atoms, defs, depth)} {arith(node.right, atoms, defs, depth)})"
    if isinstance(node, ast.UnaryOp) and isinstance(node.op, ast.USub):
        return f"(fopp Op {arith(node.operand, atoms, defs, depth)})"
    if isinstance(node, ast.Constant) and type(node.value) in (int, float) and node.value in (0, 1, 2):
        return {0: "(f0 Op)", 1: "(f1 Op)", 2: "(two Op)"}[int(node.value)]
    raise Untranslatable(f"construct {type(node).__name__}: {src}")


def iprod_shape(fn):
    """how `iprod = ...` pairs the MTTKRP: returns (pairing index description, weights outside the column sums?)"""
    assigns = [n for n in ast.walk(fn) if isinstance(n, ast.Assign) and len(n.targets) == 1 and getattr(n.targets[0], "id", "") == "iprod"]
    if len(assigns) != 1:
        raise Untranslatable(f"{fn.name}: expected one assignment to iprod, found {len(assigns)}")
    keep = {"mttkrp", "factors", "weights", "modes", "modes_list", "iprod"}
    defs = {k: d for k, d in local_defs(fn).items() if k not in keep}

    class Inline(ast.NodeTransformer):
        depth = 0

        def visit_Name(self, node):
            if isinstance(node.ctx, ast.Load) and node.id in defs and self.depth < 6:
                self.depth += 1
                out = self.visit(ast.parse(ast.unparse(defs[node.id]), mode="eval").body)
                self.depth -= 1
                return out
            return node
    v = Inline().visit(ast.parse(ast.unparse(assigns[0].value), mode="eval").body)
    if not (isinstance(v, ast.Call) and _callname(v) == "sum" and len(v.args) == 1 and not v.keywords):
        raise Untranslatable(f"{fn.name}: iprod is not sum(...): {ast.unparse(v)}")
    inner, outside = v.args[0], False
    if isinstance(inner, ast.BinOp) and isinstance(inner.op, ast.Mult):
        l, r = inner.left, inner.right
        if isinstance(r, ast.Name) and r.id == "weights":
            inner, outside = l, True
        elif isinstance(l, ast.Name) and l.id == "weights":
            inner, outside = r, True
        else:
            raise Untranslatable(f"{fn.name}: iprod: unexpected product {ast.unparse(inner)}")
    ok_axis = isinstance(inner, ast.Call) and _callname(inner) == "sum" and len(inner.args) == 1 and \
        [(k.arg, getattr(k.value, "value", None)) for k in inner.keywords] == [("axis", 0)]
    if not ok_axis:
        raise Untranslatable(f"{fn.name}: iprod: expected sum(mttkrp * factor, axis=0): {ast.unparse(inner)}")
    prod = inner.args[0]
    if not (isinstance(prod, ast.BinOp) and isinstance(prod.op, ast.Mult)):
        raise Untranslatable(f"{fn.name}: iprod: expected mttkrp * factor: {ast.unparse(prod)}")
    sides = [prod.left, prod.right]
    m = [x for x in sides if isinstance(x, ast.Name) and x.id == "mttkrp"]
    f = [x for x in sides if not (isinstance(x, ast.Name) and x.id == "mttkrp")]
    if len(m) != 1 or len(f) != 1:
        raise Untranslatable(f"{fn.name}: iprod: expected mttkrp * factor: {ast.unparse(prod)}")
    fac = f[0]
    if isinstance(fac, ast.Call) and _callname(fac) == "conj" and len(fac.args) == 1:
        fac = fac.args[0]
    if not (isinstance(fac, ast.Subscript) and isinstance(fac.value, ast.Name) and fac.value.id == "factors"):
        raise Untranslatable(f"{fn.name}: iprod: the MTTKRP is not multiplied with an entry of `factors`: {ast.unparse(fac)}")
    idx = ast.unparse(fac.slice)
    if idx not in ("-1", "modes[-1]", "modes_list[-1]"):
        raise Untranslatable(f"{fn.name}: iprod: the MTTKRP is paired with factors[{idx}], not with the factor of the last (updated) mode")
    return idx, outside


def mttkrp_weights(fn):
    """weights handed to unfolding_dot_khatri_rao where `mttkrp` is assigned: 'weights' or 'None' (all calls must agree)"""
    seen = set()
    for n in ast.walk(fn):
        if isinstance(n, ast.Assign) and len(n.targets) == 1 and getattr(n.targets[0], "id", "") == "mttkrp" and isinstance(n.value, ast.Call) \
                and _callname(n.value) == "unfolding_dot_khatri_rao":
            a = n.value.args
            if len(a) != 3 or not (isinstance(a[1], ast.Tuple) and len(a[1].elts) == 2 and ast.unparse(a[1].elts[1]) == "factors"):
                raise Untranslatable(f"{fn.name}: unexpected MTTKRP call {ast.unparse(n.value)}")
            seen.add(ast.unparse(a[1].elts[0]))
    if len(seen) != 1 or not seen <= {"weights", "None"}:
        raise Untranslatable(f"{fn.name}: MTTKRP weights not uniquely 'weights' or 'None': {sorted(seen)}")
    return seen.pop()


def cp_goal(name, err_fn, loop_fn):
    E, defs = under_sqrt_abs(err_fn, ["iprod"])
    body = arith(E, {"norm_tensor": "nt", "factors_norm": "fn", "iprod": "ip"}, defs)
    idx, outside = iprod_shape(err_fn)
    uw = mttkrp_weights(loop_fn)
    if (uw == "weights") == outside:
        raise Untranslatable(f"{name}: the weights enter the inner product {'twice' if outside else 'not at all'} "
                             f"(MTTKRP computed with {uw}, column sums {'multiplied' if outside else 'not multiplied'} by the weights)")
    u, v = ("w", "(ones Op)") if uw == "weights" else ("(ones Op)", "w")
    return name, f"""
Definition gen_{name} (nt fn ip : F) : F := {body}.
(* pairing: factors[{idx}]; MTTKRP weights: {uw}; weights outside the column sums: {outside} *)
Lemma tie_{name} : forall (s : list nat) (X : list nat -> F) (R : nat) (w : nat -> F) (cols : nat -> list (nat -> F)) (n : nat) (nt fn : F),
  n < length s -> (forall r, r < R -> length (cols r) = length s) ->
  fmul Op nt nt = normsq Op s X -> fmul Op fn fn = cp_normsq Op s R w cols ->
  gen_{name} nt fn (iprod Op s R (mttkrp Op s X {u} cols n) {v} cols n) = err2_true Op s X R w cols.
Proof.
  intros s X R w cols n nt fn Hn Hc H1 H2.
  rewrite <- (err2_fast_correct Op Rth s X R w {u} {v} cols n Hn Hc) by (intros; unfold ones; ring).
  unfold gen_{name}, err2_fast, err2_fast_with. rewrite <- H1, <- H2. unfold two. ring.
Qed.
"""


def hooi_goal(fn):
    E, defs = under_sqrt_abs(fn, ["norm_tensor", "core"])
    body = arith(E, {"norm_tensor": "nt", "tl.norm(core, 2)": "nc", "norm(core, 2)": "nc", "T.norm(core, 2)": "nc"}, defs)
    return "hooi", f"""
Definition gen_hooi (nt nc : F) : F := {body}.
Lemma tie_hooi : forall (s rs : list nat) (X G : list nat -> F) (us : list (nat -> nat -> F)) (nt nc : F),
  orthonormal Op s rs us -> (forall j, inb rs j -> G j = project Op s X us j) ->
  fmul Op nt nt = normsq Op s X -> fmul Op nc nc = normsq Op rs G ->
  gen_hooi nt nc = dist2 Op s X (tucker_entry Op rs G us).
Proof.
  intros s rs X G us nt nc Ho HG H1 H2. rewrite (hooi_error_identity Op Rth s rs X G us Ho HG).
  unfold gen_hooi, hooi_err2. rewrite <- H1, <- H2. ring.
Qed.
"""


def p2_goal(fn):
    E, defs = under_sqrt_abs(fn, ["norm_X_sq", "inner_product", "norm_cmf_sq"])
    body = arith(E, {"norm_X_sq": "nx", "inner_product": "ip", "norm_cmf_sq": "nc"}, defs)
    return "parafac2", f"""
Definition gen_parafac2 (nx ip nc : F) : F := {body}.
Lemma tie_parafac2 : forall (I K Rk : nat) (J : nat -> nat) (X P : nat -> nat -> nat -> F) (A Bm C : nat -> nat -> F),
  gen_parafac2 (p2_normX Op I K J X) (p2_inner Op I K Rk C (p2_tmp_proj Op Rk J X P A Bm)) (p2_ncmf Op I K Rk J P A Bm C)
  = p2_err2_true Op I K Rk J X P A Bm C /\\
  gen_parafac2 (p2_normX Op I K J X) (p2_inner Op I K Rk C (p2_tmp Op Rk J X P A Bm)) (p2_ncmf Op I K Rk J P A Bm C)
  = p2_err2_true Op I K Rk J X P A Bm C.
Proof.
  intros. split.
  - rewrite <- (p2_err2_fast_proj_correct Op Rth I K Rk J X P A Bm C). unfold gen_parafac2, p2_err2_fast, two. ring.
  - rewrite <- (p2_err2_fast_correct Op Rth I K Rk J X P A Bm C). unfold gen_parafac2, p2_err2_fast, two. ring.
Qed.
"""


def line_test(fn):
    """the test of the `if` whose body sets line_iter = True"""
    for n in ast.walk(fn):
        if isinstance(n, ast.If) and any(isinstance(s, ast.Assign) and getattr(s.targets[0], "id", "") == "line_iter"
                                         and getattr(s.value, "value", None) is True for s in n.body):
            return n.test
    raise Untranslatable(f"{fn.name}: no `if ...: line_iter = True`")


def boolx(node):
    src = ast.unparse(node)
    if isinstance(node, ast.BoolOp) and isinstance(node.op, ast.And):
        out = boolx(node.values[0])
        for v in node.values[1:]:
            out = f"({out} && {boolx(v)})"
        return out
    if isinstance(node, ast.Name) and node.id == "linesearch":
        return "ls"
    if isinstance(node, ast.Compare) and len(node.ops) == 1 and len(node.comparators) == 1:
        a, b = natx(node.left), natx(node.comparators[0])
        op = type(node.ops[0])
        if op is ast.Eq:
            return f"(Nat.eqb {a} {b})"
        if op is ast.Gt:
            return f"(Nat.ltb {b} {a})"
        if op is ast.GtE:
            return f"(Nat.leb {b} {a})"
        if op is ast.Lt:
            return f"(Nat.ltb {a} {b})"
        if op is ast.LtE:
            return f"(Nat.leb {a} {b})"
    raise Untranslatable(f"boolean construct {src}")


def natx(node):
    if isinstance(node, ast.Name) and node.id == "iteration":
        return "it"
    if isinstance(node, ast.Constant) and type(node.value) is int and 0 <= node.value <= 100:
        return f"{node.value}%nat"
    if isinstance(node, ast.BinOp) and isinstance(node.op, ast.Mod):
        return f"(Nat.modulo {natx(node.left)} {natx(node.right)})"
    if isinstance(node, ast.BinOp) and isinstance(node.op, ast.Add):
        return f"({natx(node.left)} + {natx(node.right)})%nat"
    raise Untranslatable(f"integer construct {ast.unparse(node)}")


def line_goal(name, fn):
    t = boolx(line_test(fn))
    return f"line_iter_{name}", f"""
Definition gen_line_{name} (ls : bool) (it : nat) : bool := {t}.
Lemma tie_line_{name} : forall ls it, gen_line_{name} ls it = (ls && Nat.even it && (5 <? it)).
Proof.
  intros ls it. unfold gen_line_{name}. rewrite ?even_mod2.
  repeat match goal with
         | |- context [Nat.eqb ?a ?b] => destruct (Nat.eqb_spec a b)
         | |- context [Nat.ltb ?a ?b] => destruct (Nat.ltb_spec a b)
         | |- context [Nat.leb ?a ?b] => destruct (Nat.leb_spec a b)
         end; destruct ls; cbn [andb]; try reflexivity; exfalso; lia.
Qed.
"""


# ----------------------------------------------------------------------------- statement order of the CP loops
def _calls(node):
    return [(_callname(c), c) for c in ast.walk(node) if isinstance(c, ast.Call)]


def _ends_with_break(body):
    return bool(body) and isinstance(body[-1], ast.Break)


def loop_flags(fn):
    """source-order events of the `for iteration in range(n_iter_max)` loop of a CP driver:
    (norm_in_sweep, norm_before_error, report_linesearch, error_before_append, no_break_before_append).  Deliberately NOT extracted
    (harmless for C06): whether the exits normalise, where the callback sits relative to the append."""
    loops = [n for n in ast.walk(fn) if isinstance(n, ast.For) and getattr(n.target, "id", "") == "iteration"]
    if len(loops) != 1:
        raise Untranslatable(f"{fn.name}: expected one `for iteration in ...` loop, found {len(loops)}")
    ev = []          # (token, guards)

    def visit(stmts, guards):
        for st in stmts:
            if isinstance(st, ast.For) and getattr(st.target, "id", "") == "mode" and \
                    any(isinstance(x, ast.Subscript) and isinstance(x.ctx, ast.Store) and getattr(x.value, "id", "") == "factors" for x in ast.walk(st)):
                ev.append(("U", guards, any(nm == "cp_normalize" for nm, _ in _calls(st))))     # the sweep: it overwrites entries of `factors`
                continue
            if isinstance(st, ast.For) and not any(nm in ("error_calc", "cp_norm", "append", "cp_normalize", "callback") for nm, _ in _calls(st)) \
                    and not any(isinstance(x, ast.Break) for x in ast.walk(st)):
                continue                                                                         # a loop that touches none of the events
            if isinstance(st, ast.If):
                if _ends_with_break(st.body):
                    ev.append(("B", guards, any(nm == "cp_normalize" for nm, _ in _calls(st))))
                    continue
                g = guards + [ast.unparse(st.test)]
                visit(st.body, g)
                visit(st.orelse, guards + ["not (" + ast.unparse(st.test) + ")"])
                continue
            if isinstance(st, (ast.For, ast.While, ast.With, ast.Try)):
                raise Untranslatable(f"{fn.name}: unexpected compound statement in the iteration loop: {type(st).__name__}")
            if isinstance(st, ast.Break):
                ev.append(("B", guards, False))
                continue
            for nm, c in _calls(st):
                if nm in ("error_calc", "cp_norm"):
                    ev.append(("E", guards, None))
                elif nm == "append" and isinstance(c.func, ast.Attribute) and ast.unparse(c.func.value) == "rec_errors":
                    ev.append(("A", guards, None))
                elif nm == "cp_normalize":
                    ev.append(("N", guards, None))
                elif nm == "callback":
                    ev.append(("C", guards, None))
    visit(loops[0].body, [])
    toks = [t for t, _, _ in ev]
    if toks.count("U") != 1 or "A" not in toks or "E" not in toks:
        raise Untranslatable(f"{fn.name}: sweep / error computation / rec_errors.append not found in the iteration loop: {toks}")
    iu, ia = toks.index("U"), toks.index("A")
    nis = ev[iu][2]
    nbe = any(t == "N" for t in toks[iu + 1:ia])
    rls = not any("not line_iter" in g for g in ev[ia][1])
    eba = iu < toks.index("E") < ia
    nbb = "B" not in toks[:ia]           # no exit between the sweep and the append (a value is recorded for every executed sweep)
    return nis, nbe, rls, eba, nbb


def cfg_goal(name, fn, expect_nis):
    nis, nbe, rls, eba, nbb = loop_flags(fn)
    b = lambda x: "true" if x else "false"
    return f"loop_order_{name}", f"""
(* {name}: norm_in_sweep={nis} norm_before_error={nbe} report_linesearch={rls} error_before_append={eba} no_break_before_append={nbb} *)
Lemma tie_cfg_{name} :
  well_formed (mkConfig [0; 1; 2] 2 true {b(nis)} {b(nbe)} true {b(rls)} true) /\\
  {b(nis)} = {b(expect_nis)} /\\ {b(eba)} = true /\\ {b(nbb)} = true.
Proof. repeat split; try discriminate; reflexivity. Qed.
"""


# ----------------------------------------------------------------------------- tensor_ring_als: the tr_idx bookkeeping
def natexpr(node, env):
    if isinstance(node, ast.Name) and node.id in env:
        return env[node.id]
    if isinstance(node, ast.Constant) and type(node.value) is int and 0 <= node.value <= 100:
        return f"{node.value}"
    if isinstance(node, ast.BinOp) and isinstance(node.op, (ast.Add, ast.Sub)):
        return f"({natexpr(node.left, env)} {'+' if isinstance(node.op, ast.Add) else '-'} {natexpr(node.right, env)})"
    if isinstance(node, ast.BinOp) and isinstance(node.op, ast.Mod):
        return f"({natexpr(node.left, env)} mod {natexpr(node.right, env)})"
    raise Untranslatable(f"integer construct {ast.unparse(node)}")


def rangeexpr(call, env):
    """range(b) / range(a, b) as a Gallina list of naturals"""
    if not (isinstance(call, ast.Call) and _callname(call) == "range" and not call.keywords and len(call.args) in (1, 2)):
        raise Untranslatable(f"range construct {ast.unparse(call)}")
    if len(call.args) == 1:
        return f"(seq 0 {natexpr(call.args[0], env)})"
    a, b = natexpr(call.args[0], env), natexpr(call.args[1], env)
    return f"(seq {a} ({b} - {a}))"


def listexpr(node, env):
    if isinstance(node, ast.BinOp) and isinstance(node.op, ast.Add):
        return f"({listexpr(node.left, env)} ++ {listexpr(node.right, env)})"
    if isinstance(node, ast.List):
        return "[" + "; ".join(natexpr(e, env) for e in node.elts) + "]"
    if isinstance(node, ast.ListComp) and len(node.generators) == 1:
        g = node.generators[0]
        if isinstance(g.target, ast.Name) and not g.ifs and isinstance(g.iter, ast.Call) and _callname(g.iter) == "range" and len(g.iter.args) == 1:
            v = g.target.id
            return f"(map (fun {v} => {natexpr(node.elt, dict(env, **{v: v}))}) (seq 0 {natexpr(g.iter.args[0], env)}))"
    raise Untranslatable(f"list construct {ast.unparse(node)}")


def listexpr2(node, env):
    """the wider list language of the semantic tie: + , literals, list(range(..)), comprehensions over range(a[, b]) with `!=` / `==` filters"""
    if isinstance(node, ast.BinOp) and isinstance(node.op, ast.Add):
        return f"({listexpr2(node.left, env)} ++ {listexpr2(node.right, env)})"
    if isinstance(node, (ast.List, ast.Tuple)):
        return "[" + "; ".join(natexpr(e, env) for e in node.elts) + "]"
    if isinstance(node, ast.Call) and _callname(node) == "list" and len(node.args) == 1 and not node.keywords:
        return rangeexpr(node.args[0], env)
    if isinstance(node, ast.Call) and _callname(node) == "range":
        return rangeexpr(node, env)
    if isinstance(node, ast.ListComp) and len(node.generators) == 1:
        g = node.generators[0]
        if isinstance(g.target, ast.Name):
            v = g.target.id
            env2 = dict(env, **{v: v})
            src = rangeexpr(g.iter, env)
            for cond in g.ifs:
                if not (isinstance(cond, ast.Compare) and len(cond.ops) == 1 and isinstance(cond.ops[0], (ast.NotEq, ast.Eq))):
                    raise Untranslatable(f"filter {ast.unparse(cond)}")
                t = f"Nat.eqb {natexpr(cond.left, env2)} {natexpr(cond.comparators[0], env2)}"
                src = f"(filter (fun {v} => {'negb (' + t + ')' if isinstance(cond.ops[0], ast.NotEq) else t}) {src})"
            return f"(map (fun {v} => {natexpr(node.elt, env2)}) {src})"
    raise Untranslatable(f"list construct {ast.unparse(node)}")


def boolgate(node):
    """truthiness of an option expression as a Gallina bool over (ms_ tol_ cb): max_stagnation, tol, callback [is not None]"""
    if isinstance(node, ast.BoolOp):
        op = " || " if isinstance(node.op, ast.Or) else " && "
        return "(" + op.join(boolgate(v) for v in node.values) + ")"
    if isinstance(node, ast.Name) and node.id in ("max_stagnation", "tol", "callback"):
        return {"max_stagnation": "ms_", "tol": "tol_", "callback": "cb"}[node.id]
    if (isinstance(node, ast.Compare) and len(node.ops) == 1 and isinstance(node.ops[0], ast.IsNot) and getattr(node.left, "id", "") == "callback"
            and isinstance(node.comparators[0], ast.Constant) and node.comparators[0].value is None):
        return "cb"
    if isinstance(node, ast.Constant) and isinstance(node.value, bool):
        return "true" if node.value else "false"
    if isinstance(node, ast.UnaryOp) and isinstance(node.op, ast.Not):
        return f"(negb {boolgate(node.operand)})"
    raise Untranslatable(f"gate {ast.unparse(node)}")


def rand_gate_goal(fn):
    """randomised_parafac: in the iteration loop the error is recomputed (rec_error = ...) under a gate; it is recorded (rec_errors.append(rec_error)) and
    handed to the callback (callback(..., rec_error)) under gates.  Semantic condition (the hypotheses of C06_randomised_gating_values_true): whenever the
    value is recorded or handed over it has been recomputed in the same iteration, and the recomputation precedes both."""
    loops = [n for n in fn.body if isinstance(n, ast.For) and getattr(n.target, "id", "") == "iteration"]
    if len(loops) != 1:
        raise Untranslatable("randomised_parafac: expected one `for iteration` loop")
    comp = rec = cbk = None
    order = []
    for j, st in enumerate(loops[0].body):
        if not isinstance(st, ast.If):
            if any(isinstance(x, ast.Name) and x.id == "rec_error" and isinstance(x.ctx, ast.Store) for x in ast.walk(st)):
                comp = ("true", j); order.append("compute")
            continue
        body_src = "\n".join(ast.unparse(b) for b in st.body)
        if any(isinstance(b, ast.Assign) and getattr(b.targets[0], "id", "") == "rec_error" for b in st.body):
            if comp is not None:
                raise Untranslatable("randomised_parafac: rec_error assigned twice in the loop")
            comp = (boolgate(st.test), j); order.append("compute")
        if "rec_errors.append(rec_error)" in body_src:
            if rec is not None:
                raise Untranslatable("randomised_parafac: rec_errors.append appears twice")
            rec = (boolgate(st.test), j); order.append("record")
        if "callback(" in body_src:
            calls = [c for b in st.body for c in ast.walk(b) if isinstance(c, ast.Call) and _callname(c) == "callback"]
            if len(calls) != 1 or len(calls[0].args) != 2 or ast.unparse(calls[0].args[1]) != "rec_error":
                raise Untranslatable("randomised_parafac: the in-loop callback is not called with rec_error")
            cbk = (boolgate(st.test), j); order.append("callback")
    if comp is None or rec is None or cbk is None:
        raise Untranslatable(f"randomised_parafac: missing statement (compute={comp}, record={rec}, callback={cbk})")
    if not (comp[1] < rec[1] and comp[1] < cbk[1]):
        raise Untranslatable("randomised_parafac: the error is recorded or handed to the callback before it is recomputed")
    return "rand_gates", f"""
Definition gen_compute (ms_ tol_ cb : bool) : bool := {comp[0]}.
Definition gen_record (ms_ tol_ cb : bool) : bool := {rec[0]}.
Definition gen_cb (ms_ tol_ cb : bool) : bool := {cbk[0]}.
Lemma tie_rand_gates : forall ms_ tol_ cb,
  (gen_record ms_ tol_ cb = true -> gen_compute ms_ tol_ cb = true) /\\ (gen_cb ms_ tol_ cb = true -> gen_compute ms_ tol_ cb = true) /\\
  (cb = true -> gen_cb ms_ tol_ cb = true) /\\ (gen_record ms_ tol_ cb = (ms_ || tol_)).
Proof. intros [] [] []; repeat split; try reflexivity; try discriminate; intros H; try exact H; reflexivity. Qed.
"""


def _rank_index(node, env):
    """rank[e] -> e"""
    if isinstance(node, ast.Subscript) and getattr(node.value, "id", "") == "rank":
        return natexpr(node.slice, env)
    raise Untranslatable(f"expected rank[...], found {ast.unparse(node)}")


def tr_semantic_goal(fn, universal=False):
    """the PIECES of the axis bookkeeping of tensor_ring_als, whatever their syntactic form, checked semantically by
    Model/Errors.v:tr_bookkeeping_ok (sound: Proofs/ErrorsTR.v:tr_bookkeeping_ok_sound) for every order 2..7 and every mode"""
    env = {"n_dim": "N", "dim": "dim"}

    def assigns(name, sub=False):
        out = []
        for n in ast.walk(fn):
            if isinstance(n, ast.Assign) and len(n.targets) == 1:
                t = n.targets[0]
                if (not sub and getattr(t, "id", "") == name) or (sub and isinstance(t, ast.Subscript) and getattr(t.value, "id", "") == name):
                    out.append(n)
        return out
    # rows of the unfolded tensor
    unf = [a for a in assigns("tensor_unf") if isinstance(a.value, ast.Call) and _callname(a.value) == "matricize"]
    if len(unf) != 1 or len(unf[0].value.args) != 3 or ast.unparse(unf[0].value.args[0]) != "tensor" or ast.unparse(unf[0].value.args[2]) != "[dim]":
        raise Untranslatable("tensor_ring_als: expected one tensor_unf = matricize(tensor, <row modes>, [dim])")
    row_modes = listexpr2(unf[0].value.args[1], env)
    # the sub-chain: first core, then cores tensordot-ed on the right
    sub = assigns("subchain_tensor")
    first = [a for a in sub if isinstance(a.value, ast.Subscript) and getattr(a.value.value, "id", "") == "tr_decomp"]
    dots = [a for a in sub if isinstance(a.value, ast.Call) and _callname(a.value) == "tensordot"]
    trans = [a for a in sub if isinstance(a.value, ast.Call) and _callname(a.value) == "transpose"]
    if len(first) != 1 or len(dots) != 1 or len(trans) != 1 or len(sub) != 3:
        raise Untranslatable("tensor_ring_als: expected subchain_tensor = tr_decomp[..]; one tensordot in a loop; one transpose")
    c0 = natexpr(first[0].value.slice, env)
    loops = [n for n in ast.walk(fn) if isinstance(n, ast.For) and dots[0] in n.body]
    if len(loops) != 1 or len(loops[0].body) != 1 or not isinstance(loops[0].target, ast.Name):
        raise Untranslatable("tensor_ring_als: the tensordot is not the single statement of a for loop")
    jv = loops[0].target.id
    d = dots[0].value
    kw = {k.arg: ast.unparse(k.value) for k in d.keywords}
    if (len(d.args) != 2 or ast.unparse(d.args[0]) != "subchain_tensor" or kw != {"axes": "1"} or not isinstance(d.args[1], ast.Subscript)
            or getattr(d.args[1].value, "id", "") != "tr_decomp"):
        raise Untranslatable(f"tensor_ring_als: unexpected tensordot {ast.unparse(d)}")
    chain = f"({c0} :: map (fun {jv} => {natexpr(d.args[1].slice, dict(env, **{jv: jv}))}) {rangeexpr(loops[0].iter, env)})"
    # the permutation
    t = trans[0].value
    if len(t.args) != 2 or ast.unparse(t.args[0]) != "subchain_tensor":
        raise Untranslatable(f"tensor_ring_als: unexpected transpose {ast.unparse(t)}")
    if isinstance(t.args[1], ast.Name):
        pa = assigns(t.args[1].id)
        if len(pa) != 1:
            raise Untranslatable(f"tensor_ring_als: expected one assignment to {t.args[1].id}")
        perm = listexpr2(pa[0].value, env)
    else:
        perm = listexpr2(t.args[1], env)
    # design matrix columns
    dm = [a for a in assigns("design_mat") if isinstance(a.value, ast.Call) and _callname(a.value) == "reshape"]
    if len(dm) != 1 or ast.unparse(dm[0].value.args[0]) != "subchain_tensor" or not isinstance(dm[0].value.args[1], ast.Tuple) or len(dm[0].value.args[1].elts) != 2:
        raise Untranslatable("tensor_ring_als: expected design_mat = reshape(subchain_tensor, (-1, rank[..] * rank[..]))")
    e0, e1 = dm[0].value.args[1].elts
    if ast.unparse(e0) != "-1" or not (isinstance(e1, ast.BinOp) and isinstance(e1.op, ast.Mult)):
        raise Untranslatable(f"tensor_ring_als: unexpected design matrix shape {ast.unparse(dm[0].value.args[1])}")
    cols = f"[{_rank_index(e1.left, env)}; {_rank_index(e1.right, env)}]"
    # the core update
    upd = [a for a in assigns("tr_decomp", sub=True) if ast.unparse(a.targets[0].slice) == "dim"]
    if len(upd) != 1 or not (isinstance(upd[0].value, ast.Call) and _callname(upd[0].value) == "transpose" and len(upd[0].value.args) == 2):
        raise Untranslatable("tensor_ring_als: expected tr_decomp[dim] = transpose(reshape(sol, (...)), [...])")
    rs_, pm_ = upd[0].value.args
    if not (isinstance(rs_, ast.Call) and _callname(rs_) == "reshape" and ast.unparse(rs_.args[0]) == "sol" and isinstance(rs_.args[1], ast.Tuple) and len(rs_.args[1].elts) == 3
            and ast.unparse(rs_.args[1].elts[2]) == "shape[dim]"):
        raise Untranslatable(f"tensor_ring_als: unexpected reshape of the solution {ast.unparse(rs_)}")
    sol_rows = f"[{_rank_index(rs_.args[1].elts[0], env)}; {_rank_index(rs_.args[1].elts[1], env)}]"
    sol_perm = listexpr2(pm_, env)
    src = ast.unparse(fn)
    need = ["tl.norm(tl.matmul(design_mat, sol) - tensor_unf)"]
    missing = [x for x in need if x not in src]
    if missing:
        raise Untranslatable(f"tensor_ring_als: the reported residual is no longer the residual of the last sub-problem: {missing}")
    if universal:
        # OPTIONAL universal form: the regenerated pieces pass the checker for EVERY order >= 2 and mode, by rewriting them into the model's
        # pieces (C06_tr_bookkeeping_model_passes_checker); proves only while the source keeps today's syntactic forms
        return "tr_pieces", f"""
Definition gen_tr_ok_u (N dim : nat) : bool := tr_bookkeeping_ok N dim {chain} {row_modes} {perm} {cols} {sol_rows} {sol_perm}.
Lemma map_seq_ext_u (f g : nat -> nat) n n' : n = n' -> (forall i, i < n -> f i = g i) -> map f (seq 0 n) = map g (seq 0 n').
Proof. intros <- H. apply map_ext_in. intros i Hi. apply in_seq in Hi. apply H. lia. Qed.
Lemma app_cong_u (a a' b b' : list nat) : a = a' -> b = b' -> a ++ b = a' ++ b'.
Proof. intros -> ->. reflexivity. Qed.
Lemma tie_tr_idx_u : forall N dim, dim < N -> {perm} = tr_idx N dim.
Proof.
  intros N dim Hd. unfold tr_idx. rewrite <- ?app_assoc.
  apply app_cong_u; [apply map_seq_ext_u; [lia | intros; lia] | apply app_cong_u; [apply map_seq_ext_u; [lia | intros; lia] | ]].
  try reflexivity; repeat f_equal; lia.
Qed.
Lemma tie_tr_pieces : forall N dim, 2 <= N -> dim < N -> gen_tr_ok_u N dim = true.
Proof.
  intros N dim HN Hd. rewrite <- (tr_bookkeeping_model_ok_all N dim HN Hd). unfold gen_tr_ok_u, tr_bookkeeping_model_ok.
  rewrite (tie_tr_idx_u N dim Hd). rewrite ?map_id, ?(filter_neq_seq0 N dim Hd), <- ?(tr_chain_unfold N dim HN). reflexivity.
Qed.
"""
    return "tr_semantic", f"""
Definition gen_tr_ok (N dim : nat) : bool := tr_bookkeeping_ok N dim {chain} {row_modes} {perm} {cols} {sol_rows} {sol_perm}.
Lemma tie_tr_semantic : forallb (fun N => forallb (fun dim => gen_tr_ok N dim) (seq 0 N)) (seq 2 6) = true.
Proof. vm_compute. reflexivity. Qed.
Lemma tie_tr_semantic_props : forall N dim, In N (seq 2 6) -> In dim (seq 0 N) -> gen_tr_ok N dim = true.
Proof.
  intros N dim HN Hd. pose proof tie_tr_semantic as H. rewrite forallb_forall in H. specialize (H N HN). rewrite forallb_forall in H. exact (H dim Hd).
Qed.
"""


def tr_idx_goal(fn):
    assigns = [n for n in ast.walk(fn) if isinstance(n, ast.Assign) and len(n.targets) == 1 and getattr(n.targets[0], "id", "") == "tr_idx"]
    if len(assigns) != 1:
        raise Untranslatable(f"{fn.name}: expected one assignment to tr_idx, found {len(assigns)}")
    body = listexpr(assigns[0].value, {"n_dim": "N", "dim": "dim"})
    src = ast.unparse(fn)
    need = ["tl.transpose(subchain_tensor, tr_idx)", "tl.reshape(subchain_tensor, (-1, rank[dim] * rank[dim + 1]))",
            "tl.transpose(tl.reshape(sol, (rank[dim], rank[dim + 1], shape[dim])), [0, 2, 1])",
            "subchain_tensor = tr_decomp[(dim + 1) % n_dim]", "tl.tensordot(subchain_tensor, tr_decomp[(dim + j) % n_dim], axes=1)",
            "for j in range(2, n_dim)", "matricize(tensor, [n for n in range(n_dim) if n != dim], [dim])"]
    missing = [x for x in need if x not in src]
    if missing:
        raise Untranslatable(f"{fn.name}: the sub-chain / reshape bookkeeping changed: {missing}")
    return "tr_idx", f"""
Definition gen_tr_idx (N dim : nat) : list nat := {body}.
Lemma map_seq_ext_tie (f g : nat -> nat) n n' : n = n' -> (forall i, i < n -> f i = g i) -> map f (seq 0 n) = map g (seq 0 n').
Proof. intros <- H. apply map_ext_in. intros i Hi. apply in_seq in Hi. apply H. lia. Qed.
Lemma app_cong_tie (a a' b b' : list nat) : a = a' -> b = b' -> a ++ b = a' ++ b'.
Proof. intros -> ->. reflexivity. Qed.
Lemma tie_tr_idx : forall N dim, dim < N -> gen_tr_idx N dim = tr_idx N dim.
Proof.
  intros N dim Hd. unfold gen_tr_idx, tr_idx. rewrite <- ?app_assoc.
  apply app_cong_tie; [apply map_seq_ext_tie; [lia | intros; lia] | apply app_cong_tie; [apply map_seq_ext_tie; [lia | intros; lia] | ]].
  try reflexivity; repeat f_equal; lia.
Qed.
Lemma tie_tr_idx_sorts : forall N dim, dim < N ->
  permute_axes (subchain_axes N dim) (gen_tr_idx N dim) = map AMode (remove_nth dim (seq 0 N)) ++ [ABond dim; ABond (dim + 1)].
Proof. intros N dim H. rewrite tie_tr_idx by exact H. now apply tr_idx_sorts_modes. Qed.
"""


def ties(repo):
    """[(name, goal text or None, reason)]"""
    def tree(rel):
        with warnings.catch_warnings():
            warnings.simplefilter("ignore")
            return ast.parse(open(os.path.join(repo, rel)).read())
    cp, nn, cc = tree("tensorly/decomposition/_cp.py"), tree("tensorly/decomposition/_nn_cp.py"), tree("tensorly/decomposition/_constrained_cp.py")
    tk, p2 = tree("tensorly/decomposition/_tucker.py"), tree("tensorly/decomposition/_parafac2.py")
    tr = tree("tensorly/decomposition/_tr_als.py")
    makers = [
        ("error_calc", lambda: cp_goal("error_calc", _fn(cp, "error_calc"), _fn(cp, "parafac"))),
        ("hals", lambda: cp_goal("hals", _fn(nn, "non_negative_parafac_hals"), _fn(nn, "non_negative_parafac_hals"))),
        ("constrained", lambda: cp_goal("constrained", _fn(cc, "constrained_parafac"), _fn(cc, "constrained_parafac"))),
        ("hooi", lambda: hooi_goal(_fn(tk, "partial_tucker"))),
        ("parafac2", lambda: p2_goal(_fn(p2, "_parafac2_reconstruction_error"))),
        ("line_iter_parafac", lambda: line_goal("parafac", _fn(cp, "parafac"))),
        ("line_iter_parafac2", lambda: line_goal("parafac2", _fn(p2, "parafac2"))),
        ("loop_order_parafac", lambda: cfg_goal("parafac", _fn(cp, "parafac"), False)),
        ("loop_order_non_negative_parafac", lambda: cfg_goal("non_negative_parafac", _fn(nn, "non_negative_parafac"), True)),
        ("loop_order_non_negative_parafac_hals", lambda: cfg_goal("non_negative_parafac_hals", _fn(nn, "non_negative_parafac_hals"), True)),
        ("tr_idx", lambda: tr_idx_goal(_fn(tr, "tensor_ring_als"))),
        ("tr_semantic", lambda: tr_semantic_goal(_fn(tr, "tensor_ring_als"))),
        ("tr_pieces", lambda: tr_semantic_goal(_fn(tr, "tensor_ring_als"), universal=True)),
        ("rand_gates", lambda: rand_gate_goal(_fn(cp, "randomised_parafac"))),
        ("loop_order_constrained_parafac", lambda: cfg_goal("constrained_parafac", _fn(cc, "constrained_parafac"), False)),
    ]
    out = []
    for name, mk in makers:
        try:
            n_, text = mk()
            out.append((name, text, None))
        except Untranslatable as e:
            out.append((name, None, str(e)))
    return out


def run_ast_tie(chk):
    from harness import common as C
    res = {"proved": [], "skipped": [], "optional_not_proved": []}
    # optional goals: UNIVERSAL forms of a tie whose mandatory form is semantic but bounded (tr_idx: syntactic equality with the model's
    # tr_idx for every order; tr_semantic: the bookkeeping checker on the regenerated pieces for orders 2..7).  A consistent refactoring
    # of the bookkeeping loses the universal form (recorded) without breaking the tie
    OPTIONAL = {"tr_idx", "tr_pieces"}
    chk.cov["ast_tie"] = res
    chk.checker_cmds.append("coqc on goals generated from the Python ast of _cp.py / _nn_cp.py / _constrained_cp.py / _tucker.py / _parafac2.py "
                            "(expression under each shortcut's sqrt, iprod pairing, MTTKRP weights, line-search test) re-proving the C06 identities")
    try:
        items = ties(C.REPO)
    except (SyntaxError, OSError) as e:
        chk.broken.append({"what": "ast tie: a decomposition source file cannot be read or parsed", "detail": str(e)})
        return res
    d = os.path.join(C.BUILD, "cases", "C06", f"ast_{os.getpid()}")
    shutil.rmtree(d, ignore_errors=True); os.makedirs(d, exist_ok=True)

    def coqc(name, text):
        fn = os.path.join(d, f"Tie_{name}.v")
        open(fn, "w").write(PRELUDE + text + POSTLUDE)
        r_ = subprocess.run(["timeout", "600", "coqc", "-q", "-w", "none", "-R", os.path.join(C.COQ, "theories"), "TLV", fn],
                            capture_output=True, text=True, cwd=d)
        return r_.returncode, (r_.stdout + r_.stderr)[-1200:], fn

    good = [(n_, t_) for n_, t_, _ in items if t_ is not None]
    for n_, t_, why in items:
        if t_ is None and n_ in OPTIONAL:
            res["optional_not_proved"].append(n_)
            continue
        if t_ is None:
            chk.broken.append({"what": f"ast tie: {n_}: the source can no longer be translated (model and code may have diverged)", "detail": why})
    if good:
        rc, out, _ = coqc("all", "\n".join(t_ for _, t_ in good))
        if rc == 0:
            res["proved"] = [n_ for n_, _ in good]
        elif rc in (124, 137, -9, -15):
            res["skipped"] = [n_ for n_, _ in good]
            chk.hist("skipped", "ast tie (coqc timeout)")
        else:
            for n_, t_ in good:
                rc1, out1, fn1 = coqc(n_, t_)
                if rc1 == 0:
                    res["proved"].append(n_)
                elif rc1 in (124, 137, -9, -15):
                    res["skipped"].append(n_)
                elif n_ in OPTIONAL:
                    res["optional_not_proved"].append(n_)
                else:
                    chk.broken.append({"what": f"ast tie: {n_}: the expression of the current source no longer satisfies the C06 identity of Model/Errors.v "
                                               "(generated goal does not prove)", "detail": {"goal_file": open(fn1).read()[-1800:], "coqc": out1}})
    if not any(str(b.get("what", "")).startswith("ast tie") for b in chk.broken):
        shutil.rmtree(d, ignore_errors=True)
    for n_ in res["proved"]:
        chk.count(key=("ast_tie", n_), nontrivial=True)
    return res
