"""C07 -- exact block-coordinate algorithms never increase their objective.

Correspondence (Corr/C07.v, model Model/Descent.v executed at Qops, exact rationals):
  * CP-ALS blocks of parafac / non_negative_parafac_hals: state captured before the block (tensor, weights, factors,
    mode, l2_reg), the implementation's pseudo_inverse, MTTKRP and new factor -> model system == implementation system,
    solve certificate on the implementation's new factor, exact block objective does not increase;
  * hals_nnls iterates (callback): one model pass from each implementation iterate == next iterate, exact objective
    non-increasing;
  * least-squares blocks of tensor_ring_als / coupled_matrix_tensor_3d_factorization (tl.lstsq captured) and of the
    CP / Tucker regressors: normal equations on the implementation's solution, objective not above the previous iterate's.
  * certificates of the spectral oracles (round 5): the matrix handed to the SVD of a HOOI block with an independent eigen-decomposition
    of Y Y' (SpecCert), the cross product X_i M_i' of a PARAFAC2 projection with an independent thin SVD (ProcCert): contract of
    C07_ky_fan_bound / C07_procrustes_bound and attained value of the implementation's factor;
  * the error parafac reports for the iterate it hands to the callback (CPReport): model formula == exact squared error == reported^2.
Static tie (corr:C07-static, harness/props/C07_ast.py): the reported-error formulas and line-search acceptance tests are re-extracted from
the current sources with `ast`, translated to Gallina and re-checked by coqc against the reference forms of Proofs/DescentProofsStatic.v.
Predicates (transcriptions of C07_*_history_monotone on the implementation's outputs): every reported error history and
every objective history RECOMPUTED from the iterates (callbacks where the algorithm has one, prefix runs with the same seed
otherwise) is non-increasing up to 1e-6 in relative-error units; every captured block objective does not increase; the reported error
of every sweep IS the relative error of the iterate of that sweep (parafac, nn-HALS without sparsity, tucker, parafac2, TR-ALS, CMTF);
every HOOI block is handed the unfolding of the tensor projected on the CURRENT other factors (through Y Y')."""
import math, random, sys
import numpy as np
from harness import common as C

HEADER = """From Coq Require Import List ZArith QArith Bool. Import ListNotations.
From TLV Require Import Base.Tensor Corr.C07.
Open Scope nat_scope."""

SLACK = 1e-6          # relative-error units (DESIGN 7/C07: rounding noise peaks ~5e-8, genuine ascent >= 1e-3)
COND_MAX = 1e4        # block systems above this condition number are "ill conditioned": skipped and counted


# ----------------------------------------------------------------------------- literals
def qv(v):
    return C.q_list([float(x) for x in np.asarray(v).ravel()])


def qm(M):
    M = np.asarray(M, dtype=float)
    if M.ndim != 2:
        raise ValueError("matrix expected")
    if M.shape[0] == 0:
        return "(@nil (list Q))"
    return "[" + "; ".join(qv(r) for r in M) + "]"


def qt(X):
    X = np.asarray(X, dtype=float)
    return C.qtensor(X.shape, [float(x) for x in X.ravel()])


def cp_case_lit(cid, b):
    facs = "[" + "; ".join(qm(f) for f in b["facs"]) + "]"
    return (f"({cid}%nat, CPBlock (mkCP {qt(b['X'])} {qv(b['w'])} {facs} {b['mode']}%nat {C.q(float(b['lam']))} "
            f"{b['rank']}%nat {qm(b['G'])} {qm(b['M'])} {qm(b['xnew'])} {C.boolc(b['cert'])}))")


def hals_case_lit(cid, h):
    its = "[" + "; ".join(qm(v) for v in h["iterates"]) + "]"
    return (f"({cid}%nat, Hals (mkH {qm(h['G'])} {qm(h['B'])} {C.q(float(h['l1']))} {C.q(float(h['l2']))} {C.q(float(h['eps']))} "
            f"{h['G'].shape[0]}%nat {h['B'].shape[1]}%nat {its}))")


def ls_case_lit(cid, l):
    A, Y, X, P = l["A"], l["Y"], l["X"], l["prev"]
    return (f"({cid}%nat, LSBlock (mkLS {qm(A)} {qm(Y)} {C.q(float(l['lam']))} {A.shape[0]}%nat {A.shape[1]}%nat {Y.shape[1]}%nat "
            f"{qm(X)} {qm(P)}))")


def tk_case_lit(cid, t):
    before = "[" + "; ".join(qm(f) for f in t["before"]) + "]"
    after = "[" + "; ".join(qm(f) for f in t["after"]) + "]"
    return f"({cid}%nat, TkBlock (mkTk {qt(t['X'])} {C.nat_list(t['rs'])} {before} {after} {qv(t['core'])} {t['k']}%nat {qm(t['Y'])}))"


def cmtf_case_lit(cid, m):
    facs = "[" + "; ".join(qm(f) for f in m["facs"]) + "]"
    return (f"({cid}%nat, CmtfBlock (mkCm {qt(m['X'])} {qm(m['Y'])} {facs} {qm(m['V'])} {m['V'].shape[0]}%nat {m['rank']}%nat {qm(m['xnew'])}))")


def tr_case_lit(cid, t):
    cores = "[" + "; ".join(qt(c) for c in t["cores"]) + "]"
    design = qm(t["design"]) if t["design"] is not None else "(@nil (list Q))"
    return (f"({cid}%nat, TRBlock (mkTr {qt(t['X'])} {cores} {t['dim']}%nat {qt(t['new'])} {C.boolc(t['design'] is not None)} {design}))")


def tkreg_case_lit(cid, g):
    xs = "[" + "; ".join(qt(x) for x in g["Xs"]) + "]"
    us = "[" + "; ".join(qm(f) for f in g["Us"]) + "]"
    newfac = qm(g["newfac"]) if g["newfac"] is not None else "(@nil (list Q))"
    newcore = qv(g["newcore"]) if g["newcore"] is not None else "(@nil Q)"
    return (f"({cid}%nat, TkRegBlock (mkTg {xs} {qv(g['ys'])} {C.nat_list(g['rs'])} {qv(g['core'])} {us} {C.boolc(g['newcore'] is not None)} "
            f"{g['mode']}%nat {C.q(float(g['reg']))} {newcore} {newfac}))")


def reg_case_lit(cid, g):
    xs = "[" + "; ".join(qt(x) for x in g["Xs"]) + "]"
    facs = "[" + "; ".join(qm(f) for f in g["facs"]) + "]"
    return (f"({cid}%nat, RegBlock (mkRg {xs} {qv(g['ys'])} {facs} {g['mode']}%nat {g['rank']}%nat {C.q(float(g['reg']))} {qm(g['xnew'])}))")


def norm_case_lit(cid, n):
    facs = "[" + "; ".join(qm(f) for f in n["facs"]) + "]"
    facs2 = "[" + "; ".join(qm(f) for f in n["facs_impl"]) + "]"
    tape = "[" + "; ".join(f"({qv(a)}, {qv(b)})" for a, b in n["tape"]) + "]"
    return (f"({cid}%nat, Norm (mkN {qt(n['X'])} {qv(n['w'])} {facs} {n['rank']}%nat {tape} {qv(n['w_impl'])} {facs2}))")


def tksweep_case_lit(cid, c):
    states = "[" + "; ".join("[" + "; ".join(qm(f) for f in st) + "]" for st in c["states"]) + "]"
    return f"({cid}%nat, TkSweep (mkTs {qt(c['X'])} {C.nat_list(c['rs'])} {states} {C.q(float(c['rel']))}))"


def modes_case_lit(cid, c):
    return f"({cid}%nat, Modes (mkMd {c['n']}%nat {C.nat_list(c['fixed'])} {C.boolc(c['is_nn'])} {C.nat_list(c['observed'])}))"


def loop_case_lit(cid, c):
    return (f"({cid}%nat, Loop (mkLp {c['alg']}%nat {C.boolc(c['abs'])} {C.q(float(c['tol']))} {c['nmax']}%nat {qv(c['tape'])} {c['iters']}%nat))")


def first_sweep_modes(cap):
    """modes of the MTTKRP calls of the first sweep, in order (up to the first repetition)"""
    seen = []
    for k in cap.kr:
        if k["mode"] in seen:
            break
        seen.append(k["mode"])
    return seen


def spec_case_lit(cid, c):
    Y, U = c["Y"], c["U"]
    return (f"({cid}%nat, SpecCert (mkSp {Y.shape[0]}%nat {Y.shape[1]}%nat {U.shape[1]}%nat {qm(Y)} {qm(c['Q'])} {qv(c['lam'])} {qm(U)}))")


def proc_case_lit(cid, c):
    X, M = c["X"], c["M"]
    return (f"({cid}%nat, ProcCert (mkPc {X.shape[0]}%nat {M.shape[0]}%nat {X.shape[1]}%nat {qm(X)} {qm(M)} {qm(c['A'])} {qv(c['sg'])} {qm(c['B'])} {qm(c['P'])}))")


def rep_case_lit(cid, c):
    facs = "[" + "; ".join(qm(f) for f in c["facs"]) + "]"
    return (f"({cid}%nat, CPReport (mkRp {qt(c['X'])} {qv(c['w'])} {facs} {c['k']}%nat {c['rank']}%nat {C.q(float(c['rel']))}))")


# ----------------------------------------------------------------------------- generators
def np_rng(rng):
    return np.random.RandomState(rng.randrange(2 ** 31 - 1))


def lowrank(r, shape, rank, noise, nonneg=False):
    """rank-`rank` tensor with well separated components + dense noise (well conditioned by construction)"""
    facs = []
    for d in shape:
        f = r.rand(d, rank) + 0.2 if nonneg else r.randn(d, rank)
        facs.append(f)
    X = np.zeros(shape)
    for c in range(rank):
        t = facs[0][:, c]
        for f in facs[1:]:
            t = np.multiply.outer(t, f[:, c])
        X = X + (1.0 + c) * t
    nz = r.rand(*shape) if nonneg else r.randn(*shape)
    X = X + noise * nz * (np.linalg.norm(X) / max(np.linalg.norm(nz), 1e-300))
    return X


def dense_problem(r, shape, rank, family):
    """slowly converging problems (line search jumps get rejected on these): dense noise or nearly collinear components"""
    if family == "randn":
        return r.randn(*shape)
    facs = []
    for d in shape:
        base = r.randn(d, 1)
        facs.append(0.7 * base + 0.3 * r.randn(d, rank))
    X = cp_full(np.ones(rank), facs)
    nz = r.randn(*shape)
    return X + 0.1 * nz * (np.linalg.norm(X) / max(np.linalg.norm(nz), 1e-300))


def rand_cp_init(r, shape, rank, nonneg=False, weights=False):
    facs = [(r.rand(d, rank) + 0.1) if nonneg else r.randn(d, rank) for d in shape]
    w = (r.rand(rank) + 0.5) if weights else np.ones(rank)
    return w, facs


def monotone_violation(errs, slack=SLACK):
    """first index i with errs[i+1] > errs[i] + slack (None if the history is non-increasing)"""
    e = [float(x) for x in errs]
    for i in range(len(e) - 1):
        if not (e[i + 1] <= e[i] + slack):   # NaN counts as a violation
            return i
    return None


# ----------------------------------------------------------------------------- capturing block states
class Capture:
    """monkeypatches (restored on exit) that copy the arguments/results of the block-level calls"""

    def __init__(self):
        self.kr, self.blocks, self.solves, self.lstsq, self.halsruns = [], [], [], [], []
        self.hooi_svds, self.p2_projs = [], []
        self.maxcond = 0.0
        self._saved = []

    def _patch(self, obj, name, new):
        self._saved.append((obj, name, getattr(obj, name)))
        setattr(obj, name, new)

    def __enter__(self):
        import tensorly as tl
        from tensorly.decomposition import _cp, _nn_cp
        cap = self

        def wrap_kr(orig):
            def f(tensor, cp, mode):
                res = orig(tensor, cp, mode)
                w, facs = cp
                cap.kr.append(dict(X=np.array(tensor, dtype=float), w=None if w is None else np.array(w, dtype=float),
                                   facs=[np.array(x, dtype=float) for x in facs], mode=int(mode), M=np.array(res, dtype=float), used=False))
                return res
            return f
        for mod in (_cp, _nn_cp):
            self._patch(mod, "unfolding_dot_khatri_rao", wrap_kr(mod.unfolding_dot_khatri_rao))
        osolve = tl.solve

        def solve(a, b):
            x = osolve(a, b)
            an = np.array(a, dtype=float)
            try:
                cap.maxcond = max(cap.maxcond, float(np.linalg.cond(an)))
            except Exception:
                cap.maxcond = float("inf")
            rec = dict(a=an, b=np.array(b, dtype=float), x=np.array(x, dtype=float))
            try:   # design matrix of the regressors' ridge blocks, if the caller exposes it under these names (optional)
                loc = sys._getframe(1).f_locals
                if "phi" in loc and ("y_reshaped" in loc or "y" in loc):
                    rec["phi"] = np.array(loc["phi"], dtype=float)
                    rec["rhs"] = np.array(loc["y_reshaped"] if "y_reshaped" in loc else loc["y"], dtype=float)
            except Exception:
                pass
            cap.solves.append(rec)
            if cap.kr and not cap.kr[-1]["used"] and cap.kr[-1]["M"].T.shape == rec["b"].shape and np.array_equal(cap.kr[-1]["M"].T, rec["b"]):
                k = cap.kr[-1]; k["used"] = True
                cap.blocks.append(dict(k, G=an.T.copy(), xnew=rec["x"].T.copy(), kind="solve", cond=float(np.linalg.cond(an))))
            return x
        self._patch(tl, "solve", solve)
        import tensorly.backend as tlb      # the regressors call the dispatched functions through `from .. import backend as T`
        if getattr(tlb, "solve", None) is osolve:
            self._patch(tlb, "solve", solve)
        olstsq = tl.lstsq

        def lstsq(a, b, *args, **kw):
            res = olstsq(a, b, *args, **kw)
            an = np.array(a, dtype=float)
            try:
                cap.maxcond = max(cap.maxcond, float(np.linalg.cond(an)))
            except Exception:
                cap.maxcond = float("inf")
            cap.lstsq.append(dict(A=an, Y=np.array(b, dtype=float), X=np.array(res[0], dtype=float)))
            return res
        self._patch(tl, "lstsq", lstsq)
        if getattr(tlb, "lstsq", None) is olstsq:
            self._patch(tlb, "lstsq", lstsq)
        ohals = _nn_cp.hals_nnls

        def hals(UtM, UtU, V=None, **kw):
            its = [] if V is None else [np.array(V, dtype=float)]
            user_cb = kw.pop("callback", None)

            def cb(Vc, e):
                if len(its) < 4:
                    its.append(np.array(Vc, dtype=float))
                return user_cb(Vc, e) if user_cb is not None else None
            res = ohals(UtM, UtU, V, callback=cb, **kw)
            G = np.array(UtU, dtype=float)
            run = dict(G=G, B=np.array(UtM, dtype=float), iterates=its, l1=kw.get("sparsity_coefficient") or 0.0,
                       l2=kw.get("ridge_coefficient") or 0.0, eps=kw.get("epsilon", 0.0) or 0.0, result=np.array(res, dtype=float))
            cap.halsruns.append(run)
            if cap.kr and not cap.kr[-1]["used"] and np.array_equal(cap.kr[-1]["M"].T, run["B"]):
                k = cap.kr[-1]; k["used"] = True
                cap.blocks.append(dict(k, G=G.copy(), xnew=run["result"].T.copy(), kind="hals", cond=0.0, hals=run))
            return res
        self._patch(_nn_cp, "hals_nnls", hals)
        # answer tapes of the two spectral oracles (hypotheses of the _partial theorems)
        try:
            from tensorly.decomposition import _tucker, _parafac2
            if hasattr(_tucker, "svd_interface"):
                osvd = _tucker.svd_interface

                def svd_t(matrix, *a, **kw):
                    res = osvd(matrix, *a, **kw)
                    if len(cap.hooi_svds) < 400:
                        cap.hooi_svds.append(dict(Y=np.array(matrix, dtype=float), U=np.array(res[0], dtype=float), n=kw.get("n_eigenvecs")))
                    return res
                self._patch(_tucker, "svd_interface", svd_t)
            if hasattr(_parafac2, "_compute_projections"):
                oproj = _parafac2._compute_projections

                def proj(tensor_slices, factors, *a, **kw):
                    res = oproj(tensor_slices, factors, *a, **kw)
                    if len(cap.p2_projs) < 200:
                        cap.p2_projs.append(dict(slices=[np.array(t, dtype=float) for t in tensor_slices], factors=[np.array(f, dtype=float) for f in factors],
                                                 P=[np.array(q, dtype=float) for q in res]))
                    return res
                self._patch(_parafac2, "_compute_projections", proj)
        except Exception:
            pass
        return self

    def __exit__(self, *a):
        for obj, name, old in reversed(self._saved):
            setattr(obj, name, old)
        return False


# ----------------------------------------------------------------------------- float re-computations (predicates)
def cp_full(w, facs):
    rank = facs[0].shape[1]
    w = np.ones(rank) if w is None else w
    X = 0
    for c in range(rank):
        t = facs[0][:, c]
        for f in facs[1:]:
            t = np.multiply.outer(t, f[:, c])
        X = X + w[c] * t
    return X


def block_objective(b, factor):
    facs = list(b["facs"]); facs[b["mode"]] = factor
    w = np.ones(b["rank"]) if b["w"] is None else b["w"]
    return float(np.sum((b["X"] - cp_full(w, facs)) ** 2) + b["lam"] * np.sum((factor * w[None, :]) ** 2))


def hals_objective(G, B, V, l1, l2):
    return float(0.5 * np.sum(V * (G @ V)) - np.sum(B * V) + l1 * np.sum(V) + l2 * np.sum(V * V))


# ----------------------------------------------------------------------------- the runs
# quick: profiled per kind (CPU s / case at Qops: cp 0.7, hals 0.4, ls 0.5, norm 0.8, reg 1.8, tk 2.5, cmtf 0.7, tkreg 1.9, tr 2.6, spec 0.4, proc 0.2, rep 0.5,
# tks 4.4, modes 0.02; round 8 at load 30: reg 4.4, tkreg 3.7, tks 6.3 - reg / tkreg / tr one case fewer, still >= one per group): every kind is kept, the budget is dealt out over the (entry, variant, kind) groups starting at a seed-dependent group
BUDGET = {"quick": dict(cp=44, hals=20, ls=16, norm=8, reg=3, tk=6, cmtf=5, tkreg=3, tr=4, spec=4, proc=4, rep=8, tks=1, modes=32, loop=72),
          # thorough: ~3x the quick budgets (estimated ~370 CPU-s of shards with the per-case costs above; the whole tier is meant to stay below ~12 CPU-min
          # at VERIF_NPROC=4 including the exact Print-Assumptions pass).  The Python predicates still judge every run of the (5x larger) thorough plan
          "thorough": dict(cp=140, hals=70, ls=60, norm=28, reg=14, tk=16, cmtf=16, tkreg=10, tr=10, spec=24, proc=24, rep=28, tks=5, modes=100, loop=150)}
KINDS = ("cp", "hals", "ls", "norm", "reg", "tk", "cmtf", "tkreg", "tr", "spec", "proc", "rep", "tks", "modes", "loop")


class Ctx:
    def __init__(self, chk, rng, tier):
        self.chk, self.rng, self.tier = chk, rng, tier
        self.cands = {k: [] for k in KINDS}     # candidates for the exact (Coq) block check
        self.cases, self.meta = [], []
        self.skipped_illcond = 0
        self.n_cp, self.n_hals, self.n_ls, self.n_norm, self.n_reg = 0, 0, 0, 0, 0
        self.raised, self.judged, self.attempts, self.raised_other = {}, {}, {}, {}
        self.py_blocks = 0
        self.mismatch_notes = 0
        self.sem = {}          # semantic (dynamic) confirmations per static-tie item: see static_tie

    def add_case(self, kind, lit_fn, payload, descr):
        """register a candidate; `select` keeps a budgeted, variant-balanced subset for Coq"""
        def finite(v):
            if isinstance(v, (list, tuple)):
                return all(finite(x) for x in v)
            if isinstance(v, (np.ndarray, float, int, np.floating)):
                return bool(np.all(np.isfinite(v)))
            return True
        if not all(finite(v) for v in payload.values()):
            self.skipped_illcond += 1       # exact rationals cannot carry inf / nan: not a case for the model
            return
        group = (descr["entry"], str(descr["inputs"].get("variant")), str(descr["inputs"].get("kind")))
        self.cands[kind].append((group, lit_fn, payload, descr))

    def select(self):
        self.n_kind = {}
        chosen = []
        for kind in KINDS:
            groups = {}
            for c in self.cands[kind]:
                groups.setdefault(c[0], []).append(c)
            order = sorted(groups)
            if order:      # a budget below the number of groups must not always serve the same groups: start at a seed-dependent one
                off = self.rng.randrange(len(order))
                order = order[off:] + order[:off]
            budget = BUDGET[self.tier][kind]
            picked, depth = [], 0
            while len(picked) < budget and any(len(groups[g]) > depth for g in order):
                for g in order:
                    if len(groups[g]) > depth and len(picked) < budget:
                        picked.append(groups[g][depth])
                depth += 1
            chosen += [(kind,) + tuple(c[1:]) for c in picked]
            self.n_kind[kind] = len(picked)
        self.n_cp, self.n_hals, self.n_ls = self.n_kind["cp"], self.n_kind["hals"], self.n_kind["ls"]
        self.n_norm, self.n_reg = self.n_kind["norm"], self.n_kind["reg"]
        # the kinds differ a lot in cost: deal the cases out over the shards like cards so that every shard gets its share
        n_sh = max(1, min(C.NPROC, (len(chosen) + 7) // 8)) if self.tier == "quick" else max(1, (len(chosen) + 23) // 24)
        self.shard_size = max(1, -(-len(chosen) // n_sh))
        dealt = [c for k in range(n_sh) for c in chosen[k::n_sh]]
        for (kind, lit_fn, payload, descr) in dealt:
            cid = len(self.cases)
            self.cases.append(lit_fn(cid, payload))
            self.meta.append((kind, descr, payload))


def sem(ctx, what, n=1):
    ctx.sem[what] = ctx.sem.get(what, 0) + n


SEM_OF_ENTRY = {"tensorly.decomposition.non_negative_parafac_hals": "non_negative_parafac_hals error formula", "tensorly.decomposition.tucker": "partial_tucker error formula",
                "tensorly.decomposition.partial_tucker": "partial_tucker error formula", "tensorly.decomposition.tensor_ring_als": "tensor_ring_als error formula"}
# static-tie item -> (minimum number of dynamic confirmations in this run, entry points, predicates whose findings veto the fallback)
SEM_RULES = {"parafac error formula": (50, ("tensorly.decomposition.parafac",), ("C07_cp_reported_is_sqerr", "C07_block_refinement")),
             "non_negative_parafac_hals error formula": (10, ("tensorly.decomposition.non_negative_parafac_hals",), ("C07_reported_error_is_objective",)),
             "partial_tucker error formula": (10, ("tensorly.decomposition.tucker", "tensorly.decomposition.partial_tucker"), ("C07_reported_error_is_objective", "C07_block_refinement")),
             "tensor_ring_als error formula": (10, ("tensorly.decomposition.tensor_ring_als",), ("C07_reported_error_is_objective",)),
             "CMTF error formula": (10, ("tensorly.decomposition.coupled_matrix_tensor_3d_factorization",), ("C07_reported_error_is_objective",)),
             "parafac line-search acceptance": (10, ("tensorly.decomposition.parafac",), ("C07_history_monotone", "C07_cp_reported_is_sqerr")),
             "parafac2 line-search acceptance": (10, ("tensorly.decomposition._parafac2._BroThesisLineSearch.line_step", "tensorly.decomposition.parafac2"),
                                                 ("C07_linesearch_descent", "C07_history_monotone", "C07_reported_error_is_objective"))}


def attempt(ctx, entry):
    ctx.attempts[entry] = ctx.attempts.get(entry, 0) + 1


def raised(ctx, entry, msg):
    """an exception is not a statement about descent: the run is skipped and counted (LinAlgError = singular block system)"""
    ctx.raised[entry] = ctx.raised.get(entry, 0) + 1
    if not any(t in str(msg) for t in ("LinAlgError", "ingular", "timeout", "converge")):
        ctx.raised_other[entry] = ctx.raised_other.get(entry, 0) + 1
    ctx.chk.hist("raised", entry + ": " + str(msg)[:60])


def history_check(ctx, entry, inputs, errs, what="error history", slack=SLACK):
    chk = ctx.chk
    chk.count(key=(entry, what, inputs.get("shape") and tuple(inputs["shape"]), inputs.get("variant")), nontrivial=len(errs) >= 2)
    chk.hist("history", entry + " / " + what)
    ctx.judged[entry] = ctx.judged.get(entry, 0) + 1
    i = monotone_violation(errs, slack)
    if i is not None:
        chk.finding(entry, inputs, f"{what} increases at sweep {i}->{i + 1}: {float(errs[i])!r} -> {float(errs[i + 1])!r}",
                    "C07_history_monotone", observed=[float(x) for x in errs[max(0, i - 1):i + 3]], expected="non-increasing (slack 1e-6)")
        return False
    return True


def prep_block(b, lam):
    b = dict(b); b["lam"] = lam; b["rank"] = b["M"].shape[1]; b["cert"] = (b["kind"] == "solve")
    if b["w"] is None:
        b["w"] = np.ones(b["rank"])
    return b


def add_cp_blocks(ctx, entry, inputs, cap, lam, max_blocks, max_entries=40):
    """block-level refinement: float predicate on EVERY captured block; exact (Coq) check on the first sweep of every
    mode + one later block of small tensors"""
    chk = ctx.chk
    blocks = cap.blocks
    if not blocks:
        return
    nm = len({b["mode"] for b in blocks})
    pick = list(range(min(nm, len(blocks))))
    if len(blocks) > nm:
        pick.append(ctx.rng.randrange(nm, len(blocks)))
    pick = set(pick[:max_blocks])
    for bi, b0 in enumerate(blocks):
        b = prep_block(b0, lam)
        if b["cond"] > COND_MAX or not np.all(np.isfinite(b["xnew"])):
            ctx.skipped_illcond += 1
            continue
        # python predicate (float): the block objective does not increase
        before, after = block_objective(b, b["facs"][b["mode"]]), block_objective(b, b["xnew"])
        nx = float(np.sum(b["X"] ** 2))
        ctx.py_blocks += 1
        chk.count(key=(entry, "block", b["X"].shape, b["mode"], inputs.get("variant")), nontrivial=True)
        if not (after <= before + 1e-9 * (before + nx)):
            chk.finding(entry, dict(inputs, block=bi, mode=b["mode"]), f"block objective increases in mode {b['mode']}: {before!r} -> {after!r}",
                        "C07_cp_block_descent", observed=after, expected=f"<= {before!r}")
        if bi in pick and b["X"].size <= max_entries and b["rank"] <= 3:
            ctx.add_case("cp", cp_case_lit, b, dict(entry=entry, inputs=dict(inputs, block=bi, mode=b["mode"], kind=b["kind"])))
        if b["kind"] == "hals" and bi in pick:
            add_hals_case(ctx, entry + " (inner hals_nnls)", dict(inputs, block=bi, mode=b["mode"]), b["hals"])


def add_hals_case(ctx, entry, inputs, run):
    G, its = run["G"], list(run["iterates"])
    if not np.array_equal(G, G.T) or np.any(np.diag(G) < 0):
        ctx.skipped_illcond += 1
        return
    while its and not np.all(its[0] >= run["eps"]):
        its.pop(0)          # the theorem starts from a feasible iterate
    its = its[:3]
    if len(its) < 2 or G.shape[0] > 3 or its[0].size > 16:
        return
    ctx.add_case("hals", hals_case_lit, dict(run, iterates=its), dict(entry=entry, inputs=inputs))


def hals_float_check(ctx, entry, inputs, run):
    """float predicate on a captured hals_nnls run: objective non-increasing over the observed passes, iterates >= epsilon"""
    G, B, its = run["G"], run["B"], list(run["iterates"])
    if len(its) < 2 or not np.array_equal(G, G.T):
        return
    objs = [hals_objective(G, B, V, run["l1"], run["l2"]) for V in its]
    scale = float(np.sum(np.abs(B)) + 1.0)
    i = monotone_violation([o / scale for o in objs], 1e-9)
    if i is not None and np.all(its[0] >= run["eps"]):
        ctx.chk.finding(entry, inputs, f"inner hals_nnls objective increases at pass {i}->{i + 1}: {objs[i]!r} -> {objs[i + 1]!r}",
                        "C07_hals_history_monotone", observed=objs, expected="non-increasing")


def check_hooi_tape(ctx, entry, inputs, cap, hooi_only_after=0):
    """hypotheses of C07_hooi_block_descent_partial on the SVD answers used by the HOOI blocks: orthonormal columns, and the
    Ky Fan value  ||U'Y||_F^2 = sum of the r largest squared singular values of Y (independent numpy SVD)"""
    for j, t in enumerate(cap.hooi_svds[hooi_only_after:]):
        Y, U = t["Y"], t["U"]
        r = U.shape[1]
        if U.shape[0] != Y.shape[0] or r > min(Y.shape):
            continue
        ctx.py_blocks += 1
        sv = np.linalg.svd(Y, compute_uv=False)
        best, got = float(np.sum(sv[:r] ** 2)), float(np.sum((U.T @ Y) ** 2))
        orth = float(np.max(np.abs(U.T @ U - np.eye(r))))
        if orth > 1e-8 or got < best - 1e-9 * (float(np.sum(sv ** 2)) + 1e-300):
            ctx.chk.finding(entry, dict(inputs, svd_call=j), f"HOOI factor is not a set of leading left singular vectors: ||U'Y||^2 = {got!r} < {best!r} "
                            f"or columns not orthonormal (defect {orth:.2e})", "C07_hooi_block_descent (attained Ky Fan value)", observed=got, expected=best)
        # the spectral certificate of C07_ky_fan_bound: an INDEPENDENT eigen-decomposition of Y Y' (numpy eigh), sorted non-increasing;
        # its contract is checked here in floats on every recorded call and in exact rationals (Corr.C07.spec_agree) on a budgeted subset
        lam, Q = np.linalg.eigh(Y @ Y.T)
        order = np.argsort(-lam, kind="stable")
        lam, Q = np.maximum(lam[order], 0.0), Q[:, order]
        ny = float(np.sum(Y * Y)) + 1e-300
        m = Y.shape[0]
        QtY = Q.T @ Y
        cert_bad = (float(np.max(np.abs(Q.T @ Q - np.eye(m)))) > 1e-8 or float(np.max(np.abs(Q @ Q.T - np.eye(m)))) > 1e-8
                    or float(np.max(np.abs(QtY @ QtY.T - np.diag(lam)))) > 1e-8 * ny or float(np.sum(lam[:r])) > got + 1e-8 * ny)
        if cert_bad:
            # not a statement about the implementation unless the attained value fails (reported above): numpy's own decomposition is off
            ctx.skipped_illcond += 1
        elif Y.shape[0] <= 5 and Y.shape[1] <= 16 and j % 3 == 0:
            ctx.add_case("spec", spec_case_lit, dict(Y=Y, Q=Q, lam=lam, U=U),
                         dict(entry=entry, inputs=dict(inputs, svd_call=j, kind="HOOI spectral certificate")))


def check_p2_tape(ctx, entry, inputs, cap):
    """hypotheses of C07_parafac2_projection_descent_partial on the projections computed by the implementation: orthonormal
    columns, and the Procrustes value  <P_i, X_i M_i'> = nuclear norm of X_i M_i'  with M_i = B diag(a_i) C'"""
    for j, t in enumerate(cap.p2_projs):
        A, B, Cm = t["factors"]
        for i, (Xi, P) in enumerate(zip(t["slices"], t["P"])):
            M = (B * A[i][None, :]) @ Cm.T
            Z = Xi @ M.T
            if P.shape != Z.shape or P.shape[1] > P.shape[0]:
                continue
            ctx.py_blocks += 1
            sv = np.linalg.svd(Z, compute_uv=False)
            best, got = float(np.sum(sv)), float(np.sum(P * Z))
            orth = float(np.max(np.abs(P.T @ P - np.eye(P.shape[1]))))
            if sv[-1] < 1e-6 * sv[0]:
                continue        # (numerically) rank-deficient cross product: the polar factor is not unique / ill conditioned
            if orth > 1e-8 or got < best - 1e-9 * (best + 1e-300):
                ctx.chk.finding(entry, dict(inputs, projection_call=j, slice=i), f"PARAFAC2 projection is not the Procrustes maximiser: <P, X M'> = {got!r} < {best!r} "
                                f"or columns not orthonormal (defect {orth:.2e})", "C07_parafac2_projection_descent (attained Procrustes value)", observed=got, expected=best)
                return
            # the thin-SVD certificate of C07_procrustes_bound (independent numpy SVD of Z = X_i M_i'), exact check on a budgeted subset
            if (i + j) % 4 == 0 and Xi.size <= 24 and P.shape[1] <= 3:
                Ua, sg, Vh = np.linalg.svd(Z, full_matrices=False)
                ctx.add_case("proc", proc_case_lit, dict(X=Xi, M=M, A=Ua, sg=sg, B=Vh.T, P=P),
                             dict(entry=entry, inputs=dict(inputs, projection_call=j, slice=i, kind="PARAFAC2 Procrustes certificate")))


def add_norm_case(ctx, entry, inputs, X, w, facs, zero_col=False):
    """cp_normalize of the implementation on the state (w, facs) vs the model's cp_normalize_m (norms as answer tape);
    float predicate: the normalised CP tensor represents the same tensor"""
    import tensorly as tl
    rank = facs[0].shape[1]
    w = np.ones(rank) if w is None else np.array(w, dtype=float)
    facs = [np.array(f, dtype=float) for f in facs]
    if zero_col and rank >= 2:
        facs[len(facs) // 2][:, rank - 1] = 0.0
    out = C.call_impl(tl.cp_tensor.cp_normalize, tl.cp_tensor.CPTensor((w.copy(), [f.copy() for f in facs])))
    if out[0] != "ok":
        raised(ctx, "tensorly.cp_tensor.cp_normalize", out[1]); return
    w2, f2 = out[1]
    w2 = np.array(w2, dtype=float); f2 = [np.array(f, dtype=float) for f in f2]
    before, after = cp_full(w, facs), cp_full(w2, f2)
    ctx.py_blocks += 1
    if not np.allclose(before, after, rtol=1e-9, atol=1e-12 * (1.0 + float(np.max(np.abs(before))))):
        ctx.chk.finding(entry, dict(inputs, state_w=w, state_facs=facs), "cp_normalize changed the represented tensor (so the objective after the normalisation "
                        "is not the objective after the sweep)", "C07_cp_normalize_invariant", observed=float(np.max(np.abs(before - after))), expected=0.0)
    tape = []
    for j, f in enumerate(facs):
        g = f * w[None, :] if j == 0 else f
        sc = np.linalg.norm(g, axis=0)
        tape.append((sc, np.where(sc == 0, 1.0, sc)))
    if X.size <= 40 and rank <= 3:
        ctx.add_case("norm", norm_case_lit, dict(X=X, w=w, facs=facs, rank=rank, tape=tape, w_impl=w2, facs_impl=f2),
                     dict(entry=entry, inputs=dict(inputs, kind="cp_normalize" + ("+zero column" if zero_col else ""))))


def reported_is_objective(ctx, entry, inputs, X, iterates, errs):
    """parafac reports sqrt(| ||X||^2 + cp_norm^2 - 2 iprod |) / ||X|| for the iterate it hands to the callback: by C07_cp_reported_is_sqerr
    this is sqrt(||X - [[w; A..]]||^2) / ||X|| (also with l2_reg, normalisation, line search).  Float predicate on every iteration; one
    iteration of small problems goes to Coq (Corr.C07.rep_agree: the model's formula == exact squared error == (reported * ||X||)^2)"""
    if len(iterates) != len(errs) + 1 or not len(errs):
        return
    n2 = float(np.sum(X * X))
    for i, e in enumerate(errs):
        wts, fs = iterates[i + 1]
        sq = float(np.sum((X - cp_full(wts, fs)) ** 2))
        ctx.py_blocks += 1
        sem(ctx, "parafac error formula")
        if not abs(float(e) ** 2 * n2 - sq) <= 1e-8 * (n2 + sq):
            ctx.chk.finding(entry, dict(inputs, iteration=i), f"reported error {float(e)!r} is not the error of the iterate handed to the callback: "
                            f"(reported * ||X||)^2 = {float(e) ** 2 * n2!r}, ||X - [[w; A..]]||^2 = {sq!r}", "C07_cp_reported_is_sqerr",
                            observed=float(e) ** 2 * n2, expected=sq)
            bad = i
            break
    else:
        bad = None
    if X.size <= 40 and fs[0].shape[1] <= 3:
        i = ctx.rng.randrange(len(errs)) if bad is None else bad
        wts, fs = iterates[i + 1]
        rank = fs[0].shape[1]
        ctx.add_case("rep", rep_case_lit, dict(X=X, w=np.ones(rank) if wts is None else wts, facs=fs, k=X.ndim - 1, rank=rank, rel=float(errs[i])),
                     dict(entry=entry, inputs=dict(inputs, iteration=i, kind="reported error")))


PENALISED = "C07_reported_history_with_penalty"


def penalised_known_active():
    """the class 'reported error under a penalty' is judged only once the coordinator has merged known_findings.d/C07.json into
    known_findings.json (until then the reported histories of penalised runs are counted, as before, not judged)"""
    try:
        return any(k.get("classifier") == "penalised_reported_error" for k in C.load_known("C07"))
    except Exception:
        return False


def penalised_reported_history(ctx, entry, inputs, errs, penalised_objs, what):
    """l2_reg (parafac) / sparsity (nn-HALS): the blocks descend on the PENALISED objective (C07_cp_history_monotone / C07_nn_history_monotone;
    judged by the caller through `penalised_objs`), the reported reconstruction error is then not monotone in general
    (C07_cp_l2_reported_refuted / C07_nn_sparsity_reported_refuted).  An increasing reported history of a penalised run whose penalised
    objective does descend is the documented class `penalised_reported_error` (KNOWN-FINDING); if the penalised objective increases too the
    caller's history_check reports a VIOLATION as for every other run"""
    i = monotone_violation(errs)
    ctx.chk.hist("penalised reported history", "non-increasing" if i is None else "increases (documented class)")
    if i is None or not penalised_known_active():
        return
    if penalised_objs is not None and monotone_violation(penalised_objs) is None:
        ctx.chk.finding(entry, inputs, f"{what}: the reported reconstruction error increases at sweep {i}->{i + 1} ({float(errs[i])!r} -> {float(errs[i + 1])!r}) "
                        "while the penalised objective the blocks solve descends", PENALISED,
                        observed=[float(x) for x in errs[max(0, i - 1):i + 3]], expected="non-increasing only without penalty")


def reported_matches(ctx, entry, inputs, errs, objs, tol=1e-6):
    """the error reported after sweep t is the relative error of the iterate after sweep t (recomputed from a prefix run with the same seed):
    ties the 'sequence of reported errors' to the objective the theorems speak about (C07_hooi_reported_monotone, C07_tr_reported_monotone,
    C07_parafac2_reported_monotone, C07_cp_reported_monotone).  Absolute tolerance in relative-error units (sqrt of a cancellation)"""
    for t, o in enumerate(objs):
        if t < len(errs):
            ctx.py_blocks += 1
            if entry in SEM_OF_ENTRY: sem(ctx, SEM_OF_ENTRY[entry])
            if not abs(float(errs[t]) - float(o)) <= tol * (1.0 + float(o)):
                ctx.chk.finding(entry, dict(inputs, sweep=t), f"reported error after sweep {t + 1} is {float(errs[t])!r} but the returned iterate has relative error {float(o)!r}",
                                "C07_reported_error_is_objective", observed=float(errs[t]), expected=float(o))
                return


def cp_objective_rel(X, w, facs, lam=0.0):
    rank = facs[0].shape[1]
    w = np.ones(rank) if w is None else np.asarray(w, dtype=float)
    sq = float(np.sum((X - cp_full(w, facs)) ** 2))
    if lam:
        sq += lam * sum(float(np.sum((f * w[None, :]) ** 2)) for f in facs)
    return math.sqrt(max(sq, 0.0)) / float(np.linalg.norm(X))


def run_corpus(ctx, _n=None):
    """minimised regression inputs (corpus/C07/*.json) that run first, independent of the seed"""
    import glob, json, os
    from tensorly.decomposition import _cp
    chk = ctx.chk
    entry = "tensorly.decomposition.parafac"
    for fn in sorted(glob.glob(os.path.join(os.environ.get("C07_CORPUS_DIR") or os.path.join(C.VERIF, "corpus", "C07"), "*.json"))):
        try:
            d = json.load(open(fn))
        except Exception:
            continue
        if d.get("kind") == "parafac2_nn_linesearch":
            corpus_parafac2(ctx, d, os.path.basename(fn))
            continue
        if d.get("kind") != "parafac_linesearch":
            continue
        r = np.random.RandomState(int(d["data_seed"]))
        shape, rank = tuple(d["shape"]), int(d["rank"])
        X = dense_problem(r, shape, rank, d["family"])
        if d.get("frobenius_norm"):
            X = X * (float(d["frobenius_norm"]) / float(np.linalg.norm(X)))
        kw = dict(n_iter_max=int(d.get("n_iter_max", 30)), tol=0, return_errors=True, init="random", random_state=int(d["random_state"]), linesearch=True)
        inputs = dict(shape=list(shape), rank=rank, variant="corpus:" + os.path.basename(fn), tensor=X, options=kw)
        iterates = []
        attempt(ctx, entry)
        with Capture() as cap:
            out = C.call_impl(_cp.parafac, X.copy(), rank,
                              callback=lambda cp, e: iterates.append((None if cp[0] is None else np.array(cp[0], dtype=float), [np.array(f, dtype=float) for f in cp[1]])) and None, **kw)
        chk.hist("algorithm", "parafac:corpus")
        if out[0] != "ok":
            raised(ctx, entry, out[1]); continue
        if cap.maxcond > COND_MAX:
            ctx.skipped_illcond += 1; continue
        history_check(ctx, entry, inputs, out[1][1])
        if iterates:
            history_check(ctx, entry, inputs, [cp_objective_rel(X, w, f) for (w, f) in iterates], what="objective recomputed from callback iterates")


def p2_active_problem(r, I, J, K, rank, noise):
    """PARAFAC2 data whose non-negative A and C have about half of their entries exactly zero (every row keeps one entry) + dense noise:
    the ALS iterates sit on the boundary of the orthant and the extrapolation of the line search leaves it (the clipping is ACTIVE)"""
    A = (r.rand(I, rank) + 0.3) * (r.rand(I, rank) < 0.5); A[np.arange(I), r.randint(rank, size=I)] += 0.5
    Cm = (r.rand(K, rank) + 0.3) * (r.rand(K, rank) < 0.5); Cm[np.arange(K), r.randint(rank, size=K)] += 0.5
    Bm = r.rand(rank, rank) + np.eye(rank)
    slices = []
    for i in range(I):
        P, _ = np.linalg.qr(r.randn(J, rank))
        S = (P @ Bm) @ np.diag(A[i]) @ Cm.T
        slices.append(S + noise * np.linalg.norm(S) / math.sqrt(S.size) * r.randn(J, K))
    return slices


def p2_rel_error(slices, dec):
    from tensorly.parafac2_tensor import parafac2_to_slices
    rec = parafac2_to_slices(dec)
    n2 = math.sqrt(sum(float(np.sum(sl ** 2)) for sl in slices))
    return math.sqrt(sum(float(np.sum((np.asarray(a) - np.asarray(b)) ** 2)) for a, b in zip(slices, rec))) / n2


class LineStepProbe:
    """records, for every call of PARAFAC2's line_step, whether the jump was accepted and whether the clipping of the non-negative modes changed
    the extrapolated point (evidence that a corpus / generated input exercises 'accepted AND clipped'); the call itself is untouched"""

    def __init__(self):
        self.calls = []

    def __enter__(self):
        from tensorly.decomposition import _parafac2
        self.cls = getattr(_parafac2, "_BroThesisLineSearch", None)
        if self.cls is None:
            return self
        self.orig = self.cls.line_step
        probe, orig = self, self.orig

        def line_step(ls, iteration, tensor_slices, factors_last, weights, factors, projections, rec_error):
            res = orig(ls, iteration, tensor_slices, factors_last, weights, factors, projections, rec_error)
            try:
                nn = ls.nn_modes if ls.nn_modes else []
                nn = range(len(factors)) if nn == "all" else nn
                accepted = res[0] is not factors
                clipped = False
                if accepted:
                    # the accepted point has an exact zero where the straight extrapolation is negative
                    for m_ in nn:
                        d_ = np.asarray(factors[m_], dtype=float) - np.asarray(factors_last[m_], dtype=float)
                        z_ = np.asarray(res[0][m_], dtype=float) == 0.0
                        if np.any(z_ & (d_ < 0)):
                            clipped = True
                probe.calls.append((int(iteration), accepted, clipped))
            except Exception:
                pass
            return res
        self.cls.line_step = line_step
        return self

    def __exit__(self, *a):
        if self.cls is not None:
            self.cls.line_step = self.orig
        return False


def corpus_parafac2(ctx, d, name):
    """corpus kind parafac2_nn_linesearch: parafac2(nn_modes=[0, 2], linesearch=True) stopped right after a line-search iteration whose jump is
    ACCEPTED and CLIPPED on the recorded code: the error reported last must be the error of the returned decomposition (the acceptance test judged the
    point it returns) and the history must be non-increasing"""
    from tensorly.decomposition import _parafac2
    chk = ctx.chk
    entry = "tensorly.decomposition.parafac2"
    I, J, K = [int(v) for v in d["shape"]]
    rank = int(d["rank"])
    slices = p2_active_problem(np.random.RandomState(int(d["data_seed"])), I, J, K, rank, float(d.get("noise", 0.3)))
    kw = dict(tol=1e-300, init="random", random_state=int(d["random_state"]), linesearch=True, nn_modes=[0, 2], return_errors=True)
    inputs = dict(shape=[I, J, K], rank=rank, variant="corpus:" + name, slices=slices, options=dict(kw, n_iter_max=int(d["n_iter_max"])))
    attempt(ctx, entry)
    with LineStepProbe() as lp:
        out = C.call_impl(_parafac2.parafac2, [s_.copy() for s_ in slices], rank, n_iter_max=int(d["n_iter_max"]), timeout=60, **kw)
    chk.hist("algorithm", "parafac2:corpus")
    if out[0] != "ok":
        raised(ctx, entry, out[1]); return
    last = lp.calls[-1] if lp.calls else None
    chk.hist("corpus parafac2 last line step", "accepted+clipped" if last and last[1] and last[2] else "accepted" if last and last[1] else "rejected / none")
    history_check(ctx, entry, inputs, out[1][1])
    reported_matches(ctx, entry, inputs, [out[1][1][-1]], [p2_rel_error(slices, out[1][0])])


PARAFAC_VARIANTS = ["plain", "normalize", "svd", "userinit", "l2", "linesearch", "fixed0", "normalize+userw", "linesearch+normalize",
                    "l2+normalize", "linesearch+dense", "fixed0+normalize", "linesearch+dense", "l2+normalize+userw", "fixed01", "linesearch+dense+normalize",
                    "linesearch+dense+small", "linesearch+dense", "linesearch+dense+large", "linesearch+dense+small+normalize"]


def run_parafac(ctx, n_runs):
    import tensorly as tl
    from tensorly.decomposition import _cp
    chk, rng = ctx.chk, ctx.rng
    entry = "tensorly.decomposition.parafac"
    shapes = [(3, 4), (4, 3), (2, 3, 4), (3, 3, 3), (4, 2, 3), (2, 2, 3, 3), (3, 2, 2, 2), (5, 4, 3), (6, 5)]
    dense_shapes = [(4, 3, 3), (5, 4, 3), (3, 3, 2, 2), (6, 5), (3, 4, 3)]
    variants = PARAFAC_VARIANTS
    for it in range(n_runs):
        variant = variants[it % len(variants)]
        dense = "dense" in variant
        if dense:
            shape = dense_shapes[(it // len(variants)) % len(dense_shapes)] if rng.random() < 0.5 else rng.choice(dense_shapes)
            rank = rng.choice([2, 3])
        else:
            shape = shapes[it % len(shapes)] if it < 2 * len(shapes) else rng.choice(shapes)
            rank = rng.choice([1, 2, 2, 2]) if min(shape) >= 2 else 1
        r = np_rng(rng)
        X = dense_problem(r, shape, rank, rng.choice(["randn", "collinear"])) if dense else lowrank(r, shape, rank, rng.choice([0.0, 0.05, 0.3]))
        # data far from unit Frobenius norm: relative and unnormalised errors differ by orders of magnitude, so an acceptance
        # test / stopping rule mixing the two shows up
        if "small" in variant: X = X * (0.05 / float(np.linalg.norm(X)))
        if "large" in variant: X = X * (40.0 / float(np.linalg.norm(X)))
        kw = dict(n_iter_max=8, tol=0, return_errors=True, init="random", random_state=r.randint(1 << 30))
        lam = 0.0
        if "normalize" in variant: kw["normalize_factors"] = True
        if variant == "svd" and rank <= min(shape): kw["init"] = "svd"
        if "user" in variant:
            w, facs = rand_cp_init(r, shape, rank, weights=("userw" in variant))
            kw["init"] = tl.cp_tensor.CPTensor((w, facs))
        if variant.startswith("l2"): lam = rng.choice([0.1, 0.5]); kw["l2_reg"] = lam
        if "linesearch" in variant: kw["linesearch"] = True; kw["n_iter_max"] = 30 if dense else 14
        if variant.startswith("fixed0") and len(shape) >= 3: kw["fixed_modes"] = [0, 1] if (variant == "fixed01") else [0]
        inputs = dict(shape=list(shape), rank=rank, variant=variant, tensor=X, options={k: (v if not hasattr(v, "factors") else "CPTensor") for k, v in kw.items()},
                      init=(None if "user" not in variant else [kw["init"][0]] + list(kw["init"][1])))
        iterates = []

        def cb(cp, err):
            wts, fs = cp
            iterates.append((None if wts is None else np.array(wts, dtype=float), [np.array(f, dtype=float) for f in fs]))
        attempt(ctx, entry)
        with Capture() as cap:
            out = C.call_impl(_cp.parafac, X.copy(), rank, callback=cb, **kw)
        chk.hist("algorithm", "parafac:" + variant); chk.hist("order", len(shape))
        if out[0] != "ok":
            raised(ctx, entry, out[1])
            continue
        (_, errs) = out[1]
        if cap.maxcond > COND_MAX:
            ctx.skipped_illcond += 1
            continue
        if lam == 0.0:
            history_check(ctx, entry, inputs, errs)
            if "linesearch" in variant and len(iterates) == len(errs) + 1:     # line-search iterations whose outcome is judged (history + reported == error of the iterate)
                sem(ctx, "parafac line-search acceptance", len([i_ for i_ in range(len(errs)) if i_ % 2 == 0 and i_ > 5]))
        elif iterates and "normalize" not in variant:
            penalised_reported_history(ctx, entry, inputs, errs, [cp_objective_rel(X, wts, fs, lam) for (wts, fs) in iterates[1:]], "parafac(l2_reg=%g)" % lam)
        # objective recomputed from the iterates handed to the callback (initial guess first): ||X - [[w; A..]]||^2 (+ the
        # ridge terms of all modes; a renormalisation changes those, so with l2_reg and normalize_factors only blocks are judged)
        if iterates and not (lam and "normalize" in variant):
            objs = [cp_objective_rel(X, wts, fs, lam) for (wts, fs) in iterates]
            history_check(ctx, entry, inputs, objs, what="objective recomputed from callback iterates")
        add_cp_blocks(ctx, entry, inputs, cap, lam, max_blocks=4 if ctx.tier == "quick" else 6)
        reported_is_objective(ctx, entry, inputs, X, iterates, errs)
        ctx.add_case("modes", modes_case_lit, dict(n=len(shape), fixed=list(kw.get("fixed_modes", [])), is_nn=False, observed=first_sweep_modes(cap)),
                     dict(entry=entry, inputs=dict(inputs, kind="updated modes")))
        if "normalize" in variant and len(iterates) >= 2:
            # the state the implementation hands to cp_normalize after a sweep: previous weights, freshly updated factors
            wts, fs = iterates[rng.randrange(1, len(iterates))]
            add_norm_case(ctx, entry, inputs, X, wts, fs, zero_col=(it % 5 == 1))
        if it < 3:
            chk.sample(dict(algorithm="parafac", variant=variant, shape=list(shape), rank=rank, errors=[float(e) for e in errs][:6], blocks=len(cap.blocks)))
    run_parafac_matrix_normalized(ctx)


def run_parafac_matrix_normalized(ctx):
    """ORDER-2 tensors (matrices) with normalize_factors=True: the only configuration in which the MTTKRP goes through khatri_rao's single-matrix
    shortcut WITH non-trivial weights (after the first normalisation the weights differ from 1; for order >= 3 the general branch applies them).
    A small deterministic family (own random stream derived from the seed, so the other families see the same draws as without it): svd and random
    initialisation, history + objective recomputed from the callback iterates + reported == error of the iterate + float block predicates on every
    block, and the first two blocks of the SECOND sweep (weights already normalised) as exact Coq block cases under their own variant group"""
    import tensorly as tl
    from tensorly.decomposition import _cp
    chk = ctx.chk
    entry = "tensorly.decomposition.parafac"
    saved_rng = ctx.rng
    ctx.rng = random.Random((chk.seed * 1000003 + 7) & 0x7fffffff)
    try:
        r = np_rng(ctx.rng)
        plan = [((4, 3), "svd", 2, 0.05), ((5, 4), "random", 2, 0.3), ((3, 5), "svd", 2, 0.3), ((6, 4), "random", 1, 0.05),
                ((6, 5), "random", 2, None), ((5, 5), "random", 2, None), ((7, 4), "random", 2, None)]
        for j, (shape, init, rank, noise) in enumerate(plan):
            kw = dict(n_iter_max=8, tol=0, return_errors=True, init=init, random_state=r.randint(1 << 30), normalize_factors=True)
            variant = "normalize+matrix"
            if noise is not None:
                X = lowrank(r, shape, rank, noise)
            else:
                # line search on a matrix with normalised factors: the error of the jump is computed from the full reconstruction cp_to_tensor((weights,
                # factors)) of an ORDER-2 CP tensor with weights != 1.  Dense matrix with a flat spectrum (slow ALS convergence: jumps get accepted),
                # rescaled with the weights of a short preliminary run so that the weights of the judged run are close to (not equal to) 1: a
                # reconstruction that loses the weights is then NEARLY right - the jump is accepted on a slightly wrong error, which the predicate
                # 'reported error == error of the iterate' (1e-8) sees
                m_, n_ = shape
                U_, _ = np.linalg.qr(r.randn(m_, m_)); V_, _ = np.linalg.qr(r.randn(n_, n_))
                spec_ = np.array([[1.02, 0.98, 0.9, 0.8, 0.7], [1.1, 0.95, 0.85, 0.8, 0.6], [1.0, 1.0, 0.92, 0.85, 0.5]][j % 3][:min(m_, n_)])
                X = (U_[:, :len(spec_)] * spec_) @ V_[:, :len(spec_)].T
                pre = C.call_impl(_cp.parafac, X.copy(), rank, n_iter_max=6, tol=0, init=init, random_state=kw["random_state"], normalize_factors=True)
                if pre[0] != "ok":
                    raised(ctx, entry, pre[1]); continue
                wbar = float(np.mean(np.abs(np.asarray(pre[1][0], dtype=float))))
                if not (np.isfinite(wbar) and wbar > 1e-6):
                    ctx.skipped_illcond += 1; continue
                X = X / wbar
                kw.update(linesearch=True, n_iter_max=14)
                variant = "normalize+matrix+linesearch"
            inputs = dict(shape=list(shape), rank=rank, variant=variant, tensor=X, options=dict(kw), init=None)
            iterates = []

            def cb(cp, err):
                wts, fs = cp
                iterates.append((None if wts is None else np.array(wts, dtype=float), [np.array(f, dtype=float) for f in fs]))
            attempt(ctx, entry)
            with Capture() as cap:
                out = C.call_impl(_cp.parafac, X.copy(), rank, callback=cb, **kw)
            chk.hist("algorithm", "parafac:" + variant); chk.hist("order", len(shape))
            if out[0] != "ok":
                raised(ctx, entry, out[1])
                continue
            (_, errs) = out[1]
            if cap.maxcond > COND_MAX:
                ctx.skipped_illcond += 1
                continue
            history_check(ctx, entry, inputs, errs)
            if "linesearch" in variant and len(iterates) == len(errs) + 1:
                sem(ctx, "parafac line-search acceptance", len([i_ for i_ in range(len(errs)) if i_ % 2 == 0 and i_ > 5]))
            if iterates:
                history_check(ctx, entry, inputs, [cp_objective_rel(X, wts, fs, 0.0) for (wts, fs) in iterates], what="objective recomputed from callback iterates")
            # float predicate on every block; exact candidates: the two blocks of the second sweep (captured with the normalised weights)
            blocks = cap.blocks
            cap.blocks = blocks[2:] + blocks[:2] if len(blocks) >= 4 else blocks
            add_cp_blocks(ctx, entry, inputs, cap, 0.0, max_blocks=2)
            cap.blocks = blocks
            reported_is_objective(ctx, entry, inputs, X, iterates, errs)
    finally:
        ctx.rng = saved_rng


def run_fixed_modes(ctx, n_runs):
    """option parsing of parafac's fixed_modes: unsorted lists, the last mode 'fixed' (ignored with a warning), all modes fixed (early exit:
    the initialisation is returned, no sweep); the modes updated by the first sweep must be the model's cp_modes_list"""
    import tensorly as tl
    from tensorly.decomposition import _cp
    chk, rng = ctx.chk, ctx.rng
    entry = "tensorly.decomposition.parafac"
    for it in range(n_runs):
        shape = [(3, 2, 2), (2, 3, 2, 2), (3, 3)][it % 3]
        nd = len(shape)
        fixed = [[nd - 1], list(range(nd))[::-1], [nd - 1, 0], list(range(nd)), [1, 0] if nd > 2 else [0], rng.sample(range(nd), rng.randrange(1, nd + 1))][it % 6]
        r = np_rng(rng)
        X = lowrank(r, shape, 2, 0.1)
        w, facs = rand_cp_init(r, shape, 2)
        kw = dict(n_iter_max=3, tol=0, init=tl.cp_tensor.CPTensor((w, [f.copy() for f in facs])), fixed_modes=list(fixed))
        inputs = dict(shape=list(shape), rank=2, variant="fixed_modes=" + str(fixed), tensor=X, init=[w] + facs, options=dict(n_iter_max=3, tol=0, fixed_modes=list(fixed)))
        attempt(ctx, entry)
        with Capture() as cap:
            out = C.call_impl(_cp.parafac, X.copy(), 2, **kw)
        chk.hist("algorithm", "parafac:fixed_modes parsing")
        if out[0] != "ok":
            raised(ctx, entry, out[1]); continue
        ctx.judged[entry] = ctx.judged.get(entry, 0) + 1
        observed = first_sweep_modes(cap)
        chk.count(key=(entry, "fixed_modes", tuple(shape), tuple(fixed)), nontrivial=True)
        # a fixed factor must come back unchanged (so the blocks really are the only updates)
        try:
            res_f = [np.asarray(f, dtype=float) for f in out[1][1]]
        except Exception:
            res_f = None
        if res_f is not None:
            for k in range(nd):
                if k in fixed and k not in observed and not np.array_equal(res_f[k], facs[k]):
                    chk.finding(entry, dict(inputs, mode=k), f"factor of the fixed mode {k} was changed although no block updates it", "C07_cp_modes_list")
        ctx.add_case("modes", modes_case_lit, dict(n=nd, fixed=list(fixed), is_nn=False, observed=observed),
                     dict(entry=entry, inputs=dict(inputs, kind="updated modes (fixed_modes parsing)")))


def run_nn_hals(ctx, n_runs):
    from tensorly.decomposition import _nn_cp
    chk, rng = ctx.chk, ctx.rng
    entry = "tensorly.decomposition.non_negative_parafac_hals"
    shapes = [(3, 4), (2, 3, 4), (3, 3, 2), (2, 2, 2, 3), (4, 3, 3)]
    variants = ["all", "nn0", "sparse", "normalize", "fixed1", "fixedlast", "nn02+normalize", "sparse+nn0", "fixed0+normalize"]
    for it in range(n_runs):
        shape = shapes[it % len(shapes)]
        rank = rng.choice([1, 2, 2])
        variant = variants[it % len(variants)]
        r = np_rng(rng)
        X = lowrank(r, shape, rank, rng.choice([0.0, 0.1]), nonneg=True)
        nd = len(shape)
        kw = dict(tol=1e-300, return_errors=True, init="random", random_state=r.randint(1 << 30))
        if "nn02" in variant: kw["nn_modes"] = [0, nd - 1]
        elif "nn0" in variant: kw["nn_modes"] = [0]
        sparsity = None
        if "sparse" in variant:
            sparsity = [rng.choice([0.05, 0.2]) for _ in shape]
            kw["sparsity_coefficients"] = list(sparsity)
        if "normalize" in variant: kw["normalize_factors"] = True
        if "fixed1" in variant: kw["fixed_modes"] = [1]
        if "fixedlast" in variant: kw["fixed_modes"] = [nd - 1]
        if "fixed0" in variant: kw["fixed_modes"] = [0]
        inputs = dict(shape=list(shape), rank=rank, variant=variant, tensor=X, options=kw)
        attempt(ctx, entry)
        with Capture() as cap:
            out = C.call_impl(_nn_cp.non_negative_parafac_hals, X.copy(), rank, n_iter_max=6, **kw)
        chk.hist("algorithm", "non_negative_parafac_hals:" + variant); chk.hist("order", nd)
        if out[0] != "ok":
            raised(ctx, entry, out[1])
            continue
        (_, errs) = out[1]
        if cap.maxcond > COND_MAX:
            ctx.skipped_illcond += 1
            continue
        if sparsity is None:   # with an l1 term the reported reconstruction error is not the objective
            history_check(ctx, entry, inputs, errs)
        # objective recomputed from prefix runs (same seed => same trajectory):
        #   1/2 ||X - [[w; A..]]||^2 + sum over the non-negative modes of sparsity_k * sum(A_k)
        nn = set(range(nd)) if "nn_modes" not in kw else set(kw["nn_modes"])
        fixed = set(kw.get("fixed_modes", []))
        objs, ok = [], True
        if not ("sparse" in variant and "normalize" in variant):
            for nit in range(1, 6):
                o2 = C.call_impl(_nn_cp.non_negative_parafac_hals, X.copy(), rank, n_iter_max=nit, **kw)
                if o2[0] != "ok":
                    ok = False; break
                (wts, fs), _ = o2[1]
                fs = [np.asarray(f, dtype=float) for f in fs]
                val = 0.5 * float(np.sum((X - cp_full(None if wts is None else np.asarray(wts, dtype=float), fs)) ** 2))
                if sparsity is not None:
                    val += sum(sparsity[k] * float(np.sum(fs[k])) for k in range(nd) if k in nn and k not in fixed)
                objs.append(val)
            if ok and objs:
                n2 = 0.5 * float(np.sum(X ** 2))
                history_check(ctx, entry, inputs, [math.sqrt(max(o, 0.0) / n2) for o in objs] if sparsity is None else [o / n2 for o in objs],
                              what="objective recomputed from prefix runs")
                if sparsity is None:
                    reported_matches(ctx, entry, inputs, errs, [math.sqrt(max(o, 0.0) / n2) for o in objs])
                else:
                    penalised_reported_history(ctx, entry, inputs, errs[:len(objs)], [o / n2 for o in objs], "non_negative_parafac_hals(sparsity)")
        ctx.add_case("modes", modes_case_lit, dict(n=nd, fixed=list(kw.get("fixed_modes", [])), is_nn=True, observed=first_sweep_modes(cap)),
                     dict(entry=entry, inputs=dict(inputs, kind="updated modes")))
        for hb in cap.halsruns:
            hals_float_check(ctx, entry + " (inner hals_nnls)", inputs, hb)
        if sparsity is None:
            add_cp_blocks(ctx, entry, inputs, cap, 0.0, max_blocks=3)
        else:
            for b in cap.blocks[:2]:
                if b["kind"] == "hals":
                    add_hals_case(ctx, entry + " (inner hals_nnls)", dict(inputs, mode=b["mode"]), b["hals"])


def run_hals_nnls(ctx, n_runs):
    from tensorly.solvers.nnls import hals_nnls
    chk, rng = ctx.chk, ctx.rng
    entry = "tensorly.solvers.nnls.hals_nnls"
    for it in range(n_runs):
        r = np_rng(rng)
        m, rk, n = rng.choice([3, 4, 5]), rng.choice([1, 2, 3]), rng.choice([1, 2, 4])
        U = r.rand(m, rk) + 0.1
        zero_col = (it % 7 == 3 and rk >= 2)
        if zero_col: U[:, 1] = 0.0
        M = r.rand(m, n) if it % 3 else U @ (r.rand(rk, n) + 0.1)
        if it % 5 == 4: M = M - 0.6            # right-hand sides of mixed sign: the clipping is active
        G = U.T @ U; G = (G + G.T) / 2
        B = U.T @ M
        l1 = [None, 0.1, None, 0.3][it % 4]
        l2 = [None, None, 0.2, 0.05][(it // 2) % 4]
        eps = [0.0, 0.0, 0.01][it % 3]
        default_init = (it % 6 == 5 and not zero_col)      # V=None: solve + clip + rescale inside hals_nnls
        V0 = r.rand(rk, n) + eps + 0.05
        its = [] if default_init else [V0.copy()]
        kw = dict(n_iter_max=4, tol=0, sparsity_coefficient=l1, ridge_coefficient=l2, epsilon=eps)
        nzr = (it % 9 == 7 and not zero_col)     # nonzero_rows=True: an all-zero row is lifted to machine-epsilon size (not in the model)
        if nzr: kw["nonzero_rows"] = True
        inputs = dict(UtU=G, UtM=B, V0=None if default_init else V0, options=kw)
        attempt(ctx, entry)
        out = C.call_impl(lambda: hals_nnls(B.copy(), G.copy(), None if default_init else V0.copy(),
                                            callback=lambda V, e: its.append(np.array(V, dtype=float)) and None, **kw))
        chk.hist("algorithm", "hals_nnls")
        if out[0] != "ok":
            raised(ctx, entry, out[1]); continue
        ctx.judged[entry] = ctx.judged.get(entry, 0) + 1
        if its and not np.all(np.isfinite(its[0])):
            # the statement is about passes started from an iterate; a non-finite starting point (produced by the default
            # initialisation, not by a pass) says nothing about descent: skipped and counted
            ctx.skipped_illcond += 1
            chk.hist("raised", entry + ": non-finite initial iterate")
            continue
        objs = [hals_objective(G, B, V, l1 or 0.0, l2 or 0.0) for V in its]
        scale = float(np.sum(np.abs(B)) + 1.0)
        chk.count(key=("hals_nnls", m, rk, n, l1, l2, eps, zero_col, default_init), nontrivial=True)
        i = monotone_violation([o / scale for o in objs], 1e-9)
        if i is not None:
            chk.finding(entry, inputs, f"objective increases at pass {i}->{i + 1}: {objs[i]!r} -> {objs[i + 1]!r}",
                        "C07_hals_history_monotone", observed=objs, expected="non-increasing")
        if any(np.any(V < eps) for V in its[1:]):
            chk.finding(entry, inputs, "iterate below epsilon", "C07_hals_feasible")
        if not nzr:
            add_hals_case(ctx, entry, inputs, dict(G=G, B=B, iterates=its, l1=l1 or 0.0, l2=l2 or 0.0, eps=eps))


def run_tucker(ctx, n_runs):
    import tensorly as tl
    from tensorly.decomposition import _tucker
    chk, rng = ctx.chk, ctx.rng
    shapes = [(4, 3), (3, 4, 3), (4, 4, 3), (3, 3, 2, 3), (5, 4, 4), (4, 3, 5)]
    pshapes = [(3, 3, 3), (4, 3, 5), (4, 4, 4), (3, 3, 2, 3), (4, 4, 3)]     # equal mode sizes: a mode/index mix-up stays shape-correct
    for it in range(n_runs):
        shape = pshapes[(it // 3) % len(pshapes)] if it % 3 == 2 else shapes[it % len(shapes)]
        nd = len(shape)
        r = np_rng(rng)
        X = lowrank(r, shape, 2, rng.choice([0.1, 0.5])) + 0.3 * r.randn(*shape)
        init = ["svd", "random"][it % 2]
        partial = (it % 3 == 2 and nd >= 3)
        if partial:     # partial_tucker on a proper subset of the modes, in any order
            modes = rng.sample(range(nd), rng.choice([1, 2]) if nd == 3 else rng.choice([2, 3]))
            if rng.random() < 0.5: modes = sorted(modes)
            ranks = [rng.choice([1, 2]) for _ in modes]
            fn, entry = _tucker.partial_tucker, "tensorly.decomposition.partial_tucker"
            kw = dict(rank=ranks, modes=list(modes), tol=0, init=init, random_state=r.randint(1 << 30))
        else:
            modes = list(range(nd))
            ranks = [rng.choice([1, 2]) for _ in shape]
            fn, entry = _tucker.tucker, "tensorly.decomposition.tucker"
            kw = dict(rank=ranks, tol=0, init=init, random_state=r.randint(1 << 30), return_errors=True)
        inputs = dict(shape=list(shape), rank=ranks, variant=init + ("+partial" + str(list(modes)) if partial else ""), tensor=X, options=kw)
        attempt(ctx, entry)
        with Capture() as cap:
            out = C.call_impl(fn, X.copy(), n_iter_max=8, **kw)
        chk.hist("algorithm", ("partial_tucker:" if partial else "tucker:") + init); chk.hist("order", nd)
        if out[0] != "ok":
            raised(ctx, entry, out[1]); continue
        history_check(ctx, entry, inputs, out[1][1])
        # SVD calls of the initialisation come first (init='svd': one per mode); every later one is a HOOI block
        check_hooi_tape(ctx, entry, inputs, cap, hooi_only_after=(len(modes) if init == "svd" else 0))
        # one HOOI block for the exact check: factors before / after block j of sweep t (answers of the captured SVD calls; the
        # identity on the modes that are not decomposed), core recomputed by the implementation from the factors after the block
        m = len(modes)
        off = len(cap.hooi_svds) - 8 * m
        stale = None
        if off in (0, m):
            # EVERY block of every sweep after the first: the matrix handed to the SVD is the mode-k unfolding of X projected on the CURRENT
            # other factors (compared through Y Y', which is what the block and the objective depend on)
            ans = lambda tt, jj: cap.hooi_svds[off + tt * m + jj]["U"]
            for tt in range(1, 8):
                for jj in range(m):
                    fb_ = [ans(tt, q) if q < jj else ans(tt - 1, q) for q in range(m)]
                    if not all(f.shape == (shape[modes[q]], ranks[q]) for q, f in enumerate(fb_)):
                        continue
                    T = X
                    for q in range(m):
                        if q != jj:
                            T = np.moveaxis(np.tensordot(fb_[q].T, T, axes=(1, modes[q])), 0, modes[q])
                    Yexp = np.moveaxis(T, modes[jj], 0).reshape(shape[modes[jj]], -1)
                    Yimp = cap.hooi_svds[off + tt * m + jj]["Y"]
                    ctx.py_blocks += 1
                    if Yimp.shape[0] != Yexp.shape[0] or not np.allclose(Yimp @ Yimp.T, Yexp @ Yexp.T, rtol=0, atol=1e-9 * (float(np.sum(Yexp * Yexp)) + 1e-300)):
                        if stale is None:
                            stale = (tt, jj)
                            chk.finding(entry, dict(inputs, sweep=tt, block=jj), "the matrix handed to the SVD of a HOOI block is not the unfolding of the tensor projected on the "
                                        "current other factors (Gram matrices differ)", "C07_core_norm_unfolding", observed=float(np.max(np.abs(Yimp @ Yimp.T - Yexp @ Yexp.T))) if Yimp.shape[0] == Yexp.shape[0] else "shape", expected=0.0)
        if off in (0, m) and X.size <= 64:
            t, j = stale if stale is not None else (rng.randrange(1, 8), rng.randrange(m))
            ans = lambda tt, jj: cap.hooi_svds[off + tt * m + jj]["U"]
            fb = [ans(t, jj) if jj < j else ans(t - 1, jj) for jj in range(m)]
            fa = [ans(t, jj) if jj <= j else ans(t - 1, jj) for jj in range(m)]
            if all(f.shape == (shape[modes[jj]], ranks[jj]) for jj, f in enumerate(fa)):
                def full(fs):
                    Us = [np.eye(d) for d in shape]
                    for jj, f in enumerate(fs):
                        Us[modes[jj]] = f
                    return Us
                rs_full = [int(U.shape[1]) for U in full(fa)]
                core = np.asarray(tl.tenalg.multi_mode_dot(X, fa, modes=list(modes), transpose=True), dtype=float)
                Ysvd = cap.hooi_svds[off + t * m + j]["Y"]       # the matrix handed to the SVD of this block
                if (int(np.prod(rs_full)) <= 32 and list(core.shape) == rs_full
                        and Ysvd.shape == (shape[modes[j]], int(np.prod(rs_full)) // rs_full[modes[j]])):
                    ctx.add_case("tk", tk_case_lit, dict(X=X, rs=rs_full, before=full(fb), after=full(fa), core=core.ravel(), k=modes[j], Y=Ysvd),
                                 dict(entry=entry, inputs=dict(inputs, sweep=t, block=j, kind="hooi block")))
        # a WHOLE sweep, block by block, with the error reported for it (multi-step exact check, Corr.C07.tksweep_agree)
        errs_t = out[1][1]
        if off in (0, m) and X.size <= 48 and len(errs_t) == 8:
            tt = rng.randrange(1, 8)
            ans = lambda t_, q: cap.hooi_svds[off + t_ * m + q]["U"]
            states = []
            for j_ in range(-1, m):
                Us = [np.eye(d) for d in shape]
                for q in range(m):
                    Us[modes[q]] = ans(tt, q) if q <= j_ else ans(tt - 1, q)
                states.append(Us)
            rs_f = [int(U.shape[1]) for U in states[0]]
            if (int(np.prod(rs_f)) <= 32 and all(U.shape == (shape[a], rs_f[a]) for st in states for a, U in enumerate(st))):
                ctx.add_case("tks", tksweep_case_lit, dict(X=X, rs=rs_f, states=states, rel=float(errs_t[tt])),
                             dict(entry=entry, inputs=dict(inputs, sweep=tt, kind="whole hooi sweep + reported error")))
        # objective recomputed from prefix runs: || X - core x_modes factors || / ||X||
        objs, ok = [], True
        for nit in range(1, 6):
            o2 = C.call_impl(fn, X.copy(), n_iter_max=nit, **kw)
            if o2[0] != "ok":
                ok = False; break
            (core, facs), _ = o2[1]
            rec = tl.tenalg.multi_mode_dot(np.asarray(core), [np.asarray(f) for f in facs], modes=list(modes))
            objs.append(float(np.linalg.norm(X - np.asarray(rec))) / float(np.linalg.norm(X)))
        if ok:
            history_check(ctx, entry, inputs, objs, what="objective recomputed from prefix runs")
            reported_matches(ctx, entry, inputs, out[1][1], objs)


def run_tucker_svd(ctx, n_runs):
    """tucker / partial_tucker with svd= variants on data with a FLAT spectrum (dense noise), tol = 0, many sweeps: the svd= option selects the
    SVD of the initialisation; the factor blocks inside the sweeps must be solved exactly whatever svd= says (every SVD answer of a sweep
    attains the Ky Fan optimum: check_hooi_tape; reported and recomputed errors non-increasing over all sweeps)"""
    import tensorly as tl
    from tensorly.decomposition import _tucker
    chk, rng = ctx.chk, ctx.rng
    for it in range(n_runs):
        big = it % 2 == 0
        shape, ranks, sweeps = ((40, 40, 40), [6, 6, 6], 40) if big and it % 4 == 0 else ((16, 15, 14), [4, 4, 3], 30) if big else ((9, 8, 7, 6), [3, 3, 2, 2], 25)
        svd = ["randomized_svd", "symeig_svd", "randomized_svd", "truncated_svd"][(it // 2) % 4] if it % 2 == 0 else ["randomized_svd", "symeig_svd"][(it // 2) % 2]
        ds = rng.randrange(2 ** 31 - 1)
        r = np.random.RandomState(ds)
        X = r.randn(*shape)                                   # dense noise: flat spectrum, an inexact SVD shows
        partial = (it % 3 == 2)
        if partial:
            modes = sorted(rng.sample(range(len(shape)), 2)); rk = [ranks[m] for m in modes]
            fn, entry = _tucker.partial_tucker, "tensorly.decomposition.partial_tucker"
            kw = dict(rank=rk, modes=list(modes), tol=0, init="svd", svd=svd, random_state=r.randint(1 << 30))
        else:
            modes = list(range(len(shape))); rk = list(ranks)
            fn, entry = _tucker.tucker, "tensorly.decomposition.tucker"
            kw = dict(rank=rk, tol=0, init="svd", svd=svd, random_state=r.randint(1 << 30), return_errors=True)
        inputs = dict(shape=list(shape), rank=rk, variant="svd=" + svd + ("+partial" + str(modes) if partial else ""), options=dict(kw, n_iter_max=sweeps),
                      tensor=X if X.size <= 4000 else "numpy.random.RandomState(data_seed).randn(*shape)", data_seed=ds)
        attempt(ctx, entry)
        with Capture() as cap:
            out = C.call_impl(fn, X.copy(), n_iter_max=sweeps, **kw)
        chk.hist("algorithm", ("partial_tucker:" if partial else "tucker:") + "svd=" + svd)
        if out[0] != "ok":
            raised(ctx, entry, out[1]); continue
        errs = out[1][1]
        history_check(ctx, entry, inputs, errs)
        check_hooi_tape(ctx, entry, inputs, cap, hooi_only_after=len(modes))
        (core, facs) = out[1][0]
        rec = tl.tenalg.multi_mode_dot(np.asarray(core), [np.asarray(f) for f in facs], modes=list(modes))
        final = float(np.linalg.norm(X - np.asarray(rec))) / float(np.linalg.norm(X))
        reported_matches(ctx, entry, inputs, [errs[-1]], [final])
        # objective recomputed from prefix runs (same seed => same trajectory), spread over the run
        objs, ok = [], True
        pts = sorted({1, 2, sweeps // 4, sweeps // 2, (3 * sweeps) // 4, sweeps})
        for nit in pts:
            o2 = C.call_impl(fn, X.copy(), n_iter_max=nit, **kw)
            if o2[0] != "ok":
                ok = False; break
            (c2, f2), _ = o2[1]
            rec2 = tl.tenalg.multi_mode_dot(np.asarray(c2), [np.asarray(f) for f in f2], modes=list(modes))
            objs.append(float(np.linalg.norm(X - np.asarray(rec2))) / float(np.linalg.norm(X)))
        if ok:
            history_check(ctx, entry, inputs, objs, what="objective recomputed from prefix runs")
            reported_matches(ctx, entry, inputs, [errs[p_ - 1] for p_ in pts], objs)


def run_parafac2(ctx, n_runs):
    from tensorly.decomposition import _parafac2
    from tensorly.parafac2_tensor import parafac2_to_slices
    chk, rng = ctx.chk, ctx.rng
    entry = "tensorly.decomposition.parafac2"
    nmax_off = rng.randrange(4)
    for it in range(n_runs):
        r = np_rng(rng)
        I, J, K, rank = rng.choice([3, 4]), rng.choice([4, 5]), rng.choice([3, 4]), rng.choice([1, 2, 2])
        variant = ["plain", "normalize", "linesearch", "nn", "normalize+linesearch", "nn+linesearch", "nn+linesearch+active", "nn+linesearch+active" if ctx.tier != "quick" else "nn+linesearch"][it % 8]
        nonneg = "nn" in variant
        if "normalize" in variant: rank = 2     # with one component the weights are a common scale: nothing for the absorption to get wrong
        A = (r.rand(I, rank) + 0.3) * (1 if nonneg else r.choice([-1.0, 1.0], size=(I, rank)))
        Bm = r.rand(rank, rank) + np.eye(rank)
        Cm = (r.rand(K, rank) + 0.1) if nonneg else r.randn(K, rank)
        if "active" in variant:
            # ACTIVE non-negativity: the non-negative factors A and C of the generating model have about half of their entries exactly zero
            # (every row / column keeps one entry), dense noise: the ALS iterates sit on the boundary and the extrapolation leaves the orthant
            I, J, K, rank = 6, 6, 6, 3
            A = (r.rand(I, rank) + 0.3) * (r.rand(I, rank) < 0.5); A[np.arange(I), r.randint(rank, size=I)] += 0.5
            Cm = (r.rand(K, rank) + 0.3) * (r.rand(K, rank) < 0.5); Cm[np.arange(K), r.randint(rank, size=K)] += 0.5
            Bm = r.rand(rank, rank) + np.eye(rank)
        slices = []
        for i in range(I):
            P, _ = np.linalg.qr(r.randn(J, rank))
            S = (P @ Bm) @ np.diag(A[i]) @ Cm.T
            slices.append(S + (0.35 if "normalize" in variant else 0.3 if "active" in variant else rng.choice([0.1, 0.4])) * np.linalg.norm(S) / math.sqrt(S.size) * r.randn(J, K))
        ls = "linesearch" in variant
        if ls and it % 2 == 0:
            c = 0.05 / math.sqrt(sum(float(np.sum(sl ** 2)) for sl in slices))
            slices = [sl * c for sl in slices]; variant += "+small"
        kw = dict(tol=1e-300, init="random", random_state=r.randint(1 << 30), linesearch=ls, return_errors=True)
        if nonneg: kw["nn_modes"] = [0, 2]
        if "normalize" in variant: kw["normalize_factors"] = True
        nmax = ((14 if ctx.tier == "quick" else 22) if "active" in variant else 14) if ls else 7
        if ls and ctx.tier == "quick":
            # line-search iterations are the iterations 6, 8, 10, 12 (0-based): stopping right after one makes the error reported LAST the one line_step
            # returned, so the check 'final reported error == error of the returned decomposition' judges the accept/reject decision at no extra cost
            nmax = [13, 7, 9, 11][(it // 8 + nmax_off) % 4] if "active" not in variant else [9, 13, 7, 11][(it // 8 + nmax_off) % 4]
        inputs = dict(shape=[I, J, K], rank=rank, variant=variant, slices=slices, options=kw)
        attempt(ctx, entry)
        with Capture() as cap:
            out = C.call_impl(_parafac2.parafac2, [s.copy() for s in slices], rank, n_iter_max=nmax, timeout=60, **kw)
        chk.hist("algorithm", "parafac2:" + variant)
        if out[0] != "ok":
            raised(ctx, entry, out[1]); continue
        history_check(ctx, entry, inputs, out[1][1])
        check_p2_tape(ctx, entry, inputs, cap)
        # objective recomputed from prefix runs: sqrt(sum_i ||X_i - P_i B diag(a_i) C'||^2) / ||X||
        n2 = math.sqrt(sum(float(np.sum(sl ** 2)) for sl in slices))
        objs, ok = [], True
        prefixes = list(range(1, nmax + 1))
        if "active" in variant:      # long runs: the line search starts after sweep 6; a few prefixes spread over the run
            prefixes = [2, 7, 9, 13, 22]
        elif ls:                     # thorough, line search: every prefix that ends in a line-search iteration and a few ALS ones
            prefixes = [2, 4, 6, 7, 8, 9, 11, 13]
        if ctx.tier == "quick":
            # quick: a few prefix runs per run instead of all (a sub-sequence of a non-increasing history is non-increasing); with the line search
            # the prefixes that END in a line-search iteration (7, 9, 11) are the informative ones, the final one is judged above without a prefix run
            if ls:
                prefixes = [p_ for p_ in ([2, 7] if it % 2 == 0 else [7, 9] if "active" not in variant else [7]) if p_ < nmax]
            else:
                prefixes = [1, 3, 5] if it % 2 == 0 else [2, 4]
        # the error reported last belongs to the returned decomposition (no prefix run needed)
        rec_f = parafac2_to_slices(out[1][0])
        final = math.sqrt(sum(float(np.sum((np.asarray(a) - np.asarray(b)) ** 2)) for a, b in zip(slices, rec_f))) / n2
        reported_matches(ctx, entry, inputs, [out[1][1][-1]], [final])
        for nit in prefixes:
            o2 = C.call_impl(_parafac2.parafac2, [s.copy() for s in slices], rank, n_iter_max=nit, timeout=60, **kw)
            if o2[0] != "ok":
                ok = False; break
            rec = parafac2_to_slices(o2[1][0])
            objs.append(math.sqrt(sum(float(np.sum((np.asarray(a) - np.asarray(b)) ** 2)) for a, b in zip(slices, rec))) / n2)
        if ok:
            history_check(ctx, entry, inputs, objs, what="objective recomputed from prefix runs")
            reported_matches(ctx, entry, inputs, [out[1][1][t - 1] for t in prefixes if t - 1 < len(out[1][1])], objs)


def run_p2_linestep(ctx, n_runs):
    """the accept/reject decision of PARAFAC2's line search (C07_linesearch_descent on the implementation): whatever state
    line_step returns has an objective that is not above the error of the current ALS iterate it was given"""
    from tensorly.decomposition import _parafac2
    from tensorly.parafac2_tensor import parafac2_to_slices
    chk, rng = ctx.chk, ctx.rng
    entry = "tensorly.decomposition._parafac2._BroThesisLineSearch.line_step"
    LS = getattr(_parafac2, "_BroThesisLineSearch", None)
    proj = getattr(_parafac2, "_compute_projections", None)
    if LS is None or proj is None:
        chk.notes.append("PARAFAC2 line-search class not found under its anchored name: direct accept/reject predicate skipped")
        return
    for it in range(n_runs):
        r = np_rng(rng)
        I, J, K, rank = rng.choice([3, 4]), rng.choice([4, 5]), rng.choice([3, 4]), rng.choice([1, 2])
        nonneg = it % 2 == 1
        A = r.rand(I, rank) + 0.3
        Bm = r.rand(rank, rank) + np.eye(rank)
        Cm = (r.rand(K, rank) + 0.1) if nonneg else r.randn(K, rank)
        slices = []
        for i in range(I):
            P, _ = np.linalg.qr(r.randn(J, rank))
            S = (P @ Bm) @ np.diag(A[i]) @ Cm.T
            slices.append(S + 0.1 * np.linalg.norm(S) / math.sqrt(S.size) * r.randn(J, K))
        if it % 3 == 2:      # data of Frobenius norm 0.05 (see run_parafac)
            c = 0.05 / math.sqrt(sum(float(np.sum(sl ** 2)) for sl in slices))
            slices = [sl * c for sl in slices]; A = A * c
        norm = math.sqrt(sum(float(np.sum(sl ** 2)) for sl in slices))
        true = [A, Bm, Cm]
        # the current ALS iterate and the previous one: depending on `step` the extrapolation lands near the solution (accept)
        # or far beyond it (reject)
        last = [f + 0.5 * (r.rand(*f.shape) if nonneg else r.randn(*f.shape)) for f in true]
        iteration = rng.choice([16, 36, 100])
        # jump = sqrt(iteration); the jumped point sits at jump*step of the way: < 2/(jump+1) lands closer to the solution than
        # the ALS iterate, slightly above it lands slightly farther (a sloppy acceptance test would let it through)
        step = [0.6, 2.05, 2.15, 2.3, 2.45, 1.5, 2.1, 2.2, 2.6, 4.0][it % 10] / (math.sqrt(iteration) + 1.0)
        cur = [l + step * (t - l) for l, t in zip(last, true)]
        active = nonneg and it % 4 == 3
        if active:
            # ACTIVE non-negativity: about half of the entries of the current A and C are exactly zero while the previous iterate is positive
            # there, so the extrapolation goes negative and the clipping changes the extrapolated point
            for m_ in (0, 2):
                mask = r.rand(*cur[m_].shape) < 0.5
                cur[m_] = np.where(mask, 0.0, cur[m_])
        weights = np.ones(rank)
        inputs = dict(shape=[I, J, K], rank=rank, variant="step%.1f" % step + ("+active" if nonneg and it % 4 == 3 else ""), slices=slices, factors=cur, factors_last=last, iteration=iteration, nn=nonneg)

        def objective(factors, projections):
            rec = parafac2_to_slices((weights, [np.asarray(f) for f in factors], [np.asarray(q) for q in projections]))
            return math.sqrt(sum(float(np.sum((np.asarray(a) - np.asarray(b)) ** 2)) for a, b in zip(slices, rec))) / norm
        attempt(ctx, entry)

        def call():
            projections = proj(slices, cur, "truncated_svd")
            e0 = objective(cur, projections)
            ls = LS(norm, "truncated_svd", nn_modes=[0, 2] if nonneg else None)
            f2, p2, e2 = ls.line_step(iteration, slices, [f.copy() for f in last], weights, [f.copy() for f in cur], projections, e0)
            return e0, objective(f2, p2), float(e2)
        out = C.call_impl(call)
        chk.hist("algorithm", "parafac2 line_step")
        if out[0] != "ok":
            raised(ctx, entry, out[1]); continue
        e0, e_true, e_rep = out[1]
        ctx.judged[entry] = ctx.judged.get(entry, 0) + 1
        sem(ctx, "parafac2 line-search acceptance")
        chk.count(key=(entry, I, J, K, rank, step, iteration, nonneg), nontrivial=True)
        chk.hist("linestep", "kept ALS iterate" if abs(e_true - e0) <= 1e-12 else "jump accepted")
        if not abs(e_true - e_rep) <= 1e-9 * (1.0 + abs(e_true)):
            chk.finding(entry, inputs, f"line search returned a state whose error is {e_true!r} but reported {e_rep!r} for it (the acceptance test did not judge the state it returns)",
                        "C07_linesearch_descent", observed=[e0, e_true, e_rep], expected="reported error == error of the returned state")
        if not (e_true <= e0 + SLACK and e_rep <= e0 + SLACK):
            chk.finding(entry, inputs, f"line search returned a state with error {e_true!r} (reported {e_rep!r}) above the error {e0!r} of the ALS iterate",
                        "C07_linesearch_descent", observed=[e0, e_true, e_rep], expected="<= error of the ALS iterate")


def run_tr_als(ctx, n_runs):
    import tensorly as tl
    from tensorly.decomposition import _tr_als
    chk, rng = ctx.chk, ctx.rng
    entry = "tensorly.decomposition.tensor_ring_als"
    shapes = [(3, 3, 3), (4, 3, 2), (3, 2, 2, 3), (4, 4, 3), (2, 3, 4)]
    for it in range(n_runs):
        shape = shapes[it % len(shapes)]
        nd = len(shape)
        r = np_rng(rng)
        if it % 3 == 0: rank = [2] + [1] * (nd - 1) + [2]
        elif it % 3 == 1: rank = [1, 2] + [1] * (nd - 2) + [1] if it % 2 else [2, 1, 2] + [2] * (nd - 3) + [2]
        else: rank = [1, 2][it % 2]
        X = r.randn(*shape)
        variant = ["lstsq", "normal_eq"][it % 2]
        errs, cores = [], []
        kw = dict(ls_solve=variant, n_iter_max=5, tol=0, random_state=r.randint(1 << 30))
        inputs = dict(shape=list(shape), rank=rank, variant=variant, tensor=X, options=kw)
        attempt(ctx, entry)
        with Capture() as cap:
            out = C.call_impl(_tr_als.tensor_ring_als, X.copy(), rank,
                              callback=lambda tr, e: (errs.append(float(e)), cores.append([np.array(c, dtype=float) for c in tr])) and None, **kw)
        chk.hist("algorithm", "tensor_ring_als:" + variant); chk.hist("order", nd)
        if out[0] != "ok":
            raised(ctx, entry, out[1]); continue
        if cap.maxcond > COND_MAX:
            ctx.skipped_illcond += 1; continue
        history_check(ctx, entry, inputs, errs)
        # objective recomputed from the cores handed to the callback (initial guess first)
        nx = float(np.linalg.norm(X))
        objs = [float(np.linalg.norm(np.asarray(tl.tr_to_tensor(cs)) - X)) / nx for cs in cores]
        history_check(ctx, entry, inputs, objs, what="objective recomputed from callback iterates")
        reported_matches(ctx, entry, inputs, errs, objs)
        # one block for the exact check against the MODEL-derived sub-chain design matrix: cores before block d of sweep t are the
        # cores of sweep t for the modes < d and of sweep t-1 (t = 1: the initial guess) for the others (callback iterates)
        if len(cores) >= 2 and X.size <= 40 and all(len(c) == nd for c in cores):
            t, d = rng.randrange(1, len(cores)), rng.randrange(nd)
            square = [k2 for k2 in range(nd) if cores[0][k2].shape[0] > 1 and cores[0][k2].shape[2] > 1]
            if square: d = rng.choice(square)      # both bond ranks > 1: the (a, b) layout of the design matrix / core matters
            before = [cores[t][k2] if k2 < d else cores[t - 1][k2] for k2 in range(nd)]
            newc = cores[t][d]
            design = None
            if variant == "lstsq" and len(cap.lstsq) == nd * (len(cores) - 1):
                design = cap.lstsq[(t - 1) * nd + d]["A"]
                if design.shape != (X.size // shape[d], newc.shape[0] * newc.shape[2]):
                    design = None
            if max(c.size for c in before) <= 24:
                ctx.add_case("tr", tr_case_lit, dict(X=X, cores=before, dim=d, new=newc, design=design),
                             dict(entry=entry, inputs=dict(inputs, sweep=t, block=d, kind="tr block")))
        n_sw = len(cap.lstsq) // nd
        if variant == "lstsq" and n_sw >= 2 and len(cap.lstsq) == nd * n_sw:
            for d in ([rng.randrange(nd)] if ctx.tier == "quick" else range(nd)):
                sw = rng.randrange(1, n_sw)
                rec, before = cap.lstsq[sw * nd + d], cap.lstsq[(sw - 1) * nd + d]     # block d of sweep sw / of the sweep before
                if rec["A"].size > 64 or rec["Y"].size > 48 or before["X"].shape != rec["X"].shape:
                    continue
                ctx.add_case("ls", ls_case_lit, dict(A=rec["A"], Y=rec["Y"], X=rec["X"], prev=before["X"], lam=0.0),
                             dict(entry=entry, inputs=dict(inputs, block=d, sweep=sw)))


def run_cmtf(ctx, n_runs):
    from tensorly.decomposition import _cmtf_als
    chk, rng = ctx.chk, ctx.rng
    entry = "tensorly.decomposition.coupled_matrix_tensor_3d_factorization"
    for it in range(n_runs):
        r = np_rng(rng)
        shape = rng.choice([(3, 3, 2), (4, 3, 3), (3, 2, 4), (3, 3, 3), (2, 2, 3)])
        q, rank = rng.choice([2, 3]), rng.choice([1, 2])
        w, facs = rand_cp_init(r, shape, rank)
        X = cp_full(w, facs) + rng.choice([0.1, 0.4]) * r.randn(*shape)
        Y = facs[0] @ r.randn(rank, q) + 0.1 * r.randn(shape[0], q)
        np.random.seed(r.randint(1 << 30))     # initialize_cp(init='random') without random_state uses the global generator
        init = ["svd", "random"][it % 2]
        if init == "svd" and rank > min(min(shape), q): init = "random"
        kw = dict(init=init, n_iter_max=8, tol=0)
        inputs = dict(shape=list(shape), rank=rank, variant=init, tensor=X, matrix=Y, options=kw)
        attempt(ctx, entry)
        with Capture() as cap:
            out = C.call_impl(_cmtf_als.coupled_matrix_tensor_3d_factorization, X.copy(), Y.copy(), rank, **kw)
        chk.hist("algorithm", "cmtf:" + init)
        if out[0] != "ok":
            raised(ctx, entry, out[1]); continue
        if cap.maxcond > COND_MAX:
            ctx.skipped_illcond += 1; continue
        errs = out[1][2]
        n2 = float(np.sum(X ** 2) + np.sum(Y ** 2))
        history_check(ctx, entry, inputs, [math.sqrt(max(float(e), 0.0) / n2) for e in errs])
        # least-squares blocks: per sweep 4 lstsq calls (V, mode 2, mode 1, coupled mode 0); the iterate before a block is the
        # solution of the same slot one sweep earlier
        per = 4
        if len(cap.lstsq) >= 2 * per and len(cap.lstsq) % per == 0:
            # float predicate on every block of every sweep after the first
            for j in range(per, len(cap.lstsq)):
                rec, before = cap.lstsq[j], cap.lstsq[j - per]
                if before["X"].shape != rec["X"].shape:
                    continue
                oa = float(np.sum((rec["A"] @ rec["X"] - rec["Y"]) ** 2)); ob = float(np.sum((rec["A"] @ before["X"] - rec["Y"]) ** 2))
                ctx.py_blocks += 1
                if not (oa <= ob + 1e-9 * (ob + float(np.sum(rec["Y"] ** 2)))):
                    chk.finding(entry, dict(inputs, block=j), f"least-squares block objective increases: {ob!r} -> {oa!r}", "C07_ls_block_minimises")
            # the uncoupled blocks (modes 2 and 1) are CP-ALS blocks solved by lstsq on the Khatri-Rao design matrix: pushed through
            # the CP block correspondence with G = kr'kr and MTTKRP = unfolded kr taken from the implementation's captured design
            # matrix (so a wrong Khatri-Rao pairing shows up as a system mismatch); factors before the block = lstsq answers so far
            n_it = len(cap.lstsq) // per
            # the reported error of sweep t IS the coupled objective of the iterate after sweep t (C07_cmtf_history_monotone speaks about it)
            for t in range(min(n_it, len(errs))):
                Ft = [cap.lstsq[t * per + 3]["X"].T, cap.lstsq[t * per + 2]["X"].T, cap.lstsq[t * per + 1]["X"].T]
                Vt_ = cap.lstsq[t * per + 0]["X"].T
                if [f.shape[0] for f in Ft] != list(shape) or Vt_.shape != (q, rank):
                    break
                val = float(np.sum((X - cp_full(np.ones(rank), Ft)) ** 2) + np.sum((Y - Ft[0] @ Vt_.T) ** 2))
                ctx.py_blocks += 1
                sem(ctx, "CMTF error formula")
                if not abs(val - float(errs[t])) <= 1e-9 * (n2 + val):
                    chk.finding(entry, dict(inputs, sweep=t), f"reported error {float(errs[t])!r} of sweep {t + 1} is not the coupled objective {val!r} of its iterate",
                                "C07_reported_error_is_objective", observed=float(errs[t]), expected=val)
                    break
            for _ in range(1 if ctx.tier == "quick" else 2):
                t = rng.randrange(1, n_it)
                F = [cap.lstsq[(t - 1) * per + 3]["X"].T.copy(), cap.lstsq[(t - 1) * per + 2]["X"].T.copy(), cap.lstsq[(t - 1) * per + 1]["X"].T.copy()]
                if [f.shape[0] for f in F] != list(shape):
                    break
                for ii, slot in ((2, 1), (1, 2)):
                    rec = cap.lstsq[t * per + slot]
                    A_, Y_, sol = rec["A"], rec["Y"], rec["X"]
                    if A_.shape[0] != Y_.shape[0] or sol.T.shape != F[ii].shape:
                        break
                    G_ = A_.T @ A_
                    b = dict(X=X, w=np.ones(rank), facs=[f.copy() for f in F], mode=ii, M=Y_.T @ A_, G=G_, xnew=sol.T.copy(), kind="solve",
                             cond=float(np.linalg.cond(G_)), lam=0.0, rank=rank, cert=True)
                    if b["cond"] <= COND_MAX and (ctx.tier != "quick" or rng.random() < 0.6):
                        ctx.add_case("cp", cp_case_lit, b, dict(entry=entry, inputs=dict(inputs, block=t * per + slot, mode=ii, kind="cmtf lstsq block")))
                    F[ii] = sol.T.copy()
            # the coupled block (mode 0) against the MODEL system  G + V'V,  MTTKRP + Y V
            t = rng.randrange(1, n_it)
            F = [cap.lstsq[(t - 1) * per + 3]["X"].T.copy(), cap.lstsq[t * per + 2]["X"].T.copy(), cap.lstsq[t * per + 1]["X"].T.copy()]
            Vt, xnew = cap.lstsq[t * per + 0]["X"].T.copy(), cap.lstsq[t * per + 3]["X"].T.copy()
            if [f.shape[0] for f in F] == list(shape) and Vt.shape == (q, rank) and xnew.shape == F[0].shape:
                ctx.add_case("cmtf", cmtf_case_lit, dict(X=X, Y=Y, facs=F, V=Vt, rank=rank, xnew=xnew),
                             dict(entry=entry, inputs=dict(inputs, sweep=t, kind="coupled block")))
            # the V block (the matrix part, C07_cmtf_V_block_minimises): V = lstsq(A_0, Y)' with A_0 the MODEL state - the coupled factor the previous sweep
            # produced - and Y the coupled matrix (not the design / right-hand side the implementation happened to pass): float predicate on every sweep,
            # normal equations + descent in exact rationals on one
            for t in range(1, n_it):
                A0, recV = cap.lstsq[(t - 1) * per + 3]["X"].T, cap.lstsq[t * per + 0]
                ctx.py_blocks += 1
                if recV["A"].shape != A0.shape or recV["Y"].shape != Y.shape or not (np.allclose(recV["A"], A0, rtol=1e-12, atol=0) and np.allclose(recV["Y"], Y, rtol=1e-12, atol=0)):
                    chk.finding(entry, dict(inputs, sweep=t), "the V block (matrix part) is not the least-squares problem of the coupled matrix against the CURRENT coupled factor",
                                "C07_cmtf_V_block_minimises")
                    break
            t = rng.randrange(1, n_it)
            A0, recV, prevV = cap.lstsq[(t - 1) * per + 3]["X"].T.copy(), cap.lstsq[t * per + 0], cap.lstsq[(t - 1) * per + 0]
            if A0.shape == (shape[0], rank) and recV["X"].shape == (rank, q) and prevV["X"].shape == recV["X"].shape:
                ctx.add_case("ls", ls_case_lit, dict(A=A0, Y=Y, X=recV["X"], prev=prevV["X"], lam=0.0),
                             dict(entry=entry, inputs=dict(inputs, sweep=t, kind="cmtf V block (model design)")))
            for _ in range(1 if ctx.tier == "quick" else 3):
                j = rng.randrange(per, len(cap.lstsq))
                rec, before = cap.lstsq[j], cap.lstsq[j - per]
                if rec["A"].size <= 64 and rec["Y"].size <= 60 and before["X"].shape == rec["X"].shape:
                    ctx.add_case("ls", ls_case_lit, dict(A=rec["A"], Y=rec["Y"], X=rec["X"], prev=before["X"], lam=0.0),
                                 dict(entry=entry, inputs=dict(inputs, block=j)))


def run_regressors(ctx, n_runs):
    import tensorly as tl
    from tensorly.regression.cp_regression import CPRegressor
    from tensorly.regression.tucker_regression import TuckerRegressor
    chk, rng = ctx.chk, ctx.rng
    for it in range(n_runs):
        r = np_rng(rng)
        kind = ["cp", "tucker", "cp-multi"][it % 3]       # cp-multi: matrix-valued responses (the branch of the output modes)
        dims = rng.choice([(3, 2), (2, 3), (2, 2, 2)])
        ns = 8 if kind == "cp-multi" else 12
        Xs = np.round(r.randn(ns, *dims) * 256.0) / 256.0     # samples / responses on the dyadic grid 2^-8: same problem class, short exact rationals in the model
        odims = (rng.choice([2, 3]),) if kind == "cp-multi" else ()
        Wtrue = r.randn(*dims, *odims)
        y = np.round((np.tensordot(Xs, Wtrue, axes=len(dims)) + 0.1 * r.randn(ns, *odims)) * 256.0) / 256.0
        reg = rng.choice([0.5, 1.0, 3.0])
        seed = r.randint(1 << 30)
        objs = []
        inputs = dict(kind=kind, shape=list(dims), variant=kind, X=Xs, y=y, reg_W=reg, random_state=seed)
        entry = "tensorly.regression." + ("TuckerRegressor" if kind == "tucker" else "CPRegressor") + ".fit"
        ok = True
        lscap = None
        attempt(ctx, entry)
        for nit in range(1, 6):     # prefix runs: same seed => same trajectory
            if kind != "tucker":
                est = CPRegressor(weight_rank=2, tol=0, reg_W=reg, n_iter_max=nit, random_state=seed, verbose=0)
            else:
                est = TuckerRegressor(weight_ranks=[2] * len(dims), tol=0, reg_W=reg, n_iter_max=nit, random_state=seed, verbose=0)
            with Capture() as cap:
                out = C.call_impl(est.fit, Xs.copy(), y.copy())
            if out[0] != "ok":
                raised(ctx, entry, out[1]); ok = False; break
            if nit == 3:
                lscap = cap
            if nit == 2 and kind == "tucker":
                G2 = np.array(est.tucker_weight_[0], dtype=float); W2 = [np.array(f, dtype=float) for f in est.tucker_weight_[1]]
            if nit == 2 and kind != "tucker":
                W2 = [np.array(f, dtype=float) for f in est.cp_weight_[1]]
            if kind != "tucker":
                w, W = est.cp_weight_
                pen = sum(float(np.sum(np.asarray(f) ** 2)) for f in W)
            else:
                G, W = est.tucker_weight_
                pen = sum(float(np.sum(np.asarray(f) ** 2)) for f in W) + float(np.sum(np.asarray(G) ** 2))
            pred = np.tensordot(Xs, np.asarray(est.weight_tensor_), axes=len(dims))
            fit = float(np.sum((y - pred) ** 2))
            objs.append((fit, pen))
        chk.hist("algorithm", "regressor:" + kind)
        if not ok:
            continue
        ctx.judged[entry] = ctx.judged.get(entry, 0) + 1
        # ridge ALS objective: ||y - <X, W>||^2 + reg * (sum_i ||W_i||_F^2 [+ ||G||_F^2]), non-increasing over sweeps
        ny = float(np.sum(y ** 2))
        hist = [math.sqrt((f + reg * p) / ny) for f, p in objs]
        history_check(ctx, entry, inputs, hist, what="ridge objective (prefix runs)")
        # CP regressor, scalar responses: ridge block against the MODEL's design matrix (flattened MTTKRPs of the samples).
        # State before block j of sweep 3 = factors after 2 sweeps (prefix run) with the answers of blocks 0..j-1 of sweep 3
        if kind != "tucker" and lscap is not None and len(lscap.solves) == 3 * (len(dims) + len(odims)):
            # matrix-valued responses: response (s, o) is the scalar response of the sample tensor X_s (x) e_o (outer product with a
            # unit vector), so the same model block / theorem applies with n_samples * n_outputs samples of order p + 1
            if odims:
                O = odims[0]
                samples = [np.multiply.outer(Xs[si], np.eye(O)[o]) for si in range(ns) for o in range(O)]
                resp = np.array([y[si, o] for si in range(ns) for o in range(O)])
            else:
                samples, resp = [x for x in Xs], y
            nm, rk = len(dims) + len(odims), W2[0].shape[1]
            W = [f.copy() for f in W2]
            jpick = rng.randrange(nm)
            for j in range(nm):
                xj = lscap.solves[2 * nm + j]["x"]
                if xj.size != W[j].size:
                    break
                xnew = xj.reshape(-1, rk) if j < len(dims) else xj.T.copy()     # output modes: W[i] = transpose(solve(...))
                if xnew.shape != W[j].shape:
                    break
                if j == jpick or j >= len(dims) or ctx.tier != "quick":     # the output-mode branch always
                    ctx.add_case("reg", reg_case_lit, dict(Xs=samples, ys=resp, facs=[f.copy() for f in W], mode=j, rank=rk, reg=reg, xnew=xnew),
                                 dict(entry=entry, inputs=dict(inputs, block=j, kind="ridge block" + (" (matrix responses)" if odims else ""))))
                W[j] = xnew
        # Tucker regressor: factor blocks and the core block of sweep 3 against the MODEL-derived design (unit-matrix predictions /
        # projected samples); state before block j = (core, factors) after 2 sweeps with the answers of blocks 0..j-1 applied
        if kind == "tucker" and lscap is not None and len(lscap.solves) == 3 * (len(dims) + 1):
            nm = len(dims)
            W = [f.copy() for f in W2]; G = G2.copy()
            rs_ = [int(f.shape[1]) for f in W]
            jpick = rng.randrange(nm)
            okk = True
            for j in range(nm):
                xj = lscap.solves[2 * (nm + 1) + j]["x"]
                if xj.size != W[j].size:
                    okk = False; break
                xnew = xj.reshape(W[j].shape)
                if j == jpick or ctx.tier != "quick":
                    ctx.add_case("tkreg", tkreg_case_lit, dict(Xs=[x for x in Xs], ys=y, rs=rs_, core=G.ravel().copy(), Us=[f.copy() for f in W], mode=j, reg=reg,
                                                               newcore=None, newfac=xnew),
                                 dict(entry=entry, inputs=dict(inputs, block=j, kind="factor block")))
                W[j] = xnew
            xg = lscap.solves[2 * (nm + 1) + nm]["x"]
            if okk and xg.size == G.size:
                ctx.add_case("tkreg", tkreg_case_lit, dict(Xs=[x for x in Xs], ys=y, rs=rs_, core=G.ravel().copy(), Us=[f.copy() for f in W], mode=0, reg=reg,
                                                           newcore=xg.ravel().copy(), newfac=None),
                             dict(entry=entry, inputs=dict(inputs, block=nm, kind="core block")))
        # least-squares blocks (design matrix as exposed by the implementation's local variables, when available)
        if lscap is not None:
            recs = lscap.solves
            per = len(recs) // 3
            cands = [j for j in range(per, len(recs)) if "phi" in recs[j]] if per and len(recs) == 3 * per else []
            rng.shuffle(cands)
            for j in cands[:1 if ctx.tier == "quick" else 3]:
                s0, sp = recs[j], recs[j - per]
                A, rhs, x, xp = s0["phi"], s0["rhs"], s0["x"], sp["x"]
                if A.ndim != 2 or x.shape != xp.shape:
                    continue
                Ym = rhs.reshape(rhs.shape[0], -1); Xm = x.reshape(x.shape[0], -1); Xp = xp.reshape(x.shape[0], -1)
                if A.shape[0] == Ym.shape[0] and A.shape[1] == Xm.shape[0] and A.size <= 120 and np.allclose(A.T @ A + reg * np.eye(A.shape[1]), s0["a"]):
                    ctx.add_case("ls", ls_case_lit, dict(A=A, Y=Ym, X=Xm, prev=Xp, lam=reg), dict(entry=entry, inputs=dict(inputs, block=j)))


def cplx(r, *shape):
    return r.randn(*shape) + 1j * r.randn(*shape)


def np_multi_mode(T, mats, modes, herm=False):
    """T x_modes mats (herm: with the CONJUGATE transposes), plain numpy - independent of tensorly.tenalg"""
    for m_, U in zip(modes, mats):
        M = np.conj(U).T if herm else U
        T = np.moveaxis(np.tensordot(M, T, axes=(1, m_)), 0, m_)
    return T


def run_complex(ctx, n_runs):
    """COMPLEX-valued data (the theorems are stated over R; over C the same algebra holds with conjugate transposes - judged here by predicates on the
    implementation, not by the model): HOOI (tucker / partial_tucker, svd and random init, low rank + dense noise and pure dense noise, orders 3-4, tol = 0,
    10-40 sweeps): reported history and objective recomputed with plain numpy from prefix runs non-increasing, reported == recomputed; every SVD call of a
    sweep is handed the unfolding of the tensor projected with the CONJUGATE transposes of the current other factors (Gram matrices Y Y^H), its answer has
    orthonormal columns (U^H U = I) and attains the Ky Fan optimum of Y Y^H.  parafac on complex data: reported history non-increasing and equal to the error
    of the iterate handed to the callback (normal equations with the conjugated Khatri-Rao product)"""
    import tensorly as tl
    from tensorly.decomposition import _tucker, _cp
    chk, rng = ctx.chk, ctx.rng
    for it in range(n_runs):
        r = np_rng(rng)
        if it % 3 == 2:
            entry = "tensorly.decomposition.parafac"
            shape = rng.choice([(4, 3, 3), (3, 3, 2, 2), (5, 4), (4, 4, 3)])
            rank = 2
            facs0 = [cplx(r, d, rank) for d in shape]
            X = cp_full(np.ones(rank), facs0) + rng.choice([0.05, 0.3]) * cplx(r, *shape)
            kw = dict(n_iter_max=rng.choice([10, 20]), tol=0, init=rng.choice(["random", "svd"]) if rank <= min(shape) else "random", random_state=r.randint(1 << 30), return_errors=True)
            if it % 2: kw["normalize_factors"] = True
            if it % 4 == 1: kw["linesearch"] = True
            its = []
            inputs = dict(shape=list(shape), rank=rank, variant="complex", tensor_real=X.real, tensor_imag=X.imag, options=kw)
            attempt(ctx, entry)
            out = C.call_impl(_cp.parafac, X.copy(), rank, callback=lambda cp, e: its.append((None if cp[0] is None else np.array(cp[0]), [np.array(f) for f in cp[1]])) and None, **kw)
            chk.hist("algorithm", "parafac:complex")
            if out[0] != "ok":
                raised(ctx, entry, out[1]); continue
            errs = [float(np.real(e)) for e in out[1][1]]
            history_check(ctx, entry, inputs, errs, what="error history (complex data)")
            nx = float(np.linalg.norm(X))
            objs = [float(np.linalg.norm(X - cp_full(np.ones(rank) if w_ is None else w_, f_))) / nx for (w_, f_) in its]
            if len(objs) == len(errs) + 1:
                history_check(ctx, entry, inputs, objs, what="objective recomputed from callback iterates (complex data)")
                for t_, (e_, o_) in enumerate(zip(errs, objs[1:])):
                    ctx.py_blocks += 1
                    if not abs(e_ - o_) <= 1e-6 * (1.0 + o_):
                        chk.finding(entry, dict(inputs, iteration=t_), f"complex data: reported error {e_!r} is not the relative error {o_!r} of the iterate handed to the callback",
                                    "C07_cp_reported_is_sqerr", observed=e_, expected=o_)
                        break
            continue
        # ---- HOOI
        shape = [(5, 4, 4), (4, 4, 3), (4, 3, 3, 3), (6, 5, 4), (5, 5, 5)][it % 5]
        nd = len(shape)
        dense = it % 4 == 1
        if dense:
            X = cplx(r, *shape)
        else:
            G0 = cplx(r, *([2] * nd))
            X = np_multi_mode(G0, [cplx(r, d, 2) for d in shape], range(nd)) 
            X = X + rng.choice([0.2, 0.6]) * float(np.linalg.norm(X)) / math.sqrt(X.size) * cplx(r, *shape)
        init = ["svd", "random"][(it // 2) % 2]
        sweeps = rng.choice([10, 20, 40])
        partial = it % 6 == 4
        if partial:
            modes = sorted(rng.sample(range(nd), 2)); ranks = [rng.choice([1, 2]) for _ in modes]
            fn, entry = _tucker.partial_tucker, "tensorly.decomposition.partial_tucker"
            kw = dict(rank=ranks, modes=list(modes), tol=0, init=init, random_state=r.randint(1 << 30))
        else:
            modes = list(range(nd)); ranks = [rng.choice([1, 2, 2]) for _ in shape]
            fn, entry = _tucker.tucker, "tensorly.decomposition.tucker"
            kw = dict(rank=ranks, tol=0, init=init, random_state=r.randint(1 << 30), return_errors=True)
        m = len(modes)
        inputs = dict(shape=list(shape), rank=ranks, variant="complex:" + init + ("+dense" if dense else "") + ("+partial" + str(modes) if partial else ""),
                      tensor_real=X.real, tensor_imag=X.imag, options=dict(kw, n_iter_max=sweeps))
        svds = []
        osvd = _tucker.svd_interface

        def svd_c(matrix, *a, **k):
            res = osvd(matrix, *a, **k)
            svds.append((np.array(matrix), np.array(res[0])))
            return res
        attempt(ctx, entry)
        _tucker.svd_interface = svd_c
        try:
            out = C.call_impl(fn, X.copy(), n_iter_max=sweeps, **kw)
        finally:
            _tucker.svd_interface = osvd
        chk.hist("algorithm", ("partial_tucker:" if partial else "tucker:") + "complex")
        if out[0] != "ok":
            raised(ctx, entry, out[1]); continue
        errs = [float(np.real(e)) for e in out[1][1]]
        history_check(ctx, entry, inputs, errs, what="error history (complex data)")
        nx = float(np.linalg.norm(X))

        def relerr(dec):
            core, facs = dec
            return float(np.linalg.norm(X - np_multi_mode(np.asarray(core), [np.asarray(f) for f in facs], modes))) / nx
        reported_matches(ctx, entry, inputs, [errs[-1]], [relerr(out[1][0])])
        # objective recomputed (plain numpy) from prefix runs spread over the run
        pts = sorted({1, 2, 3, sweeps // 2, sweeps})
        objs, ok = [], True
        for nit in pts:
            o2 = C.call_impl(fn, X.copy(), n_iter_max=nit, **kw)
            if o2[0] != "ok":
                ok = False; break
            objs.append(relerr(o2[1][0]))
        if ok:
            history_check(ctx, entry, inputs, objs, what="objective recomputed from prefix runs (complex data)")
            reported_matches(ctx, entry, inputs, [errs[p_ - 1] for p_ in pts], objs)
        # every SVD call of a sweep: handed the unfolding of X projected with the CONJUGATE transposes of the current other factors; the answer has
        # orthonormal columns and attains the sum of the leading eigenvalues of Y Y^H
        off = len(svds) - sweeps * m
        if off not in (0, m):
            continue
        bad = False
        for tt in range(sweeps):
            for jj in range(m):
                Y, U = svds[off + tt * m + jj]
                rk_ = U.shape[1]
                if U.shape[0] != Y.shape[0] or rk_ > min(Y.shape):
                    continue
                ctx.py_blocks += 1
                ny = float(np.sum(np.abs(Y) ** 2)) + 1e-300
                lam = np.sort(np.linalg.eigvalsh(Y @ np.conj(Y).T))[::-1]
                got = float(np.sum(np.abs(np.conj(U).T @ Y) ** 2))
                orth = float(np.max(np.abs(np.conj(U).T @ U - np.eye(rk_))))
                if orth > 1e-8 or got < float(np.sum(lam[:rk_])) - 1e-9 * ny:
                    chk.finding(entry, dict(inputs, sweep=tt, block=jj), f"complex data: the HOOI factor does not have orthonormal columns (defect {orth:.2e}) or does not attain the Ky Fan "
                                f"optimum of Y Y^H: {got!r} < {float(np.sum(lam[:rk_]))!r}", "C07_hooi_block_descent (attained Ky Fan value)", observed=got, expected=float(np.sum(lam[:rk_])))
                    bad = True; break
                if tt >= 1:
                    fb = [svds[off + tt * m + q][1] if q < jj else svds[off + (tt - 1) * m + q][1] for q in range(m)]
                    if not all(f.shape == (shape[modes[q]], ranks[q]) for q, f in enumerate(fb)):
                        continue
                    T = np_multi_mode(X, [fb[q] for q in range(m) if q != jj], [modes[q] for q in range(m) if q != jj], herm=True)
                    Yexp = np.moveaxis(T, modes[jj], 0).reshape(shape[modes[jj]], -1)
                    ctx.py_blocks += 1
                    if Y.shape[0] != Yexp.shape[0] or not np.allclose(Y @ np.conj(Y).T, Yexp @ np.conj(Yexp).T, rtol=0, atol=1e-9 * (float(np.sum(np.abs(Yexp) ** 2)) + 1e-300)):
                        chk.finding(entry, dict(inputs, sweep=tt, block=jj), "complex data: the matrix handed to the SVD of a HOOI block is not the unfolding of the tensor projected with the CONJUGATE "
                                    "transposes of the current other factors (Gram matrices Y Y^H differ)", "C07_core_norm_unfolding", expected=0.0,
                                    observed=float(np.max(np.abs(Y @ np.conj(Y).T - Yexp @ np.conj(Yexp).T))) if Y.shape[0] == Yexp.shape[0] else "shape")
                        bad = True; break
            if bad:
                break


STOP_ALGS = {"parafac": 0, "nn_hals": 0, "tucker": 1, "parafac2": 2, "tr_als": 3, "cmtf": 4, "cpreg": 5, "tkreg": 5, "hals": 6}


STOP_ITEM = {"parafac": "parafac stopping rule", "nn_hals": "non_negative_parafac_hals stopping rule", "tucker": "partial_tucker stopping rule", "parafac2": "parafac2 stopping rule",
             "tr_als": "tensor_ring_als stopping rule", "cmtf": "CMTF stopping rule", "cpreg": "CPRegressor stopping rule", "tkreg": "TuckerRegressor stopping rule",
             "hals": "hals_nnls stopping rule"}
for _n, _e in (("parafac", "tensorly.decomposition.parafac"), ("nn_hals", "tensorly.decomposition.non_negative_parafac_hals"), ("tucker", "tensorly.decomposition.tucker"),
               ("parafac2", "tensorly.decomposition.parafac2"), ("tr_als", "tensorly.decomposition.tensor_ring_als"), ("cmtf", "tensorly.decomposition.coupled_matrix_tensor_3d_factorization"),
               ("cpreg", "tensorly.regression.CPRegressor.fit"), ("tkreg", "tensorly.regression.TuckerRegressor.fit"), ("hals", "tensorly.solvers.nnls.hals_nnls")):
    for _suffix in ((" (abs_rec_error)", " (rec_error)") if _n in ("parafac", "nn_hals") else ("",)):
        SEM_RULES[STOP_ITEM[_n] + _suffix] = (2, (_e,), ("C07_loop_tape_replay",))


def stop_quantity(alg, abs_crit, a, b, first=None):
    """the quantity the stopping rule of Model/DescentLoop.v compares with tol (a = newest, b = previous value, first = first value of the history)"""
    if alg == 6:
        return a / first if first else float("inf")
    if alg == 0:
        return abs(b - a) if abs_crit else (b - a)
    if alg in (1, 2):
        return abs(b - a)
    if alg == 3:
        return b - a
    if alg == 4:
        return abs(a - b) / b if b else float("inf")
    return abs(a - b) / a if a else float("inf")


def run_stop_rules(ctx, n_runs):
    """'from the first sweep to termination': every algorithm of the property run with a tolerance that makes its stopping rule fire in the middle of
    the run; the values it recorded (reported errors; norms of the weight tensor for the regressors) are replayed through the model's loop + stopping
    rule (Corr.C07.loop_agree, exact rationals): the model must stop after exactly as many iterations.  Half of the runs use a BOUNDARY tolerance: a first
    run without stopping gives the trajectory, the tolerance is then set 1e-6 (relative) above / below the quantity the rule compares at a chosen
    iteration (often the first iteration at which the rule may fire), so that a rule comparing a slightly different quantity, or allowed to fire at another
    first iteration, stops after a different number of iterations.  The recorded history is judged as for every other run.  Runs in which a compared
    quantity is within 1e-9 (relative) of the tolerance are skipped and counted (float division vs exact)"""
    import tensorly as tl
    from tensorly.decomposition import _cp, _nn_cp, _tucker, _parafac2, _tr_als, _cmtf_als
    from tensorly.regression.cp_regression import CPRegressor
    from tensorly.regression.tucker_regression import TuckerRegressor
    chk, rng = ctx.chk, ctx.rng
    names = ["parafac", "tucker", "cpreg", "parafac2", "tr_als", "cmtf", "tkreg", "nn_hals", "hals"]
    min_it = {0: 1, 1: 2, 2: 1, 3: 1, 4: 1, 5: 2, 6: 1}
    for it in range(n_runs):
        name = names[it % len(names)]
        visit = it // len(names)             # how often this algorithm has been run before: odd visits use a boundary tolerance (modes 0, 1, 2 in turn)
        alg = STOP_ALGS[name]
        r = np_rng(rng)
        tol = rng.choice([1e-2, 3e-3, 1e-3, 1e-4]) if it % 11 != 10 else 0.0       # tol = 0: `if tol:` switches the test off (parafac, tucker, parafac2, tr)
        nmax = rng.choice([6, 12, 25])
        abs_crit = True
        seed = r.randint(1 << 30)
        opts, Y = {}, None
        if name == "parafac":
            shape, rank = rng.choice([(4, 3, 3), (5, 4), (3, 3, 2, 2)]), 2
            X = lowrank(r, shape, rank, rng.choice([0.05, 0.3]))
            abs_crit = visit % 4 in (0, 1)
            opts = dict(cvg_criterion="abs_rec_error" if abs_crit else "rec_error", linesearch=rng.random() < 0.3)
            entry = "tensorly.decomposition.parafac"

            def call(tol_, nmax_):
                o = C.call_impl(_cp.parafac, X.copy(), rank, init="random", random_state=seed, return_errors=True, tol=tol_, n_iter_max=nmax_, **opts)
                return o if o[0] != "ok" else ("ok", [float(e) for e in o[1][1]], None)
        elif name == "nn_hals":
            shape, rank = rng.choice([(4, 3, 3), (5, 4)]), 2
            X = lowrank(r, shape, rank, 0.1, nonneg=True)
            abs_crit = visit % 4 in (0, 1)
            opts = dict(cvg_criterion="abs_rec_error" if abs_crit else "rec_error")
            entry = "tensorly.decomposition.non_negative_parafac_hals"

            def call(tol_, nmax_):
                o = C.call_impl(_nn_cp.non_negative_parafac_hals, X.copy(), rank, init="random", random_state=seed, return_errors=True, tol=tol_, n_iter_max=nmax_, **opts)
                return o if o[0] != "ok" else ("ok", [float(e) for e in o[1][1]], None)
        elif name == "tucker":
            shape = rng.choice([(4, 4, 3), (5, 4, 4)])
            X = lowrank(r, shape, 2, 0.3) + 0.3 * r.randn(*shape)
            opts = dict(init=rng.choice(["svd", "random"]))
            entry = "tensorly.decomposition.tucker"

            def call(tol_, nmax_):
                o = C.call_impl(_tucker.tucker, X.copy(), rank=[2, 2, 2], random_state=seed, return_errors=True, tol=tol_, n_iter_max=nmax_, **opts)
                return o if o[0] != "ok" else ("ok", [float(e) for e in o[1][1]], None)
        elif name == "parafac2":
            X = p2_active_problem(r, 4, 5, 4, 2, 0.3)
            opts = dict(linesearch=rng.random() < 0.5)
            entry = "tensorly.decomposition.parafac2"

            def call(tol_, nmax_):
                o = C.call_impl(_parafac2.parafac2, [s_.copy() for s_ in X], 2, init="random", random_state=seed, return_errors=True, timeout=60, tol=tol_, n_iter_max=nmax_, **opts)
                return o if o[0] != "ok" else ("ok", [float(e) for e in o[1][1]], None)
        elif name == "tr_als":
            shape = rng.choice([(3, 3, 3), (4, 3, 2)])
            X = r.randn(*shape)
            opts = dict(ls_solve=rng.choice(["lstsq", "normal_eq"]))
            entry = "tensorly.decomposition.tensor_ring_als"

            def call(tol_, nmax_):
                errs = []
                o = C.call_impl(_tr_als.tensor_ring_als, X.copy(), 2, random_state=seed, callback=lambda tr, e: errs.append(float(e)) and None, tol=tol_, n_iter_max=nmax_, **opts)
                return o if o[0] != "ok" else ("ok", errs[1:], None)      # the callback sees the initial guess first; rec_errors starts with the first sweep
        elif name == "hals":
            from tensorly.solvers.nnls import hals_nnls
            m_, rk_, n_ = rng.choice([4, 6]), rng.choice([2, 3]), rng.choice([2, 4])
            U_ = r.rand(m_, rk_) + 0.1
            X = U_ @ (r.rand(rk_, n_) + 0.1) + 0.2 * r.rand(m_, n_) - (0.3 if rng.random() < 0.5 else 0.0)
            G_ = U_.T @ U_; G_ = (G_ + G_.T) / 2; B_ = U_.T @ X
            V0_ = r.rand(rk_, n_) + 0.05
            if tol: tol = rng.choice([1e-2, 1e-4, 1e-7])
            entry = "tensorly.solvers.nnls.hals_nnls"

            def call(tol_, nmax_):
                errs = []
                o = C.call_impl(lambda: hals_nnls(B_.copy(), G_.copy(), V0_.copy(), n_iter_max=nmax_, tol=tol_, callback=lambda V, e: errs.append(float(e)) and None))
                return o if o[0] != "ok" else ("ok", errs, None)
        elif name == "cmtf":
            shape, q_ = rng.choice([(3, 3, 2), (4, 3, 3)]), 3
            w0, f0 = rand_cp_init(r, shape, 2)
            X = cp_full(w0, f0) + 0.3 * r.randn(*shape)
            Y = f0[0] @ r.randn(2, q_) + 0.1 * r.randn(shape[0], q_)
            entry = "tensorly.decomposition.coupled_matrix_tensor_3d_factorization"

            def call(tol_, nmax_):
                np.random.seed(seed)
                o = C.call_impl(_cmtf_als.coupled_matrix_tensor_3d_factorization, X.copy(), Y.copy(), 2, init="random", tol=tol_, n_iter_max=nmax_)
                return o if o[0] != "ok" else ("ok", [float(e) for e in o[1][2]], None)
        else:
            dims = rng.choice([(3, 2), (2, 2, 2)])
            X = r.randn(12, *dims)
            y = np.tensordot(X, r.randn(*dims), axes=len(dims)) + 0.1 * r.randn(12)
            reg = rng.choice([0.5, 1.0])
            opts = dict(reg_W=reg)
            cls = CPRegressor if name == "cpreg" else TuckerRegressor
            entry = "tensorly.regression." + cls.__name__ + ".fit"

            reg_objs = {}

            def call(tol_, nmax_):
                est = cls(2 if name == "cpreg" else [2] * len(dims), tol=tol_, reg_W=reg, n_iter_max=nmax_, random_state=seed, verbose=0)
                o = C.call_impl(est.fit, X.copy(), y.copy())
                if o[0] != "ok":
                    return o
                # ridge objective of the RETURNED weights: ||y - <X, W>||^2 + reg (sum_j ||W_j||^2 [+ ||G||^2])
                if name == "cpreg":
                    pen = sum(float(np.sum(np.asarray(f) ** 2)) for f in est.cp_weight_[1])
                else:
                    pen = sum(float(np.sum(np.asarray(f) ** 2)) for f in est.tucker_weight_[1]) + float(np.sum(np.asarray(est.tucker_weight_[0]) ** 2))
                fit = float(np.sum((y - np.tensordot(X, np.asarray(est.weight_tensor_), axes=len(dims))) ** 2))
                reg_objs[(tol_, nmax_)] = fit + reg * pen
                return ("ok", [float(v) for v in est.norm_W_], int(est.n_iterations_))
        boundary = None
        if visit % 2 == 1 or name == "hals":
            # boundary tolerance from the trajectory of a run that does not stop.  Mode 0: just ABOVE the compared quantity at the first iteration at which the rule may
            # fire (it fires exactly there; a rule allowed to fire only later, or comparing a larger quantity, does not); mode 1: just above the quantity one iteration
            # EARLIER (the rule must not fire there; a rule allowed to fire earlier does); mode 2: just BELOW the quantity at a random iteration (the rule must not fire
            # there; a rule comparing a smaller quantity does)
            o0 = call(1e-300, nmax)
            if o0[0] == "ok" and len(o0[1]) == nmax and all(math.isfinite(v) for v in o0[1]):
                lo = min_it[alg]
                mode = (visit // 2) % 3 if name != "hals" else visit % 3
                if mode == 0 or lo + 1 >= nmax:
                    i_, sgn = lo, 1.0
                elif mode == 1:
                    i_, sgn = (lo - 1, 1.0) if lo >= 2 else (lo, -1.0)
                else:
                    i_, sgn = rng.randrange(lo, nmax), -1.0
                if 1 <= i_ < nmax:
                    q0 = stop_quantity(alg, abs_crit, o0[1][i_], o0[1][i_ - 1], o0[1][0])
                    if math.isfinite(q0) and q0 > 1e-12:
                        tol = q0 * (1.0 + sgn * 1e-6); boundary = (i_, sgn)
        attempt(ctx, entry)
        out = call(tol, nmax)
        chk.hist("algorithm", "stopping rule:" + name)
        if out[0] != "ok":
            raised(ctx, entry, out[1]); continue
        tape = out[1]
        iters = len(tape) if out[2] is None else out[2]
        inputs = dict(variant="stopping rule", algorithm=name, data=X, matrix=Y, options=dict(opts, tol=tol, n_iter_max=nmax, random_state=seed), recorded=tape, iterations=iters,
                      boundary=boundary)
        ctx.judged[entry] = ctx.judged.get(entry, 0) + 1
        if not tape or not all(math.isfinite(v) for v in tape):
            ctx.skipped_illcond += 1; continue
        if name == "parafac2" and not tol:
            # with a falsy tol parafac2 records an error only in its line-search iterations (none without line search): the list it returns is then not
            # one value per iteration, so there is nothing to replay (the values it does return are judged like every history)
            history_check(ctx, entry, inputs, tape, what="error history of a run ended by its stopping rule")
            chk.hist("stopping rule", "parafac2: tol falsy, history not per iteration (not replayed)")
            continue
        # the recorded history itself (the regressors record norms of the weight tensor: not a descending quantity)
        if alg not in (5, 6):      # (hals_nnls hands the squared norm of the update to its callback, the regressors record norms of the weight tensor)
            vals = tape if alg != 4 else [math.sqrt(max(e, 0.0) / (float(np.sum(X ** 2)) + float(np.sum(Y ** 2)))) for e in tape]
            history_check(ctx, entry, inputs, vals, what="error history of a run ended by its stopping rule")
        if alg == 5:
            # C07_cpreg_fit_descent / C07_tkreg_fit_descent on the implementation: the weights the fit RETURNS (wherever its stopping rule ended it) have a
            # ridge objective not above the one after the first sweep (same seed => same trajectory)
            o1 = call(tol, 1)
            if o1[0] == "ok" and (tol, 1) in reg_objs and (tol, nmax) in reg_objs:
                f1, fe = reg_objs[(tol, 1)], reg_objs[(tol, nmax)]
                ctx.py_blocks += 1
                chk.hist("history", entry + " / objective of the returned weights vs first sweep")
                if not fe <= f1 + 1e-9 * (abs(f1) + float(np.sum(y ** 2))):
                    chk.finding(entry, inputs, f"the weights returned after {iters} sweep(s) have ridge objective {fe!r}, above the objective {f1!r} after the first sweep",
                                "C07_cpreg_fit_descent" if name == "cpreg" else "C07_tkreg_fit_descent", observed=fe, expected=f"<= {f1!r}")
        chk.count(key=("stopping rule", name, tol, nmax, iters), nontrivial=iters < nmax)
        chk.hist("stopping rule", name + (": fired" if iters < nmax else ": n_iter_max reached") + (" (boundary tolerance)" if boundary else ""))
        border = any(abs(stop_quantity(alg, abs_crit, tape[i], tape[i - 1], tape[0]) - tol) <= 1e-9 * max(tol, 1e-300) for i in range(1, len(tape))) or \
            (alg == 4 and any(abs(v - tol) <= 1e-9 * tol for v in tape)) or any(v == 0.0 for v in tape)
        if border:
            ctx.skipped_illcond += 1; continue
        if iters < nmax:      # only a replay in which the rule FIRED says something about the rule (semantic fallback of the static tie)
            sem(ctx, STOP_ITEM[name] + ((" (abs_rec_error)" if abs_crit else " (rec_error)") if alg == 0 else ""))
        ctx.add_case("loop", loop_case_lit, dict(alg=alg, abs=abs_crit, tol=tol, nmax=nmax, tape=tape, iters=iters),
                     dict(entry=entry, inputs=dict(inputs, kind="outer loop + stopping rule" + (" (boundary)" if boundary else ""))))


def static_tie(chk, ctx=None):
    """corr:C07-static: the reported-error formulas and the line-search acceptance tests are re-extracted from the CURRENT sources (ast),
    translated to Gallina and the linking theorems re-checked by coqc against the regenerated terms.
    SEMANTIC FALLBACK: an item whose source form is not recognised (or whose regenerated goal is not closed by ring / field / lra) is not an alarm by
    itself - an equivalent rewrite looks like that (a stopping test that WAS translated and is not equivalent to the model's rule is a broken tie at once).  It is then decided by the dynamic predicates that judge the SAME quantity on the implementation in
    this very run ('the reported error is the error of the reported iterate', the judged line-search decisions): at least SEM_RULES[item][0] such
    comparisons were made and none failed -> a note (cov.static_tie.semantic_fallback); otherwise, or if they did not run, a broken tie (fail closed)"""
    import os, shutil, subprocess
    from harness.props import C07_ast as C07ast
    lines, info, bad = C07ast.extract(C.REPO)
    d = os.path.join(C.BUILD, "cases", "C07", f"static_{os.getpid()}")
    shutil.rmtree(d, ignore_errors=True); os.makedirs(d, exist_ok=True)

    def coqc(name, keys):
        fn = os.path.join(d, name)
        with open(fn, "w") as f:
            f.write(C07ast.coq_file(lines, {k: info[k] for k in keys}))
        return subprocess.run(["timeout", "300", "coqc", "-w", "none", "-R", os.path.join(C.COQ, "theories"), "TLV", fn], capture_output=True, text=True, cwd=d)
    p = coqc("Static.v", list(info))
    chk.checker_cmds.append("coqc on generated build/cases/C07/static_*/Static.v: formulas regenerated from the Python sources by harness/props/C07_ast.py")
    failed = []          # (item, detail): items whose regenerated goal does not hold syntactically
    if p.returncode != 0:
        for k in info:      # which item(s)?  one file per item (only on this path)
            pk = coqc(f"Static_{k}.v", [k])
            if pk.returncode != 0:
                failed.append((C07ast.ITEM_OF.get(k, k), "the theorem is not closed for the formula regenerated from the current source: " + (pk.stderr or pk.stdout)[-600:]))
        if not failed:
            failed.append(("?", (p.stderr or p.stdout)[-1200:]))
    # the stopping rules of the outer loops, regenerated from the sources and re-checked against Model/DescentLoop.v (rule_of)
    sfiles, sinfo, sbad = C07ast.stop_rules(C.REPO)

    def coqc_stop(name, items):
        fn = os.path.join(d, name)
        with open(fn, "w") as f:
            f.write(C07ast.STOP_HEADER + "\n".join(sfiles[k] for k in items))
        return subprocess.run(["timeout", "300", "coqc", "-w", "none", "-R", os.path.join(C.COQ, "theories"), "TLV", fn], capture_output=True, text=True, cwd=d)
    ps = coqc_stop("Stop.v", list(sfiles))
    chk.checker_cmds.append("coqc on generated build/cases/C07/static_*/Stop.v: stopping tests regenerated from the Python sources (C07_ast.stop_rules) == the model's rules (rule_of)")
    if ps.returncode != 0:
        n0 = len(failed)
        for j, k in enumerate(sfiles):
            pk = coqc_stop(f"Stop_{j}.v", [k])
            if pk.returncode != 0:
                # translated but NOT equivalent to the model's rule: no semantic fallback (the loop replays are only weakly discriminating for a changed rule)
                failed.append((k + " [refuted]", "the stopping test regenerated from the current source is not the model's rule: " + (pk.stderr or pk.stdout)[-500:]))
        if len(failed) == n0:
            failed.append(("?", (ps.stderr or ps.stdout)[-1200:]))
    for b in list(bad) + list(sbad):
        parts = b.split(": ", 1)
        failed.append((parts[0][len("ast:"):] if parts[0].startswith("ast:") else "?", b))
    fallback = []
    for what, detail in failed:
        rule = SEM_RULES.get(what)
        n_sem = ctx.sem.get(what, 0) if ctx is not None else 0
        veto = [f for f in chk.findings if rule and f.get("entry_point") in rule[1] and f.get("predicate") in rule[2]]
        if rule and n_sem >= rule[0] and not veto:
            fallback.append(dict(item=what, dynamic_confirmations=n_sem, syntactic_detail=detail[:300]))
            chk.notes.append(f"corr:C07-static: source form of '{what}' not recognised / not closed syntactically; decided by the semantic fallback "
                             f"({n_sem} dynamic comparisons of the same quantity in this run, none failed): {detail[:160]}")
        else:
            chk.broken.append({"what": "corr:C07-static broken tie (source construct not translatable / changed, and not confirmed by the semantic fallback: "
                                       f"{n_sem} dynamic comparisons, {len(veto)} failing)", "detail": detail})
    chk.cov["static_tie"] = dict(extracted=info, untranslatable=bad, coqc_rc=p.returncode, semantic_fallback=fallback, stopping_rules=sinfo, stopping_rules_untranslatable=sbad,
                                 stopping_rules_coqc_rc=ps.returncode)


def PLAN(quick):
    return [(run_corpus, 0), (run_parafac, 80 if quick else 400), (run_fixed_modes, 12 if quick else 36), (run_nn_hals, 18 if quick else 120), (run_hals_nnls, 36 if quick else 300),
            (run_tucker, 18 if quick else 120), (run_tucker_svd, 6 if quick else 24), (run_parafac2, 16 if quick else 48), (run_p2_linestep, 30 if quick else 120), (run_tr_als, 12 if quick else 80),
            (run_cmtf, 12 if quick else 80), (run_regressors, 12 if quick else 60), (run_stop_rules, 72 if quick else 288), (run_complex, 18 if quick else 90)]


def run(chk):
    rng = random.Random(chk.seed)
    chk.build_proofs()
    # common.print_assumptions also captures the header line "Axioms:" of Coq's output as if it were an axiom name
    chk.axioms = {n: [a for a in axs if a != "Axioms"] for n, axs in chk.axioms.items()}
    chk.broken = [b for b in chk.broken if not (str(b.get("what", "")).endswith("depends on non-stdlib axioms")
                                                 and not C.own_axioms([a for a in b.get("detail", []) if a != "Axioms"]))]
    C.reset_backends()
    quick = chk.tier == "quick"
    ctx = Ctx(chk, rng, chk.tier)
    for fn, n in PLAN(quick):
        fn(ctx, n)
    ctx.select()
    failing, n_eval, broken = C.run_case_shards("C07", HEADER, "case", ctx.cases, shard=ctx.shard_size, timeout=900)
    chk.checker_cmds.append("coqc (vm_compute, Qops) on generated build/cases/C07/*.v: Corr.C07.failing")
    chk.cov["traces_validated_against_impl"] = n_eval
    chk.cov["exhaustive"] = False
    chk.cov["block_cases"] = dict(cp_blocks=ctx.n_cp, hals_chains=ctx.n_hals, ls_blocks=ctx.n_ls, normalisations=ctx.n_norm, regressor_blocks=ctx.n_reg, hooi_blocks=ctx.n_kind.get("tk", 0), cmtf_coupled_blocks=ctx.n_kind.get("cmtf", 0), tucker_regressor_blocks=ctx.n_kind.get("tkreg", 0), tensor_ring_blocks=ctx.n_kind.get("tr", 0), hooi_spectral_certificates=ctx.n_kind.get("spec", 0), parafac2_procrustes_certificates=ctx.n_kind.get("proc", 0), reported_error_cases=ctx.n_kind.get("rep", 0), hooi_whole_sweeps=ctx.n_kind.get("tks", 0), updated_modes_cases=ctx.n_kind.get("modes", 0), stopping_rule_replays=ctx.n_kind.get("loop", 0), float_block_predicates=ctx.py_blocks,
                                  candidates={k: len(v) for k, v in ctx.cands.items()})
    chk.cov["skipped_ill_conditioned"] = ctx.skipped_illcond
    chk.cov["rule"] = ("seeded well-conditioned problems (low rank + noise; dense / nearly collinear ones for the line search), orders 2-4, rank 1-3: every algorithm "
                       "of the property run with explicit/seeded initialisations and option variants (normalize_factors, l2_reg, linesearch, fixed_modes, nn_modes, "
                       "sparsity, partial_tucker mode subsets, matrix-valued regression targets); per run the whole reported history AND the objective recomputed from "
                       "the iterates (callbacks / prefix runs) are judged (slack 1e-6 relative-error units); every captured block: float block-objective predicate; "
                       "a budgeted, variant-balanced subset (first sweep of every mode + one later block; tensors <= 40 entries) gets ONE model block in exact "
                       "rationals: system match, solve certificate, exact objective descent; hals_nnls: 2-3 passes step by step; least-squares blocks of "
                       "tensor_ring_als / CMTF / regressors: normal equations + descent from the previous iterate; non-trivial = history of length >= 2 / captured "
                       "block; distinct key = (algorithm, what, shape, variant[, mode])")
    for b in broken:
        chk.broken.append({"what": "correspondence corr:C07 shard not evaluated", "detail": b})
    for entry, n in ctx.raised.items():
        chk.notes.append(f"{entry}: {n} of {ctx.attempts.get(entry, n)} run(s) raised and were skipped")
        other = ctx.raised_other.get(entry, 0)      # exceptions other than singular systems / timeouts
        if not ctx.judged.get(entry) or (other >= 2 and 4 * other > ctx.attempts.get(entry, n)):
            chk.broken.append({"what": f"{entry} raised on {n} of {ctx.attempts.get(entry, n)} generated well-formed problems ({other} not a singular system / timeout): "
                                       "its histories could not be judged", "detail": n})
    for i in sorted(failing):
        kind, descr, payload = ctx.meta[i]
        chk.disagreement(f"corr:C07 {kind} block (Model/Descent.v vs {descr['entry']})", dict(kind=kind, **descr))
        # turn the disagreement into a failing input: the run whose captured block disagrees with the model
        inp = dict(descr["inputs"]); inp["block_kind"] = kind
        for k in ("G", "B", "A", "Y", "X", "M", "xnew", "w", "facs", "iterates", "mode", "lam", "prev", "l1", "l2", "eps", "tape", "w_impl", "facs_impl", "Xs", "ys", "reg", "rs", "before", "after", "core", "V", "Us", "newcore", "newfac", "cores", "dim", "new", "design", "Q", "lam", "U", "P", "sg", "rel", "k", "rank", "states", "fixed", "observed", "alg", "tol", "nmax", "tape", "iters"):
            if k in payload and k not in inp:
                inp["block_" + k] = payload[k]
        if kind == "loop":
            chk.finding(descr["entry"], inp, f"the run stopped after {payload['iters']} iteration(s), but the stopping rule of Model/DescentLoop.v replayed on the values it recorded "
                        f"(tol = {payload['tol']!r}, n_iter_max = {payload['nmax']}) stops after a different number of iterations", "C07_loop_tape_replay")
            continue
        chk.finding(descr["entry"], inp, f"{kind} block: the implementation's block state disagrees with the exact model block "
                    "(system mismatch, solve certificate violated, next iterate / normalised state differs or exact objective increases)", "C07_block_refinement")
    static_tie(chk, ctx)
    chk.assumptions = ["block problems well conditioned (condition number of every solved system <= 1e4 on the generated inputs; others skipped and counted)",
                       "tl.solve / tl.lstsq / SVD are oracles: their answers are data, checked against the certificate of the model's system",
                       "HOOI and PARAFAC2 projections: reported and recomputed histories are judged; Ky Fan / Procrustes optimality are named hypotheses of the _partial theorems"]
    chk.trusted = ["float re-computation of objectives in the Python predicates (NumPy)", "monkeypatched capture of block arguments (copies)",
                   "prefix runs with the same seed reproduce the trajectory of the longer run"]
    return chk.finish({"penalised_reported_error": lambda f: f.get("predicate") == PENALISED})


def replay(payload):
    """re-run a stored failing input against the current implementation; 1 = still failing"""
    if payload.get("kind") != "failing-input":
        print("replay file names a broken theorem/correspondence, not an input:", payload.get("theorem_or_correspondence"))
        return 1
    print("replay: re-running the generator with the stored seed and tier")
    chk = C.Check("C07", payload.get("tier", "quick"), payload.get("seed", 20260926))
    import io, contextlib
    buf = io.StringIO()
    with contextlib.redirect_stdout(buf):
        rc = run(chk)
    same = [f for f in chk.findings if f["entry_point"] == payload.get("entry_point") and f["predicate"] == payload.get("predicate")]
    print("replay:", payload.get("entry_point"), payload.get("predicate"), "->", "still failing" if same else "holds")
    return 1 if same else 0
