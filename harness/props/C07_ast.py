"""C07 -- static tie (corr:C07-static): the formulas by which the algorithms REPORT their error and the accept/reject tests of the
line searches are re-extracted from the CURRENT Python sources with `ast` on every run, translated to Gallina terms over R, and the
theorems that link them to the model (Proofs/DescentProofsStatic.v) are re-checked against the regenerated terms by coqc.

Fail closed: a construct the translator does not know, a missing statement or a changed comparison is reported as a broken tie
(ast:<what>), never ignored.  Algebraic rearrangements inside the translated expressions are tolerated (the generated goals are closed
by `ring` / `field` under the radicals), renamings of local variables are tolerated (free variables are taken in order of appearance)."""
import ast, os


class Untranslatable(Exception):
    pass


CMP = {ast.Lt: "<", ast.LtE: "<=", ast.Gt: ">", ast.GtE: ">="}      # translated literally; a comparison in the wrong direction fails its goal


def _name(n):
    """dotted name of a Name / Attribute chain (tl.sqrt -> 'tl.sqrt', self.norm_tensor -> 'self.norm_tensor')"""
    if isinstance(n, ast.Name):
        return n.id
    if isinstance(n, ast.Attribute):
        return _name(n.value) + "." + n.attr
    raise Untranslatable(ast.dump(n)[:80])


class Expr:
    """Python arithmetic expression -> Gallina term over R; every maximal sub-term that is not arithmetic (a call of tl.norm, a name,
    rec_errors[-1], ...) becomes an opaque variable, numbered in order of first appearance (same source text = same variable)"""

    def __init__(self):
        self.vars = []          # source text of the opaque atoms, in order of first appearance

    def atom(self, node):
        src = ast.unparse(node)
        if src not in self.vars:
            self.vars.append(src)
        return f"v{self.vars.index(src)}"

    def tr(self, n):
        if isinstance(n, ast.BinOp):
            if isinstance(n.op, ast.Pow):
                if isinstance(n.right, ast.Constant) and n.right.value == 2:
                    return f"(({self.tr(n.left)}) ^ 2)"
                raise Untranslatable("power other than 2: " + ast.unparse(n))
            op = {ast.Add: "+", ast.Sub: "-", ast.Mult: "*", ast.Div: "/"}.get(type(n.op))
            if op is None:
                raise Untranslatable("operator " + type(n.op).__name__)
            return f"(({self.tr(n.left)}) {op} ({self.tr(n.right)}))"
        if isinstance(n, ast.UnaryOp) and isinstance(n.op, ast.USub):
            return f"(- ({self.tr(n.operand)}))"
        if isinstance(n, ast.Constant):
            if isinstance(n.value, bool) or not isinstance(n.value, (int, float)) or n.value != int(n.value):
                raise Untranslatable("constant " + repr(n.value))
            return f"({int(n.value)})"
        if isinstance(n, ast.Call):
            f = _name(n.func)
            if f in ("sqrt", "tl.sqrt", "math.sqrt", "T.sqrt", "np.sqrt") and len(n.args) == 1 and not n.keywords:
                return f"(sqrt ({self.tr(n.args[0])}))"
            if f in ("abs", "tl.abs", "T.abs", "np.abs") and len(n.args) == 1 and not n.keywords:
                return f"(Rabs ({self.tr(n.args[0])}))"
            return self.atom(n)          # tl.norm(core, 2), cp_norm(...), ... : opaque
        if isinstance(n, (ast.Name, ast.Attribute, ast.Subscript)):
            return self.atom(n)
        raise Untranslatable(type(n).__name__ + ": " + ast.unparse(n)[:60])


def _func(tree, name, cls=None):
    body = tree.body
    if cls is not None:
        c = next((n for n in body if isinstance(n, ast.ClassDef) and n.name == cls), None)
        if c is None:
            raise Untranslatable(f"class {cls} not found")
        body = c.body
    f = next((n for n in body if isinstance(n, ast.FunctionDef) and n.name == name), None)
    if f is None:
        raise Untranslatable(f"function {name} not found")
    return f


def _assigns(fn, target):
    """all `target = value` / `target /= value` statements of a function, in source order"""
    out = []
    for n in ast.walk(fn):
        if isinstance(n, ast.Assign) and len(n.targets) == 1 and isinstance(n.targets[0], ast.Name) and n.targets[0].id == target:
            out.append(n)
        if isinstance(n, ast.AugAssign) and isinstance(n.target, ast.Name) and n.target.id == target:
            out.append(n)
    return sorted(out, key=lambda n: n.lineno)


def _gallina_fun(name, e, body):
    args = " ".join(f"v{i}" for i in range(len(e.vars)))
    return f"Definition {name} ({args} : R) : R := {body}." if e.vars else f"Definition {name} : R := {body}."


def extract(repo):
    """-> (list of Gallina lines, dict name -> description of what was extracted, list of broken ties)"""
    lines, info, broken = [], {}, []

    def attempt(what, fn):
        try:
            fn()
        except Untranslatable as ex:
            broken.append(f"ast:{what}: {ex}")
        except Exception as ex:   # unreadable source, syntax error, ...
            broken.append(f"ast:{what}: {type(ex).__name__}: {ex}")

    def src(rel):
        return ast.parse(open(os.path.join(repo, rel)).read())

    # 1. parafac: error_calc fast branch  sqrt(|norm^2 + cp_norm^2 - 2 iprod|)  with  factors_norm = cp_norm((weights, factors)),
    #    iprod = sum(sum(mttkrp * conj(factors[-1]))) ;  rec_error = unnorml_rec_error / norm_tensor
    def cp_err():
        fn = _func(src("tensorly/decomposition/_cp.py"), "error_calc")
        cands = [a for a in _assigns(fn, "unnorml_rec_error") if isinstance(a, ast.Assign) and isinstance(a.value, ast.Call)
                 and _name(a.value.func) in ("tl.sqrt", "sqrt", "math.sqrt")]
        if len(cands) != 1:
            raise Untranslatable(f"{len(cands)} square-root assignments of unnorml_rec_error in error_calc (expected 1)")
        e = Expr()
        body = e.tr(cands[0].value)
        fnorm = _assigns(fn, "factors_norm"); ipr = _assigns(fn, "iprod")
        if len(fnorm) != 1 or len(ipr) != 1:
            raise Untranslatable("factors_norm / iprod not assigned exactly once")
        fsrc, isrc = ast.unparse(fnorm[0].value), ast.unparse(ipr[0].value)
        if not (isinstance(fnorm[0].value, ast.Call) and _name(fnorm[0].value.func) == "cp_norm" and fsrc.replace(" ", "") == "cp_norm((weights,factors))"):
            raise Untranslatable("factors_norm is not cp_norm((weights, factors)): " + fsrc)
        names = {x.id for x in ast.walk(ipr[0].value) if isinstance(x, ast.Name)}
        if not ({"mttkrp", "factors"} <= names) or "factors[-1]" not in isrc or "weights" in names:
            raise Untranslatable("iprod is not a contraction of mttkrp with factors[-1]: " + isrc)
        if sorted(e.vars) != sorted(["norm_tensor", "factors_norm", "iprod"]):
            raise Untranslatable("free variables of the error formula: " + repr(e.vars))
        order = [e.vars.index(v) for v in ("norm_tensor", "factors_norm", "iprod")]
        lines.append(_gallina_fun("gen_cp_err_raw", e, body))
        lines.append("Definition gen_cp_err (nt fn ip : R) : R := gen_cp_err_raw " + " ".join(["nt", "fn", "ip"][order.index(i)] for i in range(3)) + ".")
        info["gen_cp_err"] = ast.unparse(cands[0].value)
    attempt("parafac error formula", cp_err)

    # 1b. non_negative_parafac_hals: the same formula, divided by the norm, with the MTTKRP / factor of the last UPDATED mode
    def nn_err():
        fn = _func(src("tensorly/decomposition/_nn_cp.py"), "non_negative_parafac_hals")
        cands = [a for a in _assigns(fn, "rec_error") if isinstance(a, ast.Assign) and "sqrt" in ast.unparse(a.value)]
        if len(cands) != 1:
            raise Untranslatable(f"{len(cands)} square-root assignments of rec_error in non_negative_parafac_hals (expected 1)")
        e = Expr()
        body = e.tr(cands[0].value)
        fnorm = _assigns(fn, "factors_norm"); ipr = _assigns(fn, "iprod")
        if len(fnorm) != 1 or len(ipr) != 1:
            raise Untranslatable("factors_norm / iprod not assigned exactly once")
        if ast.unparse(fnorm[0].value).replace(" ", "") != "cp_norm((weights,factors))":
            raise Untranslatable("factors_norm is not cp_norm((weights, factors)): " + ast.unparse(fnorm[0].value))
        isrc = ast.unparse(ipr[0].value).replace(" ", "")
        if "mttkrp*factors[modes[-1]]" not in isrc and "factors[modes[-1]]*mttkrp" not in isrc:
            raise Untranslatable("iprod is not a contraction of mttkrp with the factor of the last updated mode: " + ast.unparse(ipr[0].value))
        if sorted(e.vars) != sorted(["norm_tensor", "factors_norm", "iprod"]):
            raise Untranslatable("free variables of the error formula: " + repr(e.vars))
        order = [e.vars.index(v) for v in ("norm_tensor", "factors_norm", "iprod")]
        lines.append(_gallina_fun("gen_nn_err_raw", e, body))
        lines.append("Definition gen_nn_err (nt fn ip : R) : R := gen_nn_err_raw " + " ".join(["nt", "fn", "ip"][order.index(i)] for i in range(3)) + ".")
        info["gen_nn_err"] = ast.unparse(cands[0].value)
    attempt("non_negative_parafac_hals error formula", nn_err)

    # 2. parafac: the reported error is the unnormalised error over the norm; the jump is accepted iff its relative error is STRICTLY below
    #    the last reported error
    def cp_accept():
        fn = _func(src("tensorly/decomposition/_cp.py"), "parafac")
        rel = [a for a in _assigns(fn, "rec_error") if isinstance(a, ast.Assign)]
        if len(rel) != 1 or ast.unparse(rel[0].value).replace(" ", "") != "unnorml_rec_error/norm_tensor":
            raise Untranslatable("rec_error is not unnorml_rec_error / norm_tensor")
        tests = [n for n in ast.walk(fn) if isinstance(n, ast.If) and any(isinstance(x, ast.Name) and x.id == "new_rec_error" for x in ast.walk(n.test))]
        if len(tests) != 1:
            raise Untranslatable(f"{len(tests)} tests on new_rec_error (expected 1)")
        t = tests[0].test
        if not (isinstance(t, ast.Compare) and len(t.ops) == 1 and type(t.ops[0]) in CMP):
            raise Untranslatable("acceptance test is not a single comparison: " + ast.unparse(t))
        if ast.unparse(t.comparators[0]).replace(" ", "") != "rec_errors[-1]":
            raise Untranslatable("the jump is not compared with rec_errors[-1]: " + ast.unparse(t))
        acc = [a for a in ast.walk(tests[0]) if isinstance(a, ast.Assign) and ast.unparse(a).replace(" ", "") == "factors,weights=(new_factors,new_weights)"]
        if not acc or not any(a in ast.walk(ast.Module(body=tests[0].body, type_ignores=[])) for a in acc):
            raise Untranslatable("the accepting branch does not install (new_factors, new_weights)")
        e = Expr()
        lhs = e.tr(t.left)
        if sorted(e.vars) != ["new_norm_tensor", "new_rec_error"]:
            raise Untranslatable("left-hand side of the acceptance test: " + ast.unparse(t.left))
        a0, a1 = ("e", "n") if e.vars[0] == "new_rec_error" else ("n", "e")
        lines.append(_gallina_fun("gen_cp_jump_err_raw", e, lhs))
        lines.append(f"Definition gen_cp_accept (e n last : R) : Prop := gen_cp_jump_err_raw {a0} {a1} {CMP[type(t.ops[0])]} last.")
        info["gen_cp_accept"] = ast.unparse(t)
    attempt("parafac line-search acceptance", cp_accept)

    # 3. partial_tucker: sqrt(|norm^2 - ||core||^2|) / norm
    def tk_err():
        fn = _func(src("tensorly/decomposition/_tucker.py"), "partial_tucker")
        cands = [a for a in _assigns(fn, "rec_error") if isinstance(a, ast.Assign) and "sqrt" in ast.unparse(a.value)]
        if len(cands) != 1:
            raise Untranslatable(f"{len(cands)} square-root assignments of rec_error in partial_tucker (expected 1)")
        e = Expr()
        body = e.tr(cands[0].value)
        if len(e.vars) != 2 or "norm_tensor" not in e.vars:
            raise Untranslatable("free variables of the Tucker error formula: " + repr(e.vars))
        other = [v for v in e.vars if v != "norm_tensor"][0]
        if other.replace(" ", "") not in ("tl.norm(core,2)", "tl.norm(core)"):
            raise Untranslatable("the Tucker error does not use the norm of the core: " + other)
        args = ("nt", "cn") if e.vars[0] == "norm_tensor" else ("cn", "nt")
        lines.append(_gallina_fun("gen_tk_err_raw", e, body))
        lines.append(f"Definition gen_tk_err (nt cn : R) : R := gen_tk_err_raw {args[0]} {args[1]}.")
        info["gen_tk_err"] = ast.unparse(cands[0].value)
    attempt("partial_tucker error formula", tk_err)

    # 4. PARAFAC2 line search: accepted iff the error of the extrapolated point is STRICTLY below the error of the ALS iterate handed in
    def p2_accept():
        fn = _func(src("tensorly/decomposition/_parafac2.py"), "line_step", cls="_BroThesisLineSearch")
        tests = [n for n in ast.walk(fn) if isinstance(n, ast.If) and any(isinstance(x, ast.Name) and x.id == "ls_rec_error" for x in ast.walk(n.test))]
        if len(tests) != 1:
            raise Untranslatable(f"{len(tests)} tests on ls_rec_error (expected 1)")
        t = tests[0].test
        if not (isinstance(t, ast.Compare) and len(t.ops) == 1 and type(t.ops[0]) in CMP and ast.unparse(t.left) == "ls_rec_error"
                and ast.unparse(t.comparators[0]) == "rec_error"):
            raise Untranslatable("acceptance test is not a comparison of ls_rec_error with rec_error: " + ast.unparse(t))
        rets = [r for r in ast.walk(ast.Module(body=tests[0].body, type_ignores=[])) if isinstance(r, ast.Return)]
        rete = [r for r in ast.walk(ast.Module(body=tests[0].orelse, type_ignores=[])) if isinstance(r, ast.Return)]
        if len(rets) != 1 or ast.unparse(rets[0].value).replace(" ", "") != "(factors_ls,projections_ls,ls_rec_error)":
            raise Untranslatable("accepting branch does not return the extrapolated state with its error")
        if len(rete) != 1 or ast.unparse(rete[0].value).replace(" ", "") != "(factors,projections,rec_error)":
            raise Untranslatable("rejecting branch does not return the ALS iterate with its error")
        if "rec_error" not in [a.arg for a in fn.args.args]:
            raise Untranslatable("rec_error is not an argument of line_step")
        lines.append(f"Definition gen_p2_accept (ls_err als_err : R) : Prop := ls_err {CMP[type(t.ops[0])]} als_err.")
        info["gen_p2_accept"] = ast.unparse(t)
    attempt("parafac2 line-search acceptance", p2_accept)

    # 5. CMTF: the reported value is a sum of two squared norms (tensor residual, matrix residual)
    def cmtf_err():
        fn = _func(src("tensorly/decomposition/_cmtf_als.py"), "coupled_matrix_tensor_3d_factorization")
        a = [x for x in _assigns(fn, "error_new") if isinstance(x, ast.Assign)]
        if len(a) != 1:
            raise Untranslatable("error_new not assigned exactly once")
        e = Expr()
        body = e.tr(a[0].value)
        if len(e.vars) != 2 or not all(v.startswith("tl.norm(") for v in e.vars):
            raise Untranslatable("error_new is not built from two norms: " + repr(e.vars))
        v0, v1 = [v.replace(" ", "") for v in e.vars]
        if not (v0 == "tl.norm(tensor_3d-cp_to_tensor(tensor_cp))" and v1 == "tl.norm(matrix-cp_to_tensor((None,[tensor_cp.factors[0],V])))"):
            raise Untranslatable("residuals of error_new: " + repr(e.vars))
        lines.append(_gallina_fun("gen_cmtf_err", e, body))
        info["gen_cmtf_err"] = ast.unparse(a[0].value)
    attempt("CMTF error formula", cmtf_err)

    # 6. tensor ring: relative error = norm of the residual of the last block's least-squares problem / norm of the tensor
    def tr_err():
        tree = src("tensorly/decomposition/_tr_als.py")
        fn = _func(tree, "tensor_ring_als")
        errs = [x for x in _assigns(fn, "error") if isinstance(x, ast.Assign)]
        rel = [x for x in _assigns(fn, "rel_error") if isinstance(x, ast.Assign)]
        inloop = [x for x in rel if ast.unparse(x.value).replace(" ", "") == "error/tensor_norm"]
        if not errs or not all(ast.unparse(x.value).replace(" ", "") in ("tl.norm(tl.matmul(design_mat,sol)-tensor_unf)", "tl.norm(tensor-tl.tr_to_tensor(tr_decomp))",
                                                                         "tl.norm(tensor-tr_to_tensor(tr_decomp))", "tl.norm(tl.tr_to_tensor(tr_decomp)-tensor)") for x in errs):
            raise Untranslatable("error of tensor_ring_als: " + "; ".join(ast.unparse(x.value) for x in errs))
        if not inloop:
            raise Untranslatable("rel_error is not error / tensor_norm")
        lines.append("Definition gen_tr_err (err nt : R) : R := err / nt.")
        info["gen_tr_err"] = "error / tensor_norm"
    attempt("tensor_ring_als error formula", tr_err)
    return lines, info, broken


GOALS = {
    "gen_cp_err": """Goal forall (X : tensor R) (w : list R) (facs : list (list (list R))) (k rank : nat), (k < length (shape X))%nat -> (k < length facs)%nat ->
  gen_cp_err (sqrt (tnormsq Rops X)) (sqrt (cp_norm2_gram Rops (shape X) w facs rank)) (cp_iprod Rops X w facs k rank) / sqrt (tnormsq Rops X) = cp_rel_err X w rank facs.
Proof.
  intros X w facs k rank Hk Hf. rewrite <- (static_cp_reported X w facs k rank Hk Hf).
  solve [ reflexivity | f_equal; unfold gen_cp_err, gen_cp_err_raw, static_cp_err; apply f_equal; apply f_equal; ring ].
Qed.""",
    "gen_nn_err": """Goal forall (X : tensor R) (w : list R) (facs : list (list (list R))) (k rank : nat), (k < length (shape X))%nat -> (k < length facs)%nat ->
  gen_nn_err (sqrt (tnormsq Rops X)) (sqrt (cp_norm2_gram Rops (shape X) w facs rank)) (cp_iprod Rops X w facs k rank) = cp_rel_err X w rank facs.
Proof.
  intros X w facs k rank Hk Hf. rewrite <- (static_cp_reported X w facs k rank Hk Hf).
  solve [ reflexivity | unfold gen_nn_err, gen_nn_err_raw, static_cp_err; f_equal; apply f_equal; apply f_equal; ring ].
Qed.""",
    "gen_cp_accept": """Goal forall e n last : R, gen_cp_accept e n last -> e / n <= last.
Proof. intros e n last. unfold gen_cp_accept, gen_cp_jump_err_raw. lra. Qed.""",
    "gen_tk_err": """Goal forall (X : tensor R) (rs : list nat) (Us : list (list (list R))),
  gen_tk_err (sqrt (normsq X)) (sqrt (tk_core_norm2 Rops X rs Us)) = tk_reported X rs Us.
Proof.
  intros X rs Us. rewrite <- (static_tk_reported X rs Us).
  solve [ reflexivity | unfold gen_tk_err, gen_tk_err_raw, static_tk_err; f_equal; apply f_equal; apply f_equal; ring ].
Qed.""",
    "gen_p2_accept": """Goal forall ls_err als_err : R, gen_p2_accept ls_err als_err -> ls_err <= als_err.
Proof. intros a b. unfold gen_p2_accept. lra. Qed.""",
    "gen_cmtf_err": """Goal forall a b : R, 0 <= a -> 0 <= b -> gen_cmtf_err (sqrt a) (sqrt b) = a + b.
Proof. intros a b Ha Hb. unfold gen_cmtf_err. rewrite <- (sqrt_sqrt a Ha) at 2. rewrite <- (sqrt_sqrt b Hb) at 2. ring. Qed.""",
    "gen_tr_err": """Goal forall n e : R, 0 <= e -> gen_tr_err (sqrt e) (sqrt n) = rel_err n e.
Proof. intros n e He. unfold gen_tr_err, rel_err. now rewrite Rabs_pos_eq. Qed.""",
}

ITEM_OF = {"gen_cp_err": "parafac error formula", "gen_nn_err": "non_negative_parafac_hals error formula", "gen_cp_accept": "parafac line-search acceptance",
           "gen_tk_err": "partial_tucker error formula", "gen_p2_accept": "parafac2 line-search acceptance", "gen_cmtf_err": "CMTF error formula",
           "gen_tr_err": "tensor_ring_als error formula"}

HEADER = """From Coq Require Import Reals List Arith Lia Lra.
From TLV Require Import Base.Shape Base.PyList Base.Tensor Base.Ops Base.RSum Model.Descent Model.DescentReport
  Proofs.DescentProofs Proofs.DescentProofsOrth Proofs.DescentProofsSweeps Proofs.DescentProofsReport Proofs.DescentProofsStatic.
Import ListNotations.
Open Scope R_scope.
"""


def coq_file(lines, info):
    """the generated Coq source: regenerated definitions + the theorems re-checked against them"""
    out = [HEADER] + lines
    for k in info:
        out.append(GOALS[k])
    return "\n".join(out) + "\n"


# ----------------------------------------------------------------------------------------------------------------- stopping rules
# (round 7) the tests that end the outer loops are re-extracted from the CURRENT sources: for every `break` of the loop whose path condition mentions
# the tolerance, the conjuncts are classified (guard on tol / first iteration at which the rule may fire / the numeric test), local names are inlined
# through their assignments in the loop, the numeric test is translated to a proposition over R in (a, b, tol) = (newest value, previous value,
# tolerance) and coqc re-checks that it is EQUIVALENT to the test of the model's rule (Model/DescentLoop.v rule_of, read over R by
# Proofs/DescentProofsLoop.v stop_test_spec), that the first iteration and the guard are the model's.
STOP_SITES = [   # item, file, function, class, alg id of Model/DescentLoop.v, abs criterion, selector constant (cvg_criterion == ...)
    ("parafac stopping rule (abs_rec_error)", "tensorly/decomposition/_cp.py", "parafac", None, 0, True, "abs_rec_error"),
    ("parafac stopping rule (rec_error)", "tensorly/decomposition/_cp.py", "parafac", None, 0, False, "rec_error"),
    ("non_negative_parafac_hals stopping rule (abs_rec_error)", "tensorly/decomposition/_nn_cp.py", "non_negative_parafac_hals", None, 0, True, "abs_rec_error"),
    ("non_negative_parafac_hals stopping rule (rec_error)", "tensorly/decomposition/_nn_cp.py", "non_negative_parafac_hals", None, 0, False, "rec_error"),
    ("partial_tucker stopping rule", "tensorly/decomposition/_tucker.py", "partial_tucker", None, 1, True, None),
    ("parafac2 stopping rule", "tensorly/decomposition/_parafac2.py", "parafac2", None, 2, True, None),
    ("tensor_ring_als stopping rule", "tensorly/decomposition/_tr_als.py", "tensor_ring_als", None, 3, True, None),
    ("CMTF stopping rule", "tensorly/decomposition/_cmtf_als.py", "coupled_matrix_tensor_3d_factorization", None, 4, True, None),
    ("CPRegressor stopping rule", "tensorly/regression/cp_regression.py", "fit", "CPRegressor", 5, True, None),
    ("TuckerRegressor stopping rule", "tensorly/regression/tucker_regression.py", "fit", "TuckerRegressor", 5, True, None),
    ("hals_nnls stopping rule", "tensorly/solvers/nnls.py", "hals_nnls", None, 6, True, None),
]
LOOPVARS = ("iteration", "iter")
TOLNAMES = ("tol", "self.tol")


def _parents(root):
    par = {}
    for n in ast.walk(root):
        for c in ast.iter_child_nodes(n):
            par[c] = n
    return par


def _mentions(node, names):
    for x in ast.walk(node):
        if isinstance(x, (ast.Name, ast.Attribute)):
            try:
                if _name(x) in names:
                    return True
            except Untranslatable:
                pass
    return False


class StopExpr(Expr):
    """numeric side of a stopping test: X[-1] -> a, X[-2] -> b (any history list X), error_new -> a, error_old -> b, tol / self.tol -> tol;
    hals_nnls: rec_error -> a, rec_error0 -> f (the value of the first pass; the assignment `rec_error0 = rec_error` under `iteration == 0` is checked)"""
    uses_first = False

    def atom(self, node):
        src = ast.unparse(node).replace(" ", "")
        if src in TOLNAMES:
            return "tol"
        if src in ("error_new", "rec_error") or (isinstance(node, ast.Subscript) and src.endswith("[-1]")):
            return "a"
        if src == "rec_error0":
            StopExpr.uses_first = True
            return "f"
        if src == "error_old" or (isinstance(node, ast.Subscript) and src.endswith("[-2]")):
            return "b"
        raise Untranslatable("quantity in a stopping test: " + ast.unparse(node))


def _stop_rule(fn, selector):
    """-> (proposition text over a b tol, first iteration, guard in {'truthy', 'positive', 'none'})"""
    loops = [n for n in ast.walk(fn) if isinstance(n, ast.For) and isinstance(n.target, ast.Name) and n.target.id in LOOPVARS
             and isinstance(n.iter, ast.Call) and _name(n.iter.func) == "range"]
    if len(loops) != 1:
        raise Untranslatable(f"{len(loops)} outer loops over range(..) with loop variable iteration / iter (expected 1)")
    loop = loops[0]
    lv = loop.target.id
    par = _parents(loop)

    class InnerLoop(Exception):
        pass

    def path(node, strict=True):
        """tests of the enclosing Ifs; strict (for a break): the node must sit in their bodies, not in an else, and not in an inner loop"""
        tests, n = [], node
        while n is not loop:
            p = par[n]
            if isinstance(p, ast.If):
                if any(n is x for x in p.body):
                    tests.append(p.test)
                elif any(n is x for x in p.orelse):
                    # an `elif` chain on the selector: the earlier test is another value of the selector - fine; anything else is not translated
                    if strict and not (selector and _mentions(p.test, ("cvg_criterion",))):
                        raise Untranslatable("a stopping test sits in an else branch: " + ast.unparse(p.test)[:60])
            elif isinstance(p, (ast.For, ast.While)) and p is not loop and strict:
                raise InnerLoop()
            n = p
        return tests

    def assigns_of(name):
        out = []
        for n in ast.walk(loop):
            if isinstance(n, ast.Assign) and len(n.targets) == 1 and isinstance(n.targets[0], ast.Name) and n.targets[0].id == name:
                out.append(n)
        return out

    def selected(n):
        """is the statement on the branch of the selector constant (or on no selector branch)?"""
        for t in path(n, strict=False):
            if _mentions(t, ("cvg_criterion",)):
                consts = [c.value for c in ast.walk(t) if isinstance(c, ast.Constant) and isinstance(c.value, str)]
                if not (isinstance(t, ast.Compare) and len(t.ops) == 1 and isinstance(t.ops[0], ast.Eq) and len(consts) == 1):
                    raise Untranslatable("selector test: " + ast.unparse(t))
                if consts[0] != selector:
                    return False
        return True

    def inline(node, depth=0):
        """replace local names by their (selected) assignment inside the loop"""
        if depth > 6:
            return node       # deep chains are computations, not tests; what stays unknown is rejected by the translation below

        class T(ast.NodeTransformer):
            def visit_Name(self, n):
                if n.id in LOOPVARS or n.id in ("tol", "error_new", "error_old", "rec_error", "rec_error0", "tl", "T", "np", "abs", "self"):
                    return n
                cands = [a for a in assigns_of(n.id) if selected(a)]
                if len(cands) == 1:
                    return inline(cands[0].value, depth + 1)
                return n          # none / several assignments: left as it is (an unknown quantity in a tolerance test is rejected by the translation below)
        import copy
        return T().visit(copy.deepcopy(node))

    rules = []
    for br in [n for n in ast.walk(loop) if isinstance(n, ast.Break)]:
        try:
            tests = path(br)
        except InnerLoop:
            continue          # ends an inner loop, not the iteration loop
        if not selected(br):
            continue
        tests = [inline(t) for t in tests if not _mentions(t, ("cvg_criterion",))]
        conj = []
        for t in tests:
            conj += t.values if isinstance(t, ast.BoolOp) and isinstance(t.op, ast.And) else [t]
        if not any(_mentions(c, TOLNAMES) for c in conj):
            continue          # a break that has nothing to do with the tolerance (callback, all modes fixed, ...)
        first, guard, numeric = 0, "none", []
        for c in conj:
            src = ast.unparse(c).replace(" ", "")
            if src in TOLNAMES:
                guard = "truthy"
            elif src in ("tol>0", "0<tol", "self.tol>0"):
                guard = "positive"
            elif isinstance(c, ast.Compare) and len(c.ops) == 1 and isinstance(c.left, ast.Name) and c.left.id == lv and isinstance(c.comparators[0], ast.Constant):
                k = c.comparators[0].value
                if isinstance(c.ops[0], ast.Gt): first = max(first, k + 1)
                elif isinstance(c.ops[0], ast.GtE): first = max(first, k)
                else: raise Untranslatable("test on the loop variable: " + ast.unparse(c))
            elif _mentions(c, ("verbose", "self.verbose")):
                raise Untranslatable("a stopping test depends on verbose: " + ast.unparse(c))
            else:
                numeric.append(c)
        if len(numeric) != 1:
            raise Untranslatable(f"{len(numeric)} numeric tests on the path to a break: " + "; ".join(ast.unparse(x) for x in numeric))
        rules.append((numeric[0], first, guard))
    if len(rules) != 1:
        raise Untranslatable(f"{len(rules)} tolerance-driven breaks in the outer loop (expected 1)")

    def prop(n):
        if isinstance(n, ast.BoolOp):
            op = " \\/ " if isinstance(n.op, ast.Or) else " /\\ "
            return "(" + op.join(prop(v) for v in n.values) + ")"
        if isinstance(n, ast.Compare) and len(n.ops) == 1 and type(n.ops[0]) in CMP:
            e = StopExpr()
            return f"({e.tr(n.left)} {CMP[type(n.ops[0])]} {e.tr(n.comparators[0])})"
        raise Untranslatable("stopping test: " + ast.unparse(n))
    num, first, guard = rules[0]
    StopExpr.uses_first = False
    text = prop(num)
    if StopExpr.uses_first:
        ok = [a for a in assigns_of("rec_error0") if ast.unparse(a.value) == "rec_error" and
              any(ast.unparse(t).replace(" ", "") == lv + "==0" for t in path(a, strict=False))]
        if len(assigns_of("rec_error0")) != 1 or len(ok) != 1:
            raise Untranslatable("rec_error0 is not the value of rec_error at the first iteration")
    return text, first, guard, ast.unparse(num)


GUARD_TERM = {"truthy": "truthy Rops tol", "positive": "fltb Rops (f0 Rops) tol", "none": "true"}
STOP_HEADER = """From Coq Require Import Reals List Arith Lia Lra Bool.
From TLV Require Import Base.Ops Model.DescentLoop Proofs.DescentProofsLoop.
Import ListNotations.
Open Scope R_scope.
Ltac stop_equiv := intros a b f tol; unfold stop_prop; cbn; unfold Rabs; repeat match goal with |- context [Rcase_abs ?x] => destruct (Rcase_abs x) end;
  solve [ tauto | split; intros; lra | split; (intros [?|?]; [left|right]; lra) | split; intros; nra ].
"""


def stop_rules(repo):
    """-> (dict item -> Coq source of its goals, dict item -> description, list of broken ties 'ast:<item>: ...')"""
    files, info, broken = {}, {}, []
    for idx, (item, rel, fname, cls, alg, abs_crit, selector) in enumerate(STOP_SITES):
        try:
            import warnings
            with warnings.catch_warnings():
                warnings.simplefilter("ignore")
                tree = ast.parse(open(os.path.join(repo, rel)).read())
            fn = _func(tree, fname, cls=cls)
            p, first, guard, srctxt = _stop_rule(fn, selector)
        except Untranslatable as ex:
            broken.append(f"ast:{item}: {ex}")
            continue
        except Exception as ex:
            broken.append(f"ast:{item}: {type(ex).__name__}: {ex}")
            continue
        b = "true" if abs_crit else "false"
        files[item] = (f"Definition gen_stop_{idx} (a b f tol : R) : Prop := {p}.\n"
                       f"Goal forall a b f tol : R, gen_stop_{idx} a b f tol <-> stop_prop (sr_kind (rule_of Rops {alg} {b} tol)) tol a b f.\nProof. unfold gen_stop_{idx}. stop_equiv. Qed.\n"
                       f"Goal forall tol : R, sr_min_it (rule_of Rops {alg} {b} tol) = {first}%nat /\\ sr_active (rule_of Rops {alg} {b} tol) = {GUARD_TERM[guard]}.\nProof. intros tol. split; reflexivity. Qed.\n")
        info[item] = dict(test=srctxt, first_iteration=first, guard=guard)
    return files, info, broken
