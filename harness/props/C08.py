"""C08 -- decomposition outputs honour requested structure and canonical form.

Correspondence (exact): Model/Structure.v (rank validators + shape flow of every decomposition) vs the
implementation, on an enumerated grid shapes x rank specifications (int / list / 'same' / fractions, rounding
modes), comparing the shapes of everything returned and the .shape/.rank recomputed by the wrapper constructors.
Predicates (transcriptions of the theorems of Props/C08.v) on the implementation's outputs: normalisation
contract on both stopping paths, Tucker orthonormality + core = projection, TT-SVD left-orthogonality,
TR ranks = requested (clipped) ranks, PARAFAC2 projections orthonormal / common cross product."""
import itertools, math, random
from fractions import Fraction
import numpy as np
from harness import common as C

HEADER = """From Coq Require Import List NArith ZArith QArith Bool. Import ListNotations.
From TLV Require Import Base.Tensor Model.Structure Model.StructureHooi Model.StructureWeights Model.StructureRanks Corr.C08.
Local Open Scope nat_scope."""

ROUNDINGS = {"round": "RRound", "floor": "RFloor", "ceil": "RCeil"}


# ----------------------------------------------------------------------------- literals
def spec_lit(spec):
    if spec == "same":
        return "(RFrac (Qmake (1)%Z (1)%positive))"
    if isinstance(spec, float):
        return f"(RFrac {C.q(spec)})"
    if isinstance(spec, int):
        return f"(RInt {C.nat(spec)})"
    return f"(RList {C.nat_list(list(spec))})"


def shapes_lit(st, shapes):
    if st != "ok":
        return "Err"
    return "(Ok [" + "; ".join(C.nat_list(list(s)) for s in shapes) + "])"


def frac_of(spec):
    if spec == "same":
        return Fraction(1)
    if isinstance(spec, float):
        return Fraction(*spec.as_integer_ratio())
    return None


# ----------------------------------------------------------------------------- oracles (independent of the code)
def isqrt_frac(x, digits=40):
    """sqrt of a non-negative Fraction to ~digits decimal digits, as a Fraction"""
    sc = 10 ** digits
    return Fraction(math.isqrt(x.numerator * x.denominator * sc * sc), x.denominator * sc)


import functools


@functools.lru_cache(maxsize=None)
def tucker_root(shape, q):
    """root of P x^N + (sum s^2) x - q P on [0, max(q,1)] (what the code asks brentq for), by exact bisection"""
    P = Fraction(int(np.prod(shape))); S = Fraction(sum(s * s for s in shape)); N = len(shape)
    f = lambda x: P * x ** N + S * x - q * P
    lo, hi = Fraction(0), max(q, Fraction(1))
    for _ in range(90):
        mid = (lo + hi) / 2
        mid = Fraction(mid.numerator, mid.denominator)
        if f(mid) <= 0:
            lo = mid
        else:
            hi = mid
    return lo


def tt_coeffs(shape, q, constant):
    n = len(shape)
    if constant:
        return Fraction(sum(shape[1:-1])), Fraction(shape[0] + shape[-1]), -Fraction(int(np.prod(shape))) * q
    av = [Fraction(shape[i] + shape[i + 1], 2) for i in range(n - 1)]
    if len(av) > 1:
        a = sum(av[i - 1] * shape[i] * av[i] for i in range(1, n - 1))
    else:
        a = av[0] ** 2 * shape[0]
    b = shape[0] * av[0] + shape[-1] * av[-1]
    return Fraction(a), Fraction(b), -Fraction(int(np.prod(shape))) * q


@functools.lru_cache(maxsize=None)
def tt_root(shape, q, constant):
    a, b, c0 = tt_coeffs(shape, q, constant)
    if a == 0:
        return None
    r = (-b + isqrt_frac(b * b - 4 * a * c0)) / (2 * a)
    return r.limit_denominator(10 ** 30)


def near_boundary(x, rounding, band=Fraction(1, 10 ** 8)):
    """is the exact value x within `band` of a point where the rounding function jumps (but not exactly computable)?"""
    if rounding == "round":
        y = x - Fraction(1, 2)
    else:
        y = x
    d = abs(y - round(y))
    return d < band


# ----------------------------------------------------------------------------- exact evaluation of the outputs inside Coq (Model/StructureQ.v)
QOK = "(Ok [[1]%nat])"


def qmat(a):
    return C.q_list([float(x) for x in np.asarray(a, dtype=float).ravel()])


def cqmat(a):
    """complex entries as Gaussian rationals (re, im)"""
    a = np.asarray(a).ravel()
    return "[" + "; ".join(f"({C.q(float(np.real(z)))}, {C.q(float(np.imag(z)))})" for z in a) + "]" if a.size else "(@nil CQ)"


def qorth_lit(cid, M, tol=None):
    """M: 2-D array with (claimed) orthonormal columns; complex data go to the Gaussian-rational checker (M^H M)"""
    M = np.asarray(M)
    tol = tol_for(M, 1e-8) if tol is None else tol
    if np.iscomplexobj(M):
        return f"({cid}%N, (CQOrth {C.nat(M.shape[1])} {cqmat(M)} {C.q(tol)}), {QOK})"
    return f"({cid}%N, (QOrth {C.nat(M.shape[1])} {qmat(M)} {C.q(tol)}), {QOK})"


def qtucker_lit(cid, X, core, factors, modes, tol_orth=None):
    """core = X x_m U_m^H over `modes`; the other modes get the identity"""
    X = np.asarray(X)
    cx = np.iscomplexobj(X) or np.iscomplexobj(core)
    full = [np.eye(d) for d in X.shape]
    for m, f in zip(modes, factors):
        full[m] = np.asarray(f)
    ranks = [f.shape[1] for f in full]
    single = tol_for(X) > TOL
    tol_orth = (2e-5 if single else 1e-8) if tol_orth is None else max(tol_orth, 2e-5 if single else 0)
    tol_proj = (2e-5 if single else 1e-8) * max(1.0, float(np.max(np.abs(X))) if X.size else 1.0)
    mat = cqmat if cx else qmat
    fl = "[" + "; ".join(mat(f.astype(complex) if cx else f) for f in full) + "]"
    op = "CQTucker" if cx else "QTucker"
    return (f"({cid}%N, ({op} {C.nat_list(list(X.shape))} {C.nat_list(ranks)} {mat(X)} {mat(core)} {fl} {C.q(tol_orth)} {C.q(tol_proj)}), {QOK})")


def qcpnorm_lit(cid, w, fs, wout, fout):
    R = fs[0].shape[1]
    scaled = [np.asarray(f, dtype=float) for f in fs]
    scaled[0] = scaled[0] * (np.ones(R) if w is None else np.asarray(w, dtype=float))
    scales = [np.linalg.norm(f, axis=0) for f in scaled]                       # oracle tape (sqrt); its equation is checked in Coq
    wl = "None" if w is None else f"(Some {qmat(w)})"
    return (f"({cid}%N, (QCpNorm {C.nat(R)} {wl} [{'; '.join(qmat(f) for f in fs)}] [{'; '.join(qmat(x) for x in scales)}] {C.q(1e-9)} "
            f"{qmat(wout)} [{'; '.join(qmat(f) for f in fout)}]), {QOK})")


# the exact Gaussian-rational evaluation of a Tucker output costs ~1 s of Coq time: a budget per run (quick tier) keeps the sample small
Q_BUDGET = {"complex_tucker": 0}


def q_cases_for(case, out, cid0):
    """Gallina cases that re-evaluate the canonical-form predicates of one decomposition output exactly; small outputs only"""
    kind, s, kw = case["kind"], case["shape"], case["kw"]
    lits = []
    qtol = 1e-6 if kw.get("svd") == "symeig_svd" else None
    if kind == "DTt":
        for f in out.factors[:-1]:
            if f.size <= 120:
                lits.append(lambda cid, f=f: qorth_lit(cid, f.reshape(-1, f.shape[2]), qtol))
    elif kind == "DTr":
        n, m = len(s), kw.get("mode", 0)
        f0 = out.factors[m]
        if f0.size <= 120:
            lits.append(lambda cid: qorth_lit(cid, np.transpose(f0, (1, 0, 2)).reshape(f0.shape[1], -1), qtol))
        for j in range(1, n - 1):
            f = out.factors[(m + j) % n]
            if f.size <= 120:
                lits.append(lambda cid, f=f: qorth_lit(cid, f.reshape(-1, f.shape[2]), qtol))
    elif kind == "DParafac2":
        for p_ in out[2]:
            lits.append(lambda cid, p_=p_: qorth_lit(cid, p_))
    elif kind == "DTucker" and not (kw["init"] == "random" and kw["n_iter_max"] == 0) and prod(s) <= 24 and \
            (case["seed"] % 4 == 0 or str(kw.get("data", "")).startswith("complex") or "svd" in kw):
        X = data_tensor(s, case["seed"], kind=kw.get("data", "normal"))
        core, factors = out
        if np.iscomplexobj(X):
            if Q_BUDGET["complex_tucker"] <= 0:
                return lits
            Q_BUDGET["complex_tucker"] -= 1
        lits.append(lambda cid: qtucker_lit(cid, X, core, factors, list(range(len(s))), tol_orth=qtol))
    return lits


# ----------------------------------------------------------------------------- loop skeletons read off the source (ast)
# The description (init normalised?, callback break normalised?, convergence break normalised?, normalisation before the tests?,
# normalisation at the end of the sweep?, first iteration of the convergence test) of each driver is extracted from the CURRENT source and
# handed to Coq, which evaluates the hypothesis desc_ok of the theorem C08_gen_run_normalised on it.  An unexpected source shape
# yields None (skipped and counted, never a verdict).
import ast, os

NORM_FUNS = ("cp_normalize", "tucker_normalize")
STATE_NAMES = ("factors", "nn_factors", "nn_core")


def _is_norm_stmt(node):
    """`if normalize_factors: ... = cp_normalize(...)` (the plain flag, not a compound in-sweep condition)"""
    if not isinstance(node, ast.If) or node.orelse:
        return False
    t = node.test
    plain = (isinstance(t, ast.Name) and t.id == "normalize_factors") or \
            (isinstance(t, ast.Compare) and isinstance(t.left, ast.Name) and t.left.id == "normalize_factors" and len(t.ops) == 1 and isinstance(t.ops[0], ast.Is))
    if not plain:
        return False
    calls = [n for s in node.body for n in ast.walk(s) if isinstance(n, ast.Call)]
    return any(getattr(c.func, "id", getattr(c.func, "attr", "")) in NORM_FUNS for c in calls)


def _walk_skip_norm(node):
    """ast.walk that does not descend into normalisation statements"""
    todo = [node]
    while todo:
        n = todo.pop()
        if n is not node and _is_norm_stmt(n):
            continue
        yield n
        todo.extend(ast.iter_child_nodes(n))


def _assigns_state(node):
    if _is_norm_stmt(node):
        return False
    for n in _walk_skip_norm(node):
        if isinstance(n, (ast.Assign, ast.AugAssign)):
            targets = n.targets if isinstance(n, ast.Assign) else [n.target]
            for t in targets:
                for x in ast.walk(t):
                    if isinstance(x, ast.Name) and x.id in STATE_NAMES:
                        return True
    return False


def _names(node):
    return {x.id for x in ast.walk(node) if isinstance(x, ast.Name)} | {x.attr for x in ast.walk(node) if isinstance(x, ast.Attribute)}


def _breaks(stmt, tests=(), norm=False):
    """yield (enclosing tests, normalised-just-before?) for every break below stmt (inner for-loops excluded)"""
    if isinstance(stmt, ast.Break):
        yield tests, norm
    elif isinstance(stmt, ast.If):
        for branch, tt in ((stmt.body, tests + (stmt.test,)), (stmt.orelse, tests + (stmt.test,))):
            nrm = norm
            for s in branch:
                if _is_norm_stmt(s):
                    nrm = True
                elif _assigns_state(s):
                    nrm = False
                yield from _breaks(s, tt, nrm)


def _first_iteration(tests):
    for t in tests:
        for c in ast.walk(t):
            if isinstance(c, ast.Compare) and isinstance(c.left, ast.Name) and c.left.id == "iteration" and len(c.ops) == 1 and isinstance(c.comparators[0], ast.Constant):
                v = c.comparators[0].value
                if isinstance(c.ops[0], ast.GtE):
                    return int(v)
                if isinstance(c.ops[0], ast.Gt):
                    return int(v) + 1
    return None


def init_cp_normalises(tree):
    """initialize_cp: every `return` is immediately preceded (in its block) by the normalisation statement"""
    fn = next((n for n in tree.body if isinstance(n, ast.FunctionDef) and n.name == "initialize_cp"), None)
    if fn is None:
        return None
    ok, seen = True, 0
    for node in ast.walk(fn):
        body_lists = [getattr(node, a) for a in ("body", "orelse", "finalbody") if isinstance(getattr(node, a, None), list)]
        for blk in body_lists:
            for k, s in enumerate(blk):
                if isinstance(s, ast.Return):
                    seen += 1
                    prev = [x for x in blk[:k] if not isinstance(x, ast.Expr)]
                    ok = ok and bool(prev) and _is_norm_stmt(prev[-1])
    return ok if seen else None


def extract_desc(path, func, init_cp_ok=None):
    """(init_norm, cb_norm, conv_norm, pre_test_norm, end_norm, conv_first) of one driver, or None when the source has an unexpected shape"""
    tree = ast.parse(open(path).read())
    fn = next((n for n in tree.body if isinstance(n, ast.FunctionDef) and n.name == func), None)
    if fn is None:
        return None
    k_loop = next((k for k, s in enumerate(fn.body) if isinstance(s, ast.For) and isinstance(s.iter, ast.Call) and getattr(s.iter.func, "id", "") == "range"
                   and any(isinstance(a, ast.Name) and a.id == "n_iter_max" for a in s.iter.args)), None)
    if k_loop is None:
        return None
    loop = fn.body[k_loop]
    # initialisation
    init_norm = False
    for s in fn.body[:k_loop]:
        if _is_norm_stmt(s):
            init_norm = True
        for c in ast.walk(s):
            if isinstance(c, ast.Call) and getattr(c.func, "id", "") == "initialize_cp":
                kw = {k.arg: k.value for k in c.keywords}
                passes = isinstance(kw.get("normalize_factors"), ast.Name) and kw["normalize_factors"].id == "normalize_factors"
                if passes and init_cp_ok:
                    init_norm = True
    body = loop.body
    sweep_end = max([k for k, s in enumerate(body) if not _is_norm_stmt(s) and _assigns_state(s)], default=None)
    if sweep_end is None:
        return None
    norm_now, pre, seen_break = False, False, False
    cb_norm, conv_norm, conv_first = True, True, None
    n_conv = 0
    for s in body[sweep_end + 1:]:
        if _is_norm_stmt(s):
            norm_now = True
            if not seen_break:
                pre = True
            continue
        for tests, nrm in _breaks(s, (), norm_now):
            seen_break = True
            names = set().union(*[_names(t) for t in tests]) if tests else set()
            if "retVal" in names or "callback" in names:
                cb_norm = cb_norm and nrm
            else:
                n_conv += 1
                conv_norm = conv_norm and nrm
                fi = _first_iteration(tests)
                conv_first = fi if fi is not None else conv_first
    if n_conv == 0 or conv_first is None:
        return None
    return (init_norm, cb_norm, conv_norm, pre, norm_now, conv_first)


DRIVER_SOURCES = [("parafac", "tensorly/decomposition/_cp.py"), ("non_negative_parafac", "tensorly/decomposition/_nn_cp.py"),
                  ("non_negative_parafac_hals", "tensorly/decomposition/_nn_cp.py"), ("non_negative_tucker", "tensorly/decomposition/_tucker.py"),
                  ("non_negative_tucker_hals", "tensorly/decomposition/_tucker.py"), ("parafac2", "tensorly/decomposition/_parafac2.py")]


def extract_all(repo):
    cp_ok = init_cp_normalises(ast.parse(open(os.path.join(repo, "tensorly/decomposition/_cp.py")).read()))
    return {fn: extract_desc(os.path.join(repo, path), fn, cp_ok) for fn, path in DRIVER_SOURCES}, cp_ok




def desc_lit(cid, fn, d):
    b = C.boolc
    return (f"({cid}%N, (DDesc (mkDesc {b(d[0])} {b(d[1])} {b(d[2])} {b(d[3])} {b(d[4])} {C.nat(d[5])})), {QOK})")



# ----------------------------------------------------------------------------- the loop of partial_tucker read off the source (ast)
# Translation of the CURRENT source of partial_tucker's for-loop into a list of statement kinds (Model/StructureHooi.v hstmt) and of the
# init == "svd" branch of initialize_tucker into one boolean; Coq evaluates prog_ok (the hypothesis of C08_prog_run_core_projected) on it.
# FAIL CLOSED: a statement that assigns the state (core / factors / tensor) in a form the translator does not know makes the translation
# fail, which is reported as a broken tie; statements that assign no state (error bookkeeping, printing) are dropped.
HOOI_STATE = ("core", "factors", "tensor")


class Untranslatable(Exception):
    pass


def _targets(node):
    """names (and subscripted names) assigned anywhere below node"""
    out = set()
    for n in ast.walk(node):
        tg = []
        if isinstance(n, ast.Assign):
            tg = n.targets
        elif isinstance(n, (ast.AugAssign, ast.AnnAssign)):
            tg = [n.target]
        elif isinstance(n, (ast.For, ast.comprehension)):
            tg = [n.target]
        elif isinstance(n, ast.withitem) and n.optional_vars is not None:
            tg = [n.optional_vars]
        for t in tg:
            for x in ast.walk(t):
                if isinstance(x, ast.Name):
                    out.add(x.id)
    return out


def _call_name(c):
    return getattr(c.func, "id", getattr(c.func, "attr", "")) if isinstance(c, ast.Call) else ""


def _is_full_projection(value):
    """multi_mode_dot(tensor, factors, ..., transpose=True) without skip"""
    if _call_name(value) != "multi_mode_dot" or len(value.args) < 2:
        return False
    kw = {k.arg: k.value for k in value.keywords}
    a0, a1 = value.args[0], value.args[1]
    return (isinstance(a0, ast.Name) and a0.id == "tensor" and isinstance(a1, ast.Name) and a1.id == "factors" and "skip" not in kw
            and isinstance(kw.get("transpose"), ast.Constant) and kw["transpose"].value is True)


def _is_mask_test(t):
    return isinstance(t, ast.Compare) and isinstance(t.left, ast.Name) and t.left.id == "mask" and len(t.ops) == 1 and isinstance(t.ops[0], ast.IsNot)


def _translate_stmt(st, tests=()):
    """-> list of hstmt literals for one statement of the loop body"""
    assigned = _targets(st) & set(HOOI_STATE)
    if isinstance(st, ast.Break):
        names = set().union(*[_names(t) for t in tests]) if tests else set()
        first = 0
        for t in tests:
            for c in ast.walk(t):
                if isinstance(c, ast.Compare) and isinstance(c.left, ast.Name) and c.left.id == "iteration" and len(c.ops) == 1 and isinstance(c.comparators[0], ast.Constant):
                    if isinstance(c.ops[0], ast.Gt):
                        first = max(first, int(c.comparators[0].value) + 1)
                    elif isinstance(c.ops[0], ast.GtE):
                        first = max(first, int(c.comparators[0].value))
                    else:
                        raise Untranslatable(f"line {st.lineno}: comparison on `iteration` guarding a break")
        return [f"(SBreakTest {C.nat(first)} {C.boolc('tol' in names)})"]
    if isinstance(st, ast.If):
        if _is_mask_test(st.test) and not any(isinstance(n, ast.Break) for n in ast.walk(st)):
            if not assigned:
                return ["SRecon"]
            if assigned == {"tensor"} and not st.orelse:
                return ["SImpute"]
            raise Untranslatable(f"line {st.lineno}: `if mask is not None` assigns {sorted(assigned)}")
        if assigned:
            raise Untranslatable(f"line {st.lineno}: conditional assignment of {sorted(assigned)}")
        out = []
        for s2 in st.body + st.orelse:
            out += [x for x in _translate_stmt(s2, tests + (st.test,)) if x.startswith("(SBreakTest")]
        return out
    if isinstance(st, ast.For):
        if any(isinstance(n, ast.Break) for n in ast.walk(st)):
            raise Untranslatable(f"line {st.lineno}: break inside an inner loop")
        if not assigned:
            return []
        # for index, mode in enumerate(modes): ... x, _, _ = svd_interface(...); factors[index] = x
        it_ok = _call_name(st.iter) == "enumerate" and len(st.iter.args) == 1 and isinstance(st.iter.args[0], ast.Name) and st.iter.args[0].id == "modes"
        idx = st.target.elts[0].id if isinstance(st.target, ast.Tuple) and isinstance(st.target.elts[0], ast.Name) else None
        svd_names = set()
        sub_assign = []
        for n in ast.walk(st):
            if isinstance(n, ast.Assign) and _call_name(n.value) == "svd_interface":
                t0 = n.targets[0]
                first_el = t0.elts[0] if isinstance(t0, (ast.Tuple, ast.List)) and t0.elts else None
                if isinstance(first_el, ast.Name):
                    svd_names.add(first_el.id)
                elif isinstance(first_el, ast.Subscript):
                    sub_assign.append((first_el, None))
            if isinstance(n, ast.Assign) and isinstance(n.targets[0], ast.Subscript):
                sub_assign.append((n.targets[0], n.value))
        ok = it_ok and idx is not None and assigned == {"factors"} and len(sub_assign) == 1
        if ok:
            tgt, val = sub_assign[0]
            ok = isinstance(tgt.value, ast.Name) and tgt.value.id == "factors" and isinstance(tgt.slice, ast.Name) and tgt.slice.id == idx \
                and (val is None or (isinstance(val, ast.Name) and val.id in svd_names))
        if not ok:
            raise Untranslatable(f"line {st.lineno}: inner loop assigning {sorted(assigned)} is not the factor sweep")
        return ["SSweep"]
    if isinstance(st, ast.Assign) and assigned:
        if assigned == {"core"} and len(st.targets) == 1 and isinstance(st.targets[0], ast.Name) and _is_full_projection(st.value):
            return ["SProject"]
        raise Untranslatable(f"line {st.lineno}: assignment of {sorted(assigned)} is not the full projection")
    if assigned:
        raise Untranslatable(f"line {st.lineno}: {type(st).__name__} assigns {sorted(assigned)}")
    return []


def extract_hooi_prog(repo):
    """-> Gallina literal of the hprog of the current partial_tucker / initialize_tucker source; raises Untranslatable"""
    tree = ast.parse(open(os.path.join(repo, "tensorly/decomposition/_tucker.py")).read())
    fns = {n.name: n for n in tree.body if isinstance(n, ast.FunctionDef)}
    pt, it = fns.get("partial_tucker"), fns.get("initialize_tucker")
    if pt is None or it is None:
        raise Untranslatable("partial_tucker / initialize_tucker not found")
    loops = [s for s in pt.body if isinstance(s, ast.For) and _call_name(s.iter) == "range" and any(isinstance(a, ast.Name) and a.id == "n_iter_max" for a in s.iter.args)]
    if len(loops) != 1 or not (isinstance(loops[0].target, ast.Name) and loops[0].target.id == "iteration"):
        raise Untranslatable("partial_tucker: the `for iteration in range(n_iter_max)` loop")
    k = pt.body.index(loops[0])
    # after the loop: only the return of (core, factors)
    for s in pt.body[k + 1:]:
        if isinstance(s, ast.Return):
            v = s.value.elts[0] if isinstance(s.value, ast.Tuple) and s.value.elts else s.value
            names = [e.id for e in v.elts if isinstance(e, ast.Name)] if isinstance(v, ast.Tuple) else []
            if names != ["core", "factors"]:
                raise Untranslatable("partial_tucker: does not return (core, factors)")
        elif _targets(s) & set(HOOI_STATE):
            raise Untranslatable(f"line {s.lineno}: state assigned after the loop")
    # before the loop: the state comes from initialize_tucker only (the mask conversion assigns `mask`, not the state)
    n_init = 0
    for s in pt.body[:k]:
        tg = _targets(s) & {"core", "factors"}
        if tg:
            if isinstance(s, ast.Assign) and _call_name(s.value) == "initialize_tucker":
                n_init += 1
            else:
                raise Untranslatable(f"line {s.lineno}: core / factors assigned before the loop other than by initialize_tucker")
    if n_init != 1:
        raise Untranslatable("partial_tucker: initialize_tucker call")
    body = []
    for s in loops[0].body:
        body += _translate_stmt(s)
    # initialize_tucker: the `init == "svd"` branch ends with the full projection
    init_proj = False
    for s in it.body:
        if isinstance(s, ast.If) and isinstance(s.test, ast.Compare) and isinstance(s.test.comparators[0], ast.Constant) and s.test.comparators[0].value == "svd":
            last = [x for x in s.body if _targets(x) & {"core", "factors"}]
            init_proj = bool(last) and isinstance(last[-1], ast.Assign) and _targets(last[-1]) & {"core", "factors"} == {"core"} and _is_full_projection(last[-1].value)
    # statements after the if/elif chain that touch the state (non_negative=True: abs) are outside this skeleton (partial_tucker passes non_negative=False)
    return f"(mkHprog {C.boolc(init_proj)} [{'; '.join(body)}])" if body else f"(mkHprog {C.boolc(init_proj)} (@nil hstmt))", body, init_proj



# ----------------------------------------------------------------------------- the assignments to the CP weights read off the source (ast)
# Every statement of a CP driver that assigns a weights-valued variable, as a list of wstmt (Model/StructureWeights.v).  FAIL CLOSED: an assignment
# to such a variable in a form the translator does not know raises Untranslatable (reported as a broken tie).
def _nf_guarded(tests):
    for t in tests:
        parts = t.values if isinstance(t, ast.BoolOp) and isinstance(t.op, ast.And) else [t]
        for q in parts:
            if isinstance(q, ast.Name) and q.id == "normalize_factors":
                return True
            if isinstance(q, ast.Compare) and isinstance(q.left, ast.Name) and q.left.id == "normalize_factors" and len(q.ops) == 1 \
                    and isinstance(q.ops[0], ast.Is) and isinstance(q.comparators[0], ast.Constant) and q.comparators[0].value is True:
                return True
    return False


def _walk_with_tests(node, tests=()):
    """(statement, enclosing positive if-tests) for every Assign at or below node; the else-branch of an `if` does not inherit its test"""
    if isinstance(node, ast.Assign):
        yield node, tests
    elif isinstance(node, ast.If):
        for s_ in node.body:
            yield from _walk_with_tests(s_, tests + (node.test,))
        for s_ in node.orelse:
            yield from _walk_with_tests(s_, tests)
    elif isinstance(node, ast.Lambda) or (isinstance(node, ast.FunctionDef) and tests is None):
        return
    else:
        for child in ast.iter_child_nodes(node):
            if isinstance(child, (ast.FunctionDef, ast.Lambda)):
                continue
            yield from _walk_with_tests(child, tests)


def extract_weights_prog(repo, path, func):
    tree = ast.parse(open(os.path.join(repo, path)).read())
    fn = next((n for n in tree.body if isinstance(n, ast.FunctionDef) and n.name == func), None)
    if fn is None:
        raise Untranslatable(f"{func} not found")
    wvars = ["weights"]                                  # variable 0 is `weights`
    stmts = []
    assigns = list(_walk_with_tests(fn))

    def name_of(e):
        if isinstance(e, ast.Name):
            return e.id
        if isinstance(e, ast.Call) and _call_name(e) == "copy" and len(e.args) == 1 and isinstance(e.args[0], ast.Name):
            return e.args[0].id
        return None

    def translate(target, value, tests, lineno):
        """target: a Name; value: the expression assigned to it (None = an element of an unpacked call result)"""
        if value is None:
            raise Untranslatable(f"line {lineno}: `{target}` assigned from an unpacked value")
        src = name_of(value)
        if src is not None:
            if src in wvars:
                return ("assign", target, ("var", src))
            return None                                   # not weights-valued
        if isinstance(value, ast.BinOp) and isinstance(value.op, ast.Add) and isinstance(value.left, ast.Name) and isinstance(value.right, ast.BinOp) \
                and isinstance(value.right.op, ast.Mult) and isinstance(value.right.left, ast.BinOp) and isinstance(value.right.left.op, ast.Sub) \
                and isinstance(value.right.left.left, ast.Name) and isinstance(value.right.left.right, ast.Name) \
                and value.right.left.right.id == value.left.id and value.left.id in wvars and value.right.left.left.id in wvars:
            return ("assign", target, ("affine", value.left.id, value.right.left.left.id))
        if _call_name(value) == "ones":
            return ("assign", target, ("ones",)) if target in wvars else None
        if target in wvars:
            raise Untranslatable(f"line {lineno}: `{target}` assigned from an expression that is neither a copy, the extrapolation a + (b - a) * j, nor ones")
        return None

    changed = True
    while changed:                                        # the set of weights-valued variables is a fixpoint
        changed = False
        stmts = []
        for st, tests in assigns:
            tg, val = st.targets[0], st.value
            pairs = []
            if isinstance(tg, ast.Tuple):
                if isinstance(val, ast.Tuple) and len(val.elts) == len(tg.elts):
                    pairs = [(t, v) for t, v in zip(tg.elts, val.elts) if isinstance(t, ast.Name)]
                elif any(isinstance(t, ast.Name) and t.id in wvars for t in tg.elts):
                    cn = _call_name(val)
                    if cn == "cp_normalize" and isinstance(tg.elts[0], ast.Name) and tg.elts[0].id == "weights":
                        stmts.append(("normalize", _nf_guarded(tests)))
                        continue
                    if cn == "initialize_cp" and isinstance(tg.elts[0], ast.Name) and tg.elts[0].id == "weights":
                        continue                          # the initial state (weights all ones: C08_init_user_weights_absorbed + predicate)
                    raise Untranslatable(f"line {st.lineno}: weights unpacked from {cn or 'an expression'}")
            elif isinstance(tg, ast.Name):
                pairs = [(tg, val)]
            elif isinstance(tg, ast.Subscript) and isinstance(tg.value, ast.Name) and tg.value.id in wvars:
                raise Untranslatable(f"line {st.lineno}: element assignment into `{tg.value.id}`")
            for t, v in pairs:
                r = translate(t.id, v, tests, st.lineno)
                if r is not None:
                    if t.id not in wvars:
                        wvars.append(t.id); changed = True
                    stmts.append(r)
        # augmented assignments to a weights variable are not translatable
        for n in ast.walk(fn):
            if isinstance(n, ast.AugAssign) and isinstance(n.target, ast.Name) and n.target.id in wvars:
                raise Untranslatable(f"line {n.lineno}: augmented assignment to `{n.target.id}`")
    ix = {v: k for k, v in enumerate(wvars)}

    def lit(sx):
        if sx[0] == "normalize":
            return f"(WNormalize {C.boolc(sx[1])})"
        _, tgt, e = sx
        el = f"(WVar {C.nat(ix[e[1]])})" if e[0] == "var" else f"(WAffine {C.nat(ix[e[1]])} {C.nat(ix[e[2]])})" if e[0] == "affine" else "WOnes"
        return f"(WAssign {C.nat(ix[tgt])} {el})"
    lits = [lit(x) for x in stmts]
    return ("[" + "; ".join(lits) + "]") if lits else "(@nil wstmt)", wvars, lits



# ----------------------------------------------------------------------------- initialize_cp: paths to `return kt` (Model/StructureWeights.v istmt)
def extract_init_cp_paths(repo, path="tensorly/decomposition/_cp.py", func="initialize_cp", var="kt"):
    """every control-flow path of initialize_cp from the entry to a `return kt`, as the list of its statements assigning kt
    (IFresh / IUser / INormalize guarded / IFactors); fail closed: any other statement touching kt is Untranslatable"""
    tree = ast.parse(open(os.path.join(repo, path)).read())
    fn = next((n for n in tree.body if isinstance(n, ast.FunctionDef) and n.name == func), None)
    if fn is None:
        raise Untranslatable(f"{func} not found")

    def mentions_store(node):
        """does the statement (re)bind kt or write into it?"""
        for n in ast.walk(node):
            if isinstance(n, ast.Name) and n.id == var and isinstance(n.ctx, (ast.Store, ast.Del)):
                return True
            if isinstance(n, ast.Attribute) and isinstance(n.value, ast.Name) and n.value.id == var and isinstance(n.ctx, (ast.Store, ast.Del)):
                return True
            if isinstance(n, ast.Subscript) and isinstance(n.value, ast.Name) and n.value.id == var and isinstance(n.ctx, (ast.Store, ast.Del)):
                return True
        return False

    def classify(st, guarded):
        if not mentions_store(st):
            return None
        if isinstance(st, ast.Assign) and len(st.targets) == 1:
            tg, val = st.targets[0], st.value
            if isinstance(tg, ast.Name) and tg.id == var and isinstance(val, ast.Call):
                cn = _call_name(val)
                if cn == "random_cp":
                    kws = {k.arg: k.value for k in val.keywords}
                    nz = kws.get("normalise_factors")
                    if isinstance(nz, ast.Constant) and nz.value is False:
                        return "IFresh"
                    raise Untranslatable(f"line {st.lineno}: random_cp without normalise_factors=False")
                if cn == "CPTensor" and len(val.args) == 1:
                    a = val.args[0]
                    if isinstance(a, ast.Tuple) and len(a.elts) == 2 and isinstance(a.elts[0], ast.Constant) and a.elts[0].value is None:
                        return "IFresh"
                    if isinstance(a, ast.Name) and a.id != var:
                        return "IUser"
                if cn == "cp_normalize" and len(val.args) == 1 and isinstance(val.args[0], ast.Name) and val.args[0].id == var:
                    return f"(INormalize {C.boolc(guarded)})"
            if isinstance(tg, ast.Attribute) and isinstance(tg.value, ast.Name) and tg.value.id == var and tg.attr == "factors":
                return "IFactors"
        raise Untranslatable(f"line {st.lineno}: `{var}` is assigned in a form the translator does not know")

    paths = []

    def walk(stmts, prefix, guarded):
        """returns the list of prefixes that fall through the end of stmts; completed paths go to `paths`"""
        live = [prefix]
        for st in stmts:
            if not live:
                break
            if isinstance(st, ast.Return):
                if not (isinstance(st.value, ast.Name) and st.value.id == var):
                    raise Untranslatable(f"line {st.lineno}: returns something else than `{var}`")
                paths.extend(live)
                return []
            if isinstance(st, ast.Raise):
                return []
            if isinstance(st, ast.If):
                g = guarded or _nf_guarded((st.test,))
                nxt = []
                for pre in live:
                    nxt += walk(st.body, pre, g)
                    nxt += walk(st.orelse, pre, guarded)
                live = nxt
                continue
            if isinstance(st, ast.Try):
                for h in st.handlers:
                    if any(mentions_store(x) for x in h.body) or not any(isinstance(x, ast.Raise) for x in h.body):
                        raise Untranslatable(f"line {h.lineno}: an exception handler that continues or assigns `{var}`")
                nxt = []
                for pre in live:
                    nxt += walk(st.body + st.orelse + st.finalbody, pre, guarded)
                live = nxt
                continue
            if isinstance(st, (ast.For, ast.While, ast.With)):
                if mentions_store(st):
                    raise Untranslatable(f"line {st.lineno}: `{var}` is assigned inside a loop / with block")
                continue
            c = classify(st, guarded)
            if c is not None:
                live = [pre + [c] for pre in live]
        return live

    rest = walk(fn.body, [], False)
    if rest:
        raise Untranslatable(f"{func}: a path falls off the end of the function without `return {var}`")
    if not paths:
        raise Untranslatable(f"{func}: no path returns `{var}`")
    uniq = []
    for p_ in paths:
        if p_ not in uniq:
            uniq.append(p_)
    lit = "[" + "; ".join(("[" + "; ".join(p_) + "]") if p_ else "(@nil istmt)" for p_ in uniq) + "]"
    return lit, uniq


# ----------------------------------------------------------------------------- observing the implementation
def shp(a):
    return tuple(int(x) for x in np.shape(a))


def data_tensor(shape, seed, positive=False, kind="normal"):
    r = np.random.RandomState(seed)
    if kind == "zero":
        return np.zeros(shape)
    if kind == "lowrank":            # exactly rank one (degenerate singular values in every unfolding), integer entries
        x = np.ones(shape)
        for k, d in enumerate(shape):
            v = r.randint(1, 4, size=d).astype(float)
            x = x * v.reshape([-1 if j == k else 1 for j in range(len(shape))])
        return x
    if kind in ("complex", "complex64"):
        x = r.standard_normal(shape) + 1j * r.standard_normal(shape)
        return x.astype(np.complex64) if kind == "complex64" else x
    x = r.random_sample(shape) + 0.1 if positive else r.standard_normal(shape)
    return x


def obs_validator(kind, shape, spec, **kw):
    import tensorly as tl
    from tensorly import cp_tensor, tucker_tensor, tt_tensor, tr_tensor, tt_matrix
    if kind == "VCp":
        r = cp_tensor.validate_cp_rank(tuple(shape), spec, **kw)
        return [[int(r)]]
    if kind == "VTucker":
        return [[int(x) for x in tucker_tensor.validate_tucker_rank(tuple(shape), spec, **kw)]]
    if kind == "VTt":
        return [[int(x) for x in tt_tensor.validate_tt_rank(tuple(shape), spec, **kw)]]
    if kind == "VTr":
        return [[int(x) for x in tr_tensor.validate_tr_rank(tuple(shape), spec, **kw)]]
    if kind == "VTtm":
        return [[int(x) for x in tt_matrix.validate_tt_matrix_rank(tuple(shape), spec)]]
    raise KeyError(kind)


def run_decomp(kind, shape, spec, seed, _spy=None, **kw):
    """returns (list of shapes observed, returned object); _spy: an SvdSpy entered around tensor_train / tensor_ring / tensor_train_matrix"""
    import contextlib
    _ctx = _spy if _spy is not None else contextlib.nullcontext()
    import tensorly as tl
    from tensorly import decomposition as D
    from tensorly.decomposition._cmtf_als import coupled_matrix_tensor_3d_factorization
    spec = list(spec) if isinstance(spec, tuple) else spec
    if kind == "DParafac2":
        r = np.random.RandomState(seed)
        slices = [r.standard_normal(s) for s in shape]
        out = D.parafac2(slices, spec, n_iter_max=kw.get("n_iter_max", 2), random_state=seed, init=kw.get("init", "random"), n_iter_parafac=2)
        w, (A, B, Cm), P = out
        return [shp(w), shp(A), shp(B), shp(Cm)] + [shp(p) for p in P], out
    if kind == "DCmtf":
        shape3, m = shape
        X = data_tensor(shape3, seed); Y = data_tensor((shape3[0], m), seed + 1)
        if kw.get("loop"):
            # round 8: iteration cap x tol x init x normalize_factors, the lstsq calls logged by _spy; the error list gives the number of sweeps
            with _ctx:
                out = coupled_matrix_tensor_3d_factorization(X, Y, spec, n_iter_max=kw.get("n_iter_max", 2), tol=kw.get("tol", 1e-6), init=kw.get("init", "svd"),
                                                             normalize_factors=kw.get("normalize_factors", False))
            if _spy is not None:
                _spy.sweeps = len(out[2])
        else:
            out = coupled_matrix_tensor_3d_factorization(X, Y, spec, n_iter_max=kw.get("n_iter_max", 2))
        t, mp, _ = out
        return [shp(t.weights)] + [shp(f) for f in t.factors] + [shp(mp.weights)] + [shp(f) for f in mp.factors], out
    X = data_tensor(shape, seed, positive=kw.get("positive", False), kind=kw.get("data", "normal"))
    if kind == "DTt":
        with _ctx:
            out = D.tensor_train(X, spec, svd=kw.get("svd", "truncated_svd"))
        return [shp(f) for f in out.factors] + [tuple(out.shape), tuple(int(r) for r in out.rank)], out
    if kind == "DTtm":
        with _ctx:
            out = D.tensor_train_matrix(X, spec)
        return [shp(f) for f in out.factors], out
    if kind == "DTr":
        with _ctx:
            out = D.tensor_ring(X, spec, mode=kw.get("mode", 0), svd=kw.get("svd", "truncated_svd"))
        return [shp(f) for f in out.factors] + [tuple(out.shape), tuple(int(r) for r in out.rank)], out
    if kind == "DTrAls":
        if kw.get("driver") == "sampled":        # tensor_ring_als_sampled: same validator, same ring of cores (Model: tensor_ring_als)
            out = D.tensor_ring_als_sampled(X, spec, kw.get("n_samples", 8), n_iter_max=kw.get("n_iter_max", 1), random_state=seed,
                                            uniform_sampling=kw.get("uniform", False))
        elif kw.get("loop"):
            # round 8: iteration cap x tol x callback (stops after sweep cb_stop; 99 = present, never stops) x solver, the lstsq / solve calls logged by _spy
            answers, cb = [], None
            if kw.get("cb_stop") is not None:
                def cb(tr_, err_, _a=answers, _k=kw["cb_stop"]):
                    _a.append(len(_a) - 1 >= _k)          # invocation 0 precedes the loop (its answer is not used by the driver)
                    return _a[-1]
            if _spy is not None:
                _spy.answers = answers
            with _ctx:
                out = D.tensor_ring_als(X, spec, n_iter_max=kw.get("n_iter_max", 1), tol=kw.get("tol", 1e-6), random_state=seed,
                                        ls_solve=kw.get("ls_solve", "lstsq"), callback=cb)
        else:
            out = D.tensor_ring_als(X, spec, n_iter_max=kw.get("n_iter_max", 1), random_state=seed, ls_solve=kw.get("ls_solve", "lstsq"))
        return [shp(f) for f in out.factors] + [tuple(out.shape), tuple(int(r) for r in out.rank)], out
    if kind == "DTucker":
        out = D.tucker(X, spec, n_iter_max=kw.get("n_iter_max", 2), init=kw.get("init", "svd"), random_state=seed, tol=kw.get("tol", 1e-5), svd=kw.get("svd", "truncated_svd"))
        core, factors = out
        return [shp(core)] + [shp(f) for f in factors], out
    if kind == "DCp":
        drv = kw.get("driver", "parafac")
        if drv == "randomised_parafac":          # sampled ALS: same validator and the same CP shapes (Model: parafac)
            out = D.randomised_parafac(np.abs(X) + 0.1, spec, kw.get("n_samples", 12), n_iter_max=kw.get("n_iter_max", 1), init=kw.get("init", "random"), random_state=seed)
        elif drv == "constrained_parafac":       # AO-ADMM with a non-negativity constraint
            out = D.constrained_parafac(np.abs(X) + 0.1, spec, n_iter_max=kw.get("n_iter_max", 1), n_iter_max_inner=2, init=kw.get("init", "random"),
                                        non_negative=True, random_state=seed)
        else:
            fn = {"parafac": D.parafac, "non_negative_parafac": D.non_negative_parafac, "non_negative_parafac_hals": D.non_negative_parafac_hals}[drv]
            out = fn(np.abs(X) + 0.1, spec, n_iter_max=kw.get("n_iter_max", 1), init=kw.get("init", "random"), random_state=seed)
        return [shp(out.weights)] + [shp(f) for f in out.factors], out
    raise KeyError(kind)


class TrAlsSpy:
    """harness-level interposition: the name `tl` bound inside tensorly.decomposition._tr_als is replaced for one call by a proxy that forwards every
    attribute and logs the argument shapes of the lstsq / solve calls (the least-squares sub-problems of the ALS sweeps)"""

    def __init__(self, module="tensorly.decomposition._tr_als"):
        self.log, self.answers, self.module, self.sweeps = [], [], module, None

    def __enter__(self):
        import importlib
        self.mod = importlib.import_module(self.module)
        self.real = self.mod.tl
        spy = self

        class Proxy:
            def __getattr__(self_, name):
                v = getattr(spy.real, name)
                if name in ("lstsq", "solve"):
                    def wrapped(a, b, *args, **kw):
                        spy.log.append((name, shp(a), shp(b)))
                        return v(a, b, *args, **kw)
                    return wrapped
                return v
        self.mod.tl = Proxy()
        return self

    def __exit__(self, *exc):
        self.mod.tl = self.real
        return False


def tr_als_loop_cases(tier, rng):
    """tensor_ring_als on every stopping path: shape x rank spec (int, closed lists, an OPEN list: rejected, 'same', fraction) x iteration cap x tol x callback x solver"""
    quick = tier == "quick"
    low = list(grid_shapes([2, 3], [1, 2, 3]))
    shapes = (rng.sample(low, 12) if quick else low) + [tuple(rng.choice([1, 2, 3, 4]) for _ in range(o)) for o in (4, 4, 5) for _ in range(3 if quick else 6)]
    for s in shapes:
        n = len(s)
        if prod(s) > 200:
            continue
        specs = [1, 2, 3, "same", 0.5, (2,) + (1,) * (n - 1) + (2,), (1,) + (2,) * (n - 1) + (1,),
                 tuple([3] + [rng.choice([1, 2, 3]) for _ in range(n - 1)] + [3]), (1,) + (2,) * (n - 1) + (2,)]
        varied = tuple([3] + [rng.choice([1, 2, 3]) for _ in range(n - 1)] + [3])
        for sp in ((rng.sample(specs, 2) + [varied] if n >= 4 else rng.sample(specs, 3)) if quick else specs + [varied]):
            for _ in range(1 if quick else 2):
                yield dict(kind="DTrAls", shape=s, spec=sp,
                           kw=dict(loop=True, n_iter_max=rng.choice([0, 1, 2, 3, 5]), tol=rng.choice([0, 1e10, 1e-3, 1e-6]),
                                   cb_stop=rng.choice([None, None, 0, 1, 2, 99]), ls_solve=rng.choice(["lstsq", "lstsq", "normal_eq"])))


def cmtf_loop_cases(tier, rng):
    """coupled_matrix_tensor_3d_factorization with at least one sweep: shape x matrix width x rank spec x iteration cap x tol x init x normalize_factors"""
    quick = tier == "quick"
    shapes = list(grid_shapes([3], [2, 3])) + [tuple(rng.choice([1, 2, 3, 4, 5]) for _ in range(3)) for _ in range(4 if quick else 16)]
    for s3 in (rng.sample(shapes, 8) if quick else shapes):
        for _ in range(2 if quick else 6):
            yield dict(kind="DCmtf", shape=(s3, rng.choice([1, 2, 3, 5])), spec=rng.choice([1, 2, 3, "same", 0.5]),
                       kw=dict(loop=True, n_iter_max=rng.choice([1, 2, 3, 6]), tol=rng.choice([1e-6, 1e10, 0]), init=rng.choice(["svd", "random"]),
                               normalize_factors=rng.random() < 0.4))


def cmtf_loop_lit(cid, case, st, shapes, spy):
    """(Gallina case, what was observable) for one run of CMTF against Model/StructureCmtf.v cmtf_run / cmtf_sweep"""
    (s3, m), spec, kw = case["shape"], case["spec"], case["kw"]
    decisions, with_log, obs = [], False, None
    if st == "ok":
        k_ = spy.sweeps or 0
        decisions = [(i == k_ - 1) and k_ < kw["n_iter_max"] for i in range(k_)]
        first = spy.log[:4]
        with_log = k_ >= 1 and len(spy.log) == 4 * k_ and all(e[0] == "lstsq" for e in first)
        obs = [tuple(x) for x in shapes]
        if with_log:
            for _, a, b in first:
                obs += [a, b]
    dl = "[" + "; ".join(C.boolc(b) for b in decisions) + "]"
    lit = (f"({cid}%N, (DCmtfLoop {C.nat_list(list(s3))} {C.nat(m)} {spec_lit(spec)} {C.nat(kw['n_iter_max'])} {dl} {C.boolc(with_log)}), {shapes_lit(st, obs)})")
    return lit, ("rejected" if st != "ok" else "lstsq systems compared" if with_log else "solver calls not observable")


def tr_als_loop_lit(cid, case, st, shapes, spy):
    """(Gallina case, description of what was observable) for one run of tensor_ring_als against Model/StructureTrAls.v tr_als_run / tr_als_sweep_log"""
    s, spec, kw = case["shape"], case["spec"], case["kw"]
    n = len(s)
    sweeps, with_log, decisions, obs = None, False, [], None
    if st == "ok":
        if len(spy.log) % n == 0:
            sweeps = len(spy.log) // n
        cb_present = kw.get("cb_stop") is not None
        k_ = sweeps if sweeps is not None else (len(spy.answers) - 1 if cb_present else 0)
        ans = [bool(a) for a in spy.answers[1:]] if cb_present else [False] * max(k_, 0)
        for i in range(len(ans)):
            conv = (i == len(ans) - 1) and len(ans) < kw["n_iter_max"] and not ans[i]
            decisions.append((ans[i], conv))
        first = spy.log[:n]
        with_log = sweeps is not None and sweeps >= 1 and all(e[0] == "lstsq" for e in first)
        obs = [tuple(x) for x in shapes[:n]]
        if with_log:
            for _, a, b in first:
                obs += [a, b]
    dl = "[" + "; ".join(f"({C.boolc(a)}, {C.boolc(b)})" for a, b in decisions) + "]"
    lit = (f"({cid}%N, (DTrAlsLoop {C.nat_list(list(s))} {spec_lit(spec)} {C.boolc(kw['tol'] > 0)} {C.nat(kw['n_iter_max'])} {dl} {C.boolc(with_log)}), "
           f"{shapes_lit(st, obs)})")
    what = ("rejected" if st != "ok" else "no sweep" if kw["n_iter_max"] == 0 else "solver calls not observable" if not sweeps else
            ("lstsq systems compared" if with_log else "normal equations"))
    return lit, what


class SvdSpy:
    """harness-level interposition: svd_interface as bound inside tensorly.decomposition._tt / _tr_svd is replaced for one call by a wrapper that
    logs (n_row, n_column, n_eigenvecs) and keeps the outputs"""

    def __init__(self, module):
        self.modname = module

    def __enter__(self):
        import importlib
        self.M = importlib.import_module(self.modname)
        self.orig = self.M.svd_interface
        self.calls, self.outs = [], []
        me = self

        def svd(matrix, n_eigenvecs=None, **kw):
            r = me.orig(matrix, n_eigenvecs=n_eigenvecs, **kw)
            me.calls.append([int(matrix.shape[0]), int(matrix.shape[1]), int(n_eigenvecs)])
            me.outs.append(tuple(np.array(x, copy=True) for x in r))
            return r
        self.M.svd_interface = svd
        return self

    def __exit__(self, *a):
        self.M.svd_interface = self.orig
        return False


def svd_calls_lit(cid, case, c, spy, out):
    """Gallina case: the SVD calls of one tensor_train / tensor_ring / tensor_train_matrix run and the two observables
    (every core but the last is the reshaped U of its call; the last core is the reshaped S * V of the last call)"""
    kind, s, kw = case["kind"], case["shape"], case["kw"]
    fs = [np.asarray(f) for f in out.factors]
    n = len(fs)
    if kind == "DTr":
        m = kw.get("mode", 0)
        fs = [fs[(k + m) % n] for k in range(n)]                 # computation order
    f1 = len(spy.outs) == n - 1
    if f1:
        for k, (U, S_, V) in enumerate(spy.outs):
            f = fs[k]
            if kind == "DTr" and k == 0:
                got = np.transpose(f, (1, 0, 2)).reshape(f.shape[1], -1)
            else:
                got = f.reshape(-1, f.shape[-1])
            f1 = f1 and got.shape == U.shape and np.array_equal(got, U)
    f2 = False
    if spy.outs:
        U, S_, V = spy.outs[-1]
        W = S_.reshape(-1, 1) * V
        if kind == "DTr" and n == 2:                              # the unfolding after the first step is reshaped (r0, r1, -1) and transposed (1, 2, 0)
            r0, r1 = fs[0].shape[0], fs[0].shape[2]
            W = np.transpose(W.reshape(r0, r1, -1), (1, 2, 0))
        f2 = W.size == fs[-1].size and np.array_equal(W.reshape(fs[-1].shape), fs[-1])
    elif kind == "DTtm" and n == 1:
        f1 = f2 = True                                            # a single core: the matrix itself, no SVD
    op = {"DTt": f"(DTtCalls {C.nat_list(list(s))} {spec_lit(case['spec'])} {C.q(c)})",
          "DTr": f"(DTrCalls {C.nat_list(list(s))} {spec_lit(case['spec'])} {C.nat(kw.get('mode', 0))})",
          "DTtm": f"(DTtmCalls {C.nat_list(list(s))} {spec_lit(case['spec'])} {C.q(c)})"}[kind]
    exp = "(Ok [" + "; ".join(C.nat_list(x) for x in spy.calls + [[int(f1)], [int(f2)]]) + "])"
    return f"({cid}%N, {op}, {exp})", (f1, f2)


# ----------------------------------------------------------------------------- case generation (correspondence)
def grid_shapes(orders, dims):
    for o in orders:
        for s in itertools.product(dims, repeat=o):
            yield tuple(s)


def tt_rank_lists(n, rng, k=3):
    """valid and invalid rank lists for an order-n TT"""
    out = []
    for _ in range(k):
        out.append([1] + [rng.choice([1, 2, 3, 4, 7]) for _ in range(n - 1)] + [1])
    out.append([1] * n)                                  # wrong length
    out.append([2] + [2] * (n - 1) + [1])                # wrong first boundary
    out.append([1] + [2] * (n - 1) + [3])                # wrong last boundary
    return out


def tr_rank_lists(n, rng, k=3):
    out = []
    for _ in range(k):
        r0 = rng.choice([1, 1, 2, 3])
        out.append([r0] + [rng.choice([1, 2, 3, 4]) for _ in range(n - 1)] + [r0])
    out.append([1] * n)
    out.append([1] + [2] * (n - 1) + [2])
    return out


FRACS_Q = ["same", 0.5, 0.25, 1.5]
FRACS_T = ["same", 0.5, 0.25, 0.125, 0.75, 1.5, 2.0, 0.0625, 3.0]


def gen_cases(tier, rng):
    """yields dict(kind, shape, spec, kw, oracle) ; every shape entry >= 1"""
    quick = tier == "quick"
    fracs = FRACS_Q if quick else FRACS_T
    dimsA = [1, 2, 3, 5] if quick else [1, 2, 3, 4, 5, 7]
    vshapes = list(grid_shapes([1, 2], dimsA)) + rng.sample(list(grid_shapes([3], dimsA)), 24 if quick else 55) + [capped_shape(rng, o, [1, 2, 3, 4, 6, 9], 4000) for o in (4, 4, 5, 5, 6) for _ in range(3 if quick else 10)]
    # ---- validators
    for s in vshapes:
        n = len(s)
        for rd in ROUNDINGS:
            # round 8 (thorough CPU budget): every fraction only for rounding='round'; floor / ceil get a sample (quick: 2, thorough: 4 fractions)
            for f in (fracs if rd == "round" else rng.sample(fracs, 2 if quick else 4)):
                yield dict(kind="VCp", shape=s, spec=f, kw=dict(rounding=rd))
                yield dict(kind="VTr", shape=s, spec=f, kw=dict(rounding=rd))
                yield dict(kind="VTucker", shape=s, spec=f, kw=dict(rounding=rd))
                combos = [(False, True), (False, False), (True, True), (True, False)]
                if rd != "round":
                    combos = combos[:1] if quick else [combos[0]] + rng.sample(combos[1:], 1)
                for const, ao in combos:
                    yield dict(kind="VTt", shape=s, spec=f, kw=dict(rounding=rd, constant_rank=const, allow_overparametrization=ao))
        for r in (1, 3):
            yield dict(kind="VCp", shape=s, spec=r, kw=dict(rounding="round"))
            yield dict(kind="VTucker", shape=s, spec=r, kw=dict(rounding="round"))
            yield dict(kind="VTr", shape=s, spec=r, kw=dict(rounding="round"))
            for ao in (True, False):
                yield dict(kind="VTt", shape=s, spec=r, kw=dict(rounding="round", constant_rank=False, allow_overparametrization=ao))
        for k_l, l in enumerate(tt_rank_lists(n, rng, 2)):
            for ao in ((True,) if quick and k_l >= 2 else (True, False)):          # (the invalid lists are rejected before the clipping)
                yield dict(kind="VTt", shape=s, spec=tuple(l), kw=dict(rounding="round", constant_rank=False, allow_overparametrization=ao))
        for l in tr_rank_lists(n, rng, 2):
            yield dict(kind="VTr", shape=s, spec=tuple(l), kw=dict(rounding="round"))
        yield dict(kind="VTucker", shape=s, spec=tuple(rng.choice([1, 2, 4]) for _ in range(n)), kw=dict(rounding="round"))
        if n % 2 == 0 or rng.random() < 0.3:
            for f in (["same", 0.5, 2] if quick else fracs + [2, 3]):
                yield dict(kind="VTtm", shape=s, spec=f, kw={})
    # ---- decompositions
    dshapes = list(grid_shapes([2, 3], [1, 2, 3] if quick else [1, 2, 3, 4])) + \
        [tuple(rng.choice([1, 2, 3, 4]) for _ in range(o)) for o in (4, 4, 4, 5) for _ in range(4 if quick else 8)]
    for s in dshapes:
        n = len(s)
        ints = [1, 2, 5] if quick else [1, 2, 3, 5, 9]
        tt_specs = ints + ["same", 0.5] + [tuple(l) for l in tt_rank_lists(n, rng, 2 if quick else 4)]
        for sp in tt_specs:
            yield dict(kind="DTt", shape=s, spec=sp, kw={})
        tr_specs = [1, 2] + ["same", 0.5] + [tuple(l) for l in tr_rank_lists(n, rng, 3 if quick else 6)]
        for sp in tr_specs:
            for mode in (range(n) if (n <= 2 or not quick) else sorted(rng.sample(range(n), 2))):      # quick: two start modes per spec for order >= 3
                yield dict(kind="DTr", shape=s, spec=sp, kw=dict(mode=mode))
        tk_specs = ints + ["same", 0.5] + [tuple(rng.choice([1, 2, 3, 6]) for _ in range(n)) for _ in range(2)]
        for sp in tk_specs:
            for init, nit in (("svd", 0), ("svd", 2), ("random", 1)) + ((("random", 0),) if not quick else ()):
                if quick and n >= 3 and rng.random() < 0.4:
                    continue
                yield dict(kind="DTucker", shape=s, spec=sp, kw=dict(init=init, n_iter_max=nit))
        for data in ("lowrank", "zero", "complex", "complex64"):
            if quick and rng.random() < 0.5:
                continue
            yield dict(kind="DTt", shape=s, spec=rng.choice([1, 2, 3]), kw=dict(data=data))
            yield dict(kind="DTr", shape=s, spec=1, kw=dict(mode=rng.randrange(n), data=data))
            yield dict(kind="DTucker", shape=s, spec=rng.choice([1, 2, 3]), kw=dict(init="svd", n_iter_max=2, data=data))
        # the other SVD methods (Gram-matrix eigh, randomized range finder) on full-rank real and complex data; n_iter_max = 0: the factors are theirs
        for data in ("normal", "complex"):
            for svd in ("symeig_svd", "randomized_svd"):
                if rng.random() < (0.8 if quick else 0.2):
                    continue
                yield dict(kind="DTt", shape=s, spec=rng.choice([1, 2, 3]), kw=dict(data=data, svd=svd))
                yield dict(kind="DTr", shape=s, spec=1, kw=dict(mode=rng.randrange(n), data=data, svd=svd))
                yield dict(kind="DTucker", shape=s, spec=rng.choice([1, 2, 3]), kw=dict(init="svd", n_iter_max=rng.choice([0, 0, 2]), data=data, svd=svd))
        yield dict(kind="DTucker", shape=s, spec=rng.choice([1, 2, 3]), kw=dict(init=rng.choice(["svd", "random"]), n_iter_max=6, tol=1e10))
        yield dict(kind="DTucker", shape=s, spec=rng.choice([1, 2, 3, 5]), kw=dict(init=rng.choice(["svd", "random"]), n_iter_max=rng.choice([0, 1, 2]), tol=0, data="complex"))
        if n >= 3 or not quick:
            for sp in [1, 2, 4, "same", 0.5]:
                for fn in ("parafac", "non_negative_parafac", "non_negative_parafac_hals"):
                    if fn == "non_negative_parafac_hals" and not isinstance(sp, int):
                        continue      # this driver does not validate its rank argument
                    for init in ("random", "svd"):
                        if quick and init == "svd" and fn != "parafac":
                            continue
                        yield dict(kind="DCp", shape=s, spec=sp, kw=dict(driver=fn, init=init, n_iter_max=1))
        if prod(s) <= 200:
            for sp in [1, 2, (1,) + (2,) * (n - 1) + (1,), (2,) + (1,) * (n - 1) + (2,)]:
                yield dict(kind="DTrAls", shape=s, spec=sp, kw=dict(n_iter_max=1))
            # round 7: the normal-equations solver, the sampled variant (order >= 3: it samples from the n - 1 other cores), 0 sweeps, fractions
            yield dict(kind="DTrAls", shape=s, spec=rng.choice([1, 2, "same", 0.5]), kw=dict(n_iter_max=rng.choice([0, 1, 2]), ls_solve="normal_eq"))
            if n >= 3:
                for sp in ([2, (2,) + (1,) * (n - 1) + (2,)] if quick else [1, 2, "same", (1,) + (2,) * (n - 1) + (1,), (2,) + (1,) * (n - 1) + (2,)]):
                    yield dict(kind="DTrAls", shape=s, spec=sp, kw=dict(driver="sampled", n_iter_max=rng.choice([0, 1, 2]), n_samples=rng.choice([3, 8]),
                                                                         uniform=rng.random() < 0.3))
        # round 7: the other CP drivers that validate their rank with validate_cp_rank (sampled ALS, AO-ADMM)
        if n >= 3 or not quick:
            for drv in ("randomised_parafac", "constrained_parafac"):
                for sp in ([2, "same"] if quick else [1, 2, 4, "same", 0.5]):
                    yield dict(kind="DCp", shape=s, spec=sp, kw=dict(driver=drv, init=rng.choice(["random", "svd"]), n_iter_max=rng.choice([0, 1, 2])))
    ttm_shapes = list(grid_shapes([2], [1, 2, 3])) + rng.sample(list(grid_shapes([4], [1, 2, 3])), 40) if quick else \
        itertools.chain(grid_shapes([2, 4], [1, 2, 3]), grid_shapes([6], [1, 2]))
    for s in ttm_shapes:
        for sp in [1, 2, 4, "same", 0.5] + [tuple(l) for l in tt_rank_lists(len(s) // 2, rng, 2)]:
            yield dict(kind="DTtm", shape=s, spec=sp, kw={})
    yield dict(kind="DTtm", shape=(2, 3, 2), spec=2, kw={})
    for s4 in ((2, 3, 3, 2), (2, 2, 2, 2)):
        yield dict(kind="DTtm", shape=s4, spec=2, kw=dict(data="complex"))
    for _ in range(12 if quick else 80):
        I = rng.choice([1, 2, 3]); K = rng.choice([2, 3, 4])
        sl = tuple((rng.choice([2, 3, 4, 5]), K) for _ in range(I))
        for r in (1, 2, K, K + 1):
            if all(j >= r for j, _ in sl) or r == K + 1:
                yield dict(kind="DParafac2", shape=sl, spec=r, kw={})
    for s3 in grid_shapes([3], [2, 3]):
        for m in (1, 3):
            for sp in ([2, "same"] if quick else [1, 2, 3, "same", 0.5]):
                yield dict(kind="DCmtf", shape=(s3, m), spec=sp, kw={})


def prod(s):
    return int(np.prod(s)) if len(s) else 1


def capped_shape(rng, order, dims, cap):
    """random shape whose number of entries stays below cap (the model computes products in unary nat)"""
    while True:
        s = tuple(rng.choice(dims) for _ in range(order))
        if prod(s) <= cap:
            return s


def oracle_for(case):
    """returns (Fraction c | None, skip?) : the oracle answer the model needs, and whether the case sits on a rounding boundary"""
    kind, s, spec, kw = case["kind"], case["shape"], case["spec"], case["kw"]
    q = frac_of(spec)
    if q is None:
        return Fraction(0), False
    rd = kw.get("rounding", "round")
    if kind in ("VTucker", "DTucker"):
        c = tucker_root(tuple(s), q)
        return c, any(near_boundary(d * c, rd) for d in s)
    if kind in ("VTt", "DTt", "VTtm", "DTtm"):
        const = kw.get("constant_rank", False)
        shape = s
        if kind in ("VTtm", "DTtm"):
            n = len(s) // 2
            if 2 * n != len(s):
                return Fraction(0), False
            shape = tuple(a * b for a, b in zip(s[:n], s[n:]))
            if kind == "DTtm" and n == 1:
                return Fraction(0), False
        if len(shape) < 2 or (const and len(shape) < 3):
            return Fraction(0), False
        c = tt_root(tuple(shape), q, const)
        if c is None:
            return Fraction(0), True
        if const:
            return c, near_boundary(c, rd)
        av = [Fraction(shape[i] + shape[i + 1], 2) for i in range(len(shape) - 1)]
        return c, any(near_boundary(d * c, rd) for d in av)
    return Fraction(0), False


def op_lit(case, c):
    kind, s, spec, kw = case["kind"], case["shape"], case["spec"], case["kw"]
    sl, pl = C.nat_list(list(s)) if kind not in ("DParafac2", "DCmtf") else None, spec_lit(spec)
    rd = ROUNDINGS[kw.get("rounding", "round")]
    if kind == "VCp":
        return f"(VCp {sl} {pl} {rd})"
    if kind == "VTucker":
        return f"(VTucker {sl} {pl} {rd} {C.q(c)})"
    if kind == "VTt":
        return f"(VTt {sl} {pl} {C.boolc(kw['constant_rank'])} {rd} {C.boolc(kw['allow_overparametrization'])} {C.q(c)})"
    if kind == "VTr":
        return f"(VTr {sl} {pl} {rd})"
    if kind == "VTtm":
        return f"(VTtm {sl} {pl} {C.q(c)})"
    if kind == "DTt":
        return f"(DTt {sl} {pl} {C.q(c)})"
    if kind == "DTtm":
        return f"(DTtm {sl} {pl} {C.q(c)})"
    if kind == "DTr":
        return f"(DTr {sl} {pl} {C.nat(kw['mode'])})"
    if kind == "DTucker":
        return f"(DTucker {sl} {pl} {C.q(c)} {C.boolc(kw['init'] == 'random')} {C.nat(kw['n_iter_max'])})"
    if kind == "DCp":
        return f"(DCp {sl} {pl})"
    if kind == "DTrAls":
        return f"(DTrAls {sl} {pl})"
    if kind == "DParafac2":
        return "(DParafac2 [" + "; ".join(f"({a}%nat, {b}%nat)" for a, b in s) + f"] {C.nat(spec)})"
    if kind == "DCmtf":
        return f"(DCmtf {C.nat_list(list(s[0]))} {C.nat(s[1])} {pl})"
    raise KeyError(kind)


def zero_rank(case):
    """does the implementation's own validator turn the spec into a rank containing 0? (input filter only)"""
    from tensorly import cp_tensor, tucker_tensor, tt_tensor, tr_tensor, tt_matrix
    kind, s, spec = case["kind"], case["shape"], case["spec"]
    spec = list(spec) if isinstance(spec, tuple) else spec
    if isinstance(spec, int):
        return spec == 0
    try:
        import warnings
        with warnings.catch_warnings():
            warnings.simplefilter("ignore")
            if kind in ("DCp",):
                r = [cp_tensor.validate_cp_rank(tuple(s), spec)]
            elif kind == "DCmtf":
                r = [cp_tensor.validate_cp_rank(tuple(s[0]), spec)]
            elif kind == "DTucker":
                r = tucker_tensor.validate_tucker_rank(tuple(s), spec)
            elif kind == "DTt":
                r = tt_tensor.validate_tt_rank(tuple(s), spec)
            elif kind == "DTtm":
                r = tt_matrix.validate_tt_matrix_rank(tuple(s), spec)
            elif kind in ("DTr", "DTrAls"):
                r = tr_tensor.validate_tr_rank(tuple(s), spec)
            else:
                return False
        return any(int(x) == 0 for x in r)
    except Exception:
        return False


ENTRY = {"VCp": "tensorly.cp_tensor.validate_cp_rank", "VTucker": "tensorly.tucker_tensor.validate_tucker_rank",
         "VTt": "tensorly.tt_tensor.validate_tt_rank", "VTr": "tensorly.tr_tensor.validate_tr_rank",
         "VTtm": "tensorly.tt_matrix.validate_tt_matrix_rank", "DTt": "tensorly.decomposition.tensor_train",
         "DTtm": "tensorly.decomposition.tensor_train_matrix", "DTr": "tensorly.decomposition.tensor_ring",
         "DTucker": "tensorly.decomposition.tucker", "DCp": "tensorly.decomposition.parafac",
         "DParafac2": "tensorly.decomposition.parafac2", "DTrAls": "tensorly.decomposition.tensor_ring_als", "DTrAlsLoop": "tensorly.decomposition.tensor_ring_als", "DCmtfLoop": "tensorly.decomposition._cmtf_als.coupled_matrix_tensor_3d_factorization",
         "DCmtf": "tensorly.decomposition.coupled_matrix_tensor_3d_factorization",
         "VTuckerFm": "tensorly.tucker_tensor.validate_tucker_rank"}



# ----------------------------------------------------------------------------- validate_tucker_rank(fixed_modes=...)  (Model/StructureRanks.v)
def tucker_fm_root(shape, fm, q):
    """the root validate_tucker_rank asks brentq for when fixed_modes is given (the equation AS CODED: the fixed factors enter as size^2 * x),
    by exact bisection.  Returns (status, c, free sizes); status 'reject' when a pop fails or the bracket [0, max(q, 1)] has no sign change"""
    sh, fixed = list(shape), []
    for m in sorted(fm, reverse=True):
        if m >= len(sh):
            return "reject", Fraction(0), []
        fixed.append(sh.pop(m))
    P = Fraction(prod(shape)); n1 = len(shape) - len(fm)
    S = Fraction(sum(x * x for x in sh) + sum(x * x for x in fixed))
    f = lambda x: P * x ** n1 + S * x - q * P
    lo, hi = Fraction(0), max(q, Fraction(1))
    if f(lo) * f(hi) > 0:
        return "reject", Fraction(0), sh
    if f(lo) == 0:
        return "ok", lo, sh
    for _ in range(90):
        mid = (lo + hi) / 2
        if f(mid) <= 0:
            lo = mid
        else:
            hi = mid
    return "ok", lo, sh


def vfm_cases(tier, rng):
    """shape x rank spec x rounding x fixed_modes (None, [], one, several in any order, all, duplicated, out of range)"""
    quick = tier == "quick"
    shapes = list(grid_shapes([1, 2], [1, 2, 3, 5])) + rng.sample(list(grid_shapes([3], [1, 2, 3, 5, 8])), 14 if quick else 40) + \
        [capped_shape(rng, o, [1, 2, 3, 4, 6, 9, 12], 4000) for o in (4, 4, 5, 6) for _ in range(3 if quick else 8)]
    for s in shapes:
        n = len(s)
        fms = [None, [], [0], [n - 1], list(range(n)), list(range(n))[::-1]]
        for _ in range(2 if quick else 3):
            k = rng.randrange(1, n + 1)
            fm = rng.sample(range(n), k)
            fms.append(fm)
        if n >= 2:
            fms.append([0, 0]); fms.append([n - 1, 0, n - 1])
        fms.append([n]); fms.append([0, n + 1])
        for fm in fms:
            specs = [("same", "round"), (0.5, rng.choice(list(ROUNDINGS))), (rng.choice([0.25, 0.75, 1.5, 2.0]), rng.choice(list(ROUNDINGS))), (2, "round"),
                     (tuple(rng.choice([1, 2, 4]) for _ in range(n)), "round")]
            if quick:
                specs = specs[:1] + rng.sample(specs[1:], 2)
            for spec, rd in specs:
                yield dict(kind="VTuckerFm", shape=s, spec=spec, kw=dict(rounding=rd, fixed_modes=fm))


def run_vfm_case(case):
    from tensorly import tucker_tensor
    spec = case["spec"]
    spec = list(spec) if isinstance(spec, tuple) else spec
    fm = case["kw"]["fixed_modes"]
    r = tucker_tensor.validate_tucker_rank(tuple(case["shape"]), spec, rounding=case["kw"]["rounding"], fixed_modes=None if fm is None else list(fm))
    return [int(x) for x in r]


def pred_vfm(case, rank):
    """C08_validate_tucker_rank_fixed_modes: for distinct valid fixed modes an accepted int / fractional rank has one entry per mode, a fixed mode keeps the
    size of the tensor, every entry of a fractional rank is >= 1"""
    s, spec, fm = case["shape"], case["spec"], case["kw"]["fixed_modes"]
    if isinstance(spec, tuple) or fm is None or len(set(fm)) != len(fm) or any(m >= len(s) for m in fm):
        return None
    if len(rank) != len(s):
        return f"{len(s)} modes but {len(rank)} ranks", "C08_validate_tucker_rank_fixed_modes"
    for m in fm:
        if rank[m] != s[m]:
            return f"fixed mode {m}: rank {rank[m]}, size {s[m]}", "C08_validate_tucker_rank_fixed_modes"
    if not isinstance(spec, int) and any(r < 1 for r in rank):
        return f"rank {rank} has an entry below 1", "C08_validate_tucker_rank_fixed_modes"
    return None


def vfm_lit(cid, case, c, st, rank):
    fm = case["kw"]["fixed_modes"]
    fl = "None" if fm is None else f"(Some {C.nat_list(list(fm))})"
    return (f"({cid}%N, (VTuckerFm {C.nat_list(list(case['shape']))} {spec_lit(case['spec'])} {ROUNDINGS[case['kw']['rounding']]} {fl} {C.q(c)}), "
            f"{shapes_lit(st, [rank] if st == 'ok' else None)})")


# ----------------------------------------------------------------------------- property predicates (Python transcriptions)
TOL = 1e-8


def tol_for(x, base=TOL):
    """single precision data (float32 / complex64) cannot meet a 1e-8 residual"""
    return 2e-5 if np.asarray(x).dtype in (np.float32, np.complex64) else base


def orthonormal_cols(M, tol=TOL):
    M = np.asarray(M)
    G = M.conj().T @ M                 # M^H M (conjugate transpose: complex data)
    return float(np.max(np.abs(G - np.eye(G.shape[0])))) if G.size else 0.0


def expected_tr_ranks(shape, rank, mode):
    """transcription of Structure.tensor_ring_intended: requested ranks, rotated cyclically, clipped by the unfolding sizes"""
    n = len(shape)
    rank = list(rank)
    sh = list(shape[mode:]) + list(shape[:mode])
    rk = rank[mode:-1] + rank[:mode + 1]
    if rk[0] * rk[1] > min(sh[0], prod(sh[1:])):
        return None
    out = [rk[0], rk[1]]
    cur = rk[1]
    for k in range(1, n - 1):
        cur = min(cur * sh[k], prod(sh[k + 1:]) * rk[0], rk[k + 1])
        out.append(cur)
    out.append(rk[0])
    # rotate back: out[i] is the rank to the left of (rotated) core i
    ranks_left = out[:-1]
    back = ranks_left[n - mode:] + ranks_left[:n - mode] if mode else ranks_left
    return back + [back[0]]


def pred_structure(case, shapes, out):
    """structure predicates on one decomposition output; returns (message, predicate) or None"""
    import tensorly as tl
    kind, s, spec, kw = case["kind"], case["shape"], case["spec"], case["kw"]
    TOLX = 2e-5 if kw.get("data") == "complex64" else 1e-6 if kw.get("svd") == "symeig_svd" else TOL      # eigh of the Gram matrix squares the condition number
    if kind in ("DTt", "DTr", "DTrAls"):
        fs = out.factors
        n = len(s)
        if len(fs) != n:
            return f"{n} modes but {len(fs)} cores", "C08_core_count"
        for k, f in enumerate(fs):
            if f.ndim != 3 or f.shape[1] != s[k]:
                return f"core {k} has shape {f.shape}, mode size {s[k]}", "C08_mode_sizes"
            if f.shape[2] != fs[(k + 1) % n].shape[0] and (kind != "DTt" or k < n - 1):
                return f"ranks of cores {k},{k + 1} do not chain", "C08_rank_chain"
        if kind == "DTt" and (fs[0].shape[0] != 1 or fs[-1].shape[2] != 1):
            return "TT boundary ranks are not 1", "C08_tt_boundary"
        if kind != "DTt" and fs[0].shape[0] != fs[-1].shape[2]:
            return "TR first rank != last rank", "C08_tr_boundary"
        got = [f.shape[0] for f in fs] + [fs[-1].shape[2]]
        if kind == "DTt":
            import tensorly.tt_tensor as ttm
            req = ttm.validate_tt_rank(tuple(s), list(spec) if isinstance(spec, tuple) else spec)
            if any(g > r for g, r in zip(got, req)):
                return f"TT ranks {got} exceed the requested {list(req)}", "C08_tt_ranks_le"
            # achieved ranks follow the clipping recursion
            cur, exp = 1, [1]
            for k in range(n - 1):
                cur = min(cur * s[k], prod(s[k + 1:]), req[k + 1]); exp.append(cur)
            exp.append(1)
            if got != exp:
                return f"TT ranks {got}, expected {exp}", "C08_tt_ranks"
            for k, f in enumerate(fs[:-1]):
                e = orthonormal_cols(f.reshape(-1, f.shape[2]))
                if e > TOLX:
                    return f"TT core {k} not left-orthogonal (residual {e:.2e})", "C08_tt_left_orthogonal"
        if kind == "DTr":
            import tensorly.tr_tensor as trm
            req = trm.validate_tr_rank(tuple(s), list(spec) if isinstance(spec, tuple) else spec)
            exp = expected_tr_ranks(s, req, kw["mode"])
            if exp is not None and got != exp:
                return f"TR ranks {got}, requested {list(req)} (expected after clipping {exp}), mode={kw['mode']}", "C08_tr_ranks"
            m = kw["mode"]
            f0 = fs[m]   # first computed core: (r0, s, r1), U reshaped (s, r0, r1) then transposed
            e = orthonormal_cols(np.transpose(f0, (1, 0, 2)).reshape(f0.shape[1], -1))
            if e > TOLX:
                return f"TR first core not orthonormal (residual {e:.2e})", "C08_tr_first_orthonormal"
            for j in range(1, n - 1):
                f = fs[(m + j) % n]
                e = orthonormal_cols(f.reshape(-1, f.shape[2]))
                if e > TOLX:
                    return f"TR core {(m + j) % n} not left-orthogonal (residual {e:.2e})", "C08_tr_left_orthogonal"
        if kind == "DTrAls":
            import tensorly.tr_tensor as trm
            req = trm.validate_tr_rank(tuple(s), list(spec) if isinstance(spec, tuple) else spec)
            if got != list(req):
                return f"TR-ALS ranks {got}, requested {list(req)}", "C08_trals_ranks"
    if kind == "DTtm":
        fs = out.factors
        n = len(s) // 2
        if len(fs) != n:
            return f"{n} input/output pairs but {len(fs)} cores", "C08_core_count"
        for k, f in enumerate(fs):
            if f.ndim != 4 or f.shape[1] != s[k] or f.shape[2] != s[n + k]:
                return f"TT-matrix core {k} has shape {f.shape}, expected (r, {s[k]}, {s[n + k]}, r')", "C08_mode_sizes"
            if k + 1 < n and f.shape[3] != fs[k + 1].shape[0]:
                return f"ranks of TT-matrix cores {k},{k + 1} do not chain", "C08_rank_chain"
        if fs[0].shape[0] != 1 or fs[-1].shape[3] != 1:
            return "TT-matrix boundary ranks are not 1", "C08_tt_boundary"
    if kind == "DCmtf":
        t, mp, _ = out
        if t.factors[0].shape[0] != mp.factors[0].shape[0] or t.weights.shape != mp.weights.shape or \
                any(f.shape[1] != t.weights.shape[0] for f in list(t.factors) + list(mp.factors)):
            return "CMTF: tensor part and matrix part do not share the rank / first mode", "C08_cmtf_shapes"
        # the coupling: [[lambda; A, B, C]] and [[gamma; A, V]] share the factor of the coupled mode
        if t.factors[0].shape != mp.factors[0].shape or float(np.max(np.abs(np.asarray(t.factors[0]) - np.asarray(mp.factors[0])), initial=0.0)) > 1e-12:
            return "CMTF: the tensor part and the matrix part do not share the factor of the coupled mode", "C08_cmtf_shared_factor"
    if kind == "DTucker":
        core, factors = out
        X = data_tensor(s, case["seed"], kind=kw.get("data", "normal"))
        import tensorly.tucker_tensor as tkm
        req = tkm.validate_tucker_rank(tuple(s), list(spec) if isinstance(spec, tuple) else spec)
        svd_like = not (kw["init"] == "random" and kw["n_iter_max"] == 0)
        for k, f in enumerate(factors):
            want = min(req[k], s[k]) if svd_like else req[k]
            if f.shape != (s[k], want):
                return f"factor {k} has shape {f.shape}, expected {(s[k], want)}", "C08_tucker_shapes"
            if core.shape[k] != want:
                return f"core mode {k} has size {core.shape[k]}, expected {want}", "C08_tucker_shapes"
        if svd_like:
            for k, f in enumerate(factors):
                e = orthonormal_cols(f)
                if e > TOLX:
                    return f"Tucker factor {k} not orthonormal (residual {e:.2e})", "C08_tucker_orthonormal"
            proj = X
            for k, f in enumerate(factors):
                proj = np.moveaxis(np.tensordot(np.conj(f).T, proj, axes=(1, k)), 0, k)
            e = float(np.max(np.abs(proj - core))) / max(1.0, float(np.max(np.abs(X))))
            if e > TOLX:
                return f"Tucker core is not the projection of the data (residual {e:.2e})", "C08_tucker_core_projection"
    if kind == "DCp":
        import tensorly.cp_tensor as cpm
        r = cpm.validate_cp_rank(tuple(s), spec)
        if out.weights.shape != (r,) or any(f.shape != (s[k], r) for k, f in enumerate(out.factors)):
            return f"CP shapes {[f.shape for f in out.factors]} for rank {r}", "C08_cp_shapes"
        if kw.get("driver") in ("randomised_parafac", "constrained_parafac") and not np.array_equal(np.asarray(out.weights), np.ones(r)):
            return f"{kw['driver']} has no normalisation option but returned weights {np.asarray(out.weights)}", "C08_cp_unit_weights"
    if kind == "DParafac2":
        w, (A, B, Cm), P = out
        r = spec
        if A.shape != (len(s), r) or B.shape != (r, r) or Cm.shape != (s[0][1], r) or len(P) != len(s):
            return "PARAFAC2 factor shapes", "C08_parafac2_shapes"
        G0 = None
        for i, p in enumerate(P):
            if p.shape != (s[i][0], r):
                return f"projection {i} has shape {p.shape}", "C08_parafac2_shapes"
            e = orthonormal_cols(p)
            if e > TOLX:
                return f"PARAFAC2 projection {i} not orthonormal (residual {e:.2e})", "C08_parafac2_orthonormal"
            Bi = p @ B
            G = Bi.T @ Bi
            if G0 is None:
                G0 = G
            elif np.max(np.abs(G - G0)) > TOL * max(1.0, float(np.max(np.abs(G0)))):
                return f"B_{i}^T B_{i} differs from B_0^T B_0", "C08_parafac2_cross_product"
    return None


# --- Tucker / partial_tucker: every stopping path (tol falsy = cap exit, tol huge = convergence exit), fixed factors, mask, SVD methods
def project(X, factors, modes):
    """X x_m U_m^H over the listed modes (conjugate transpose)"""
    out = X
    for m, f in zip(modes, factors):
        out = np.moveaxis(np.tensordot(np.conj(f).T, out, axes=(1, m)), 0, m)
    return out


def tucker_cases(tier, rng):
    quick = tier == "quick"
    shapes = [(3, 4, 2), (4, 3), (2, 3, 2, 3)] if quick else [(3, 4, 2), (4, 3), (2, 3, 2, 3), (5, 2, 4), (1, 3, 3), (3, 3, 3, 2)]
    for s in shapes:
        n = len(s)
        for entry in ("tucker", "partial_tucker"):
            mode_sets = [None] if entry == "tucker" else [None, [0], [n - 1], list(range(1, n)), [n - 1, 0]]
            for modes in mode_sets:
                for init in ("svd", "random"):
                    for tol in (0, None, 1e10, 1e-5):
                        for nit in (1, 2, 3, 5):
                            if rng.random() < (0.75 if quick else 0.3):
                                continue
                            k = n if modes is None else len(modes)
                            rank = [rng.choice([1, 2, 3, 5]) for _ in range(k)]
                            yield dict(entry=entry, shape=s, modes=modes, rank=rank, init=init, tol=tol, n_iter_max=nit, seed=rng.randrange(10 ** 6),
                                       svd=rng.choice(["truncated_svd", "truncated_svd", "symeig_svd", "randomized_svd"]), fixed=None, mask=False,
                                       dtype=rng.choice(["float64", "float64", "complex128", "complex128", "complex64"]))
        # complex data on the shortest runs (n_iter_max 0 with the SVD init, 1) and both exits
        for entry in ("tucker", "partial_tucker"):
            for dtype in ("complex128", "complex64"):
                for init, nit, tol in (("svd", 0, 0), ("svd", 1, None), ("random", 1, 0), ("svd", 4, 1e10), ("random", 3, 1e-5)):
                    if quick and rng.random() < 0.4:
                        continue
                    modes = None if entry == "tucker" else rng.choice([None, [0], [n - 1, 0]])
                    k = n if modes is None else len(modes)
                    yield dict(entry=entry, shape=s, modes=modes, rank=[rng.choice([1, 2, 3, 5]) for _ in range(k)], init=init, tol=tol, n_iter_max=nit,
                               seed=rng.randrange(10 ** 6), svd="truncated_svd", fixed=None, mask=False, dtype=dtype)
        # fixed factors (orthonormal, user supplied) and missing values
        # the SVD initialisation alone (n_iter_max = 0) on mode subsets / permuted modes with ranks that differ between the listed positions
        for modes in ([n - 1, 0], list(range(1, n)), [n - 1], None):
            k = n if modes is None else len(modes)
            for rank in ([1 + (j % 2) for j in range(k)], [2 - (j % 2) for j in range(k)]):
                if quick and rng.random() < 0.3:
                    continue
                yield dict(entry=("tucker" if modes is None and rng.random() < 0.5 else "partial_tucker"), shape=s, modes=modes, rank=rank, init="svd",
                           tol=rng.choice([0, 1e-5]), n_iter_max=rng.choice([0, 0, 1]),
                           seed=rng.randrange(10 ** 6), svd=rng.choice(["truncated_svd", "symeig_svd"]), fixed=None, mask=False, dtype=rng.choice(["float64", "complex128"]))
        # the rank argument of partial_tucker as None (sizes preserved) / a single int (same rank for every listed mode)
        for modes in (None, [n - 1, 0], [1]):
            k = n if modes is None else len(modes)
            listed = list(range(n)) if modes is None else modes
            for spec in ("none", "int"):
                if quick and rng.random() < 0.4:
                    continue
                r_ = rng.choice([1, 2, 4])
                yield dict(entry="partial_tucker", shape=s, modes=modes, rank=([s[m] for m in listed] if spec == "none" else [r_] * k), rank_spec=spec,
                           init=rng.choice(["svd", "random"]), tol=rng.choice([0, 1e-5]), n_iter_max=rng.choice([0, 1, 2]), seed=rng.randrange(10 ** 6),
                           svd="truncated_svd", fixed=None, mask=False, dtype=rng.choice(["float64", "complex128"]))
        # (also an unsorted list of fixed modes -- for a matrix it names every mode: the initialisation is returned -- and complex data)
        for fixed in ([0], [n - 1], list(range(n - 1)), [n - 1, 0]):
            for nit in (1, 3, 0):
                if quick and rng.random() < 0.5:
                    continue
                rank = [max(1, min(d, 1 + (k + rng.randrange(2)) % 3)) for k, d in enumerate(s)]      # ranks that differ between modes
                yield dict(entry="tucker", shape=s, modes=None, rank=rank, init="user", tol=rng.choice([0, 1e-5, 1e10]), n_iter_max=nit,
                           seed=rng.randrange(10 ** 6), svd="truncated_svd", fixed=fixed, mask=False, dtype=rng.choice(["float64", "float64", "complex128"]))
        for entry in ("tucker", "partial_tucker"):
            for nit in (1, 3):
                yield dict(entry=entry, shape=s, modes=None, rank=[min(2, d) for d in s], init="svd", tol=rng.choice([0, 1e-5]), n_iter_max=nit,
                           seed=rng.randrange(10 ** 6), svd="truncated_svd", fixed=None, mask=True)
        # missing values on a mode subset / permuted modes, random initialisation, both exits (the imputed tensor is observed through the projection's input)
        for modes in ([n - 1, 0], [0]):
            yield dict(entry="partial_tucker", shape=s, modes=modes, rank=[min(2, s[m]) for m in modes], init=rng.choice(["svd", "random"]),
                       tol=rng.choice([0, 1e-5, 1e10]), n_iter_max=rng.choice([1, 2, 4]), seed=rng.randrange(10 ** 6), svd="truncated_svd", fixed=None, mask=True)



class HooiSpy:
    """harness-level interposition (no source hook): svd_interface / multi_mode_dot as bound inside tensorly.decomposition._tucker are
    replaced for the duration of one call by wrappers that log the call (codes of Model/StructureHooi.v: 100+i = SVD whose U becomes the
    factor at position i, 2 = full projection, 10+i = projection skipping position i, 3 = reconstruction) and remember the outputs of
    the assigning calls"""

    def __enter__(self):
        import tensorly.decomposition._tucker as M
        self.M, self.o_svd, self.o_mmd = M, M.svd_interface, M.multi_mode_dot
        self.log, self.outs = [], []
        self.pending, self.n_init = None, 0
        self.proj_in = self.proj_rec = None
        me = self

        def svd(*a, **kw):
            r = me.o_svd(*a, **kw)
            if me.pending is not None:
                i, me.pending = me.pending, None
            else:
                i = me.n_init; me.n_init += 1
            me.log.append(100 + i); me.outs.append(np.array(r[0], copy=True))
            return r

        def mmd(tensor, mats, modes=None, skip=None, transpose=False):
            r = me.o_mmd(tensor, mats, modes=modes, skip=skip, transpose=transpose)
            if not transpose:
                c = 3
            elif skip is None:
                c = 2
            else:
                c = 10 + int(skip); me.pending = int(skip)
            me.log.append(c); me.outs.append(np.array(r, copy=True) if c in (2, 3) else None)
            if c == 2:
                me.proj_in = np.array(tensor, copy=True)                 # the tensor that was projected (with a mask: the imputed tensor)
                me.proj_rec = next((o for cc, o in zip(reversed(me.log[:-1]), reversed(me.outs[:-1])) if cc == 3), None)
            return r
        M.svd_interface, M.multi_mode_dot = svd, mmd
        return self

    def __exit__(self, *a):
        self.M.svd_interface, self.M.multi_mode_dot = self.o_svd, self.o_mmd
        return False

    def flags(self, core, factors, fixed_glue=False):
        """(the returned core is the output of the last full projection, which follows every factor assignment ; every returned factor
        is the U of the last SVD logged for its position).  fixed_glue: tucker(fixed_factors=...) projects once more onto the fixed modes"""
        log, outs = self.log, self.outs
        p2 = [k for k, c in enumerate(log) if c == 2]
        last_s = max([k for k, c in enumerate(log) if c >= 100], default=-1)
        if fixed_glue:
            f1 = len(p2) >= 2 and p2[-1] == len(log) - 1 and p2[-2] > last_s and np.array_equal(outs[p2[-1]], core)
        else:
            f1 = bool(p2) and p2[-1] > last_s and np.array_equal(outs[p2[-1]], core)
        f2 = True
        for i, f in enumerate(factors):
            ks = [k for k, c in enumerate(log) if c == 100 + i]
            f2 = f2 and bool(ks) and np.array_equal(outs[ks[-1]], f)
        return bool(f1), bool(f2)


def pred_imputed(tc, spy, X, mask):
    """with a mask (0 / 1 entries) and at least one sweep: the tensor that the LAST full projection projected -- the core is its output
    (flag f1) -- is the data on the observed entries and the last reconstruction multi_mode_dot(core, factors) on the missing ones, bit for
    bit (x * 1 + r * 0 = x and x * 0 + r * 1 = r exactly for finite values); this is the `X'` of C08_hooi_result_canonical under a mask"""
    if mask is None or tc["n_iter_max"] == 0 or spy.proj_in is None:
        return None
    if spy.proj_rec is None:
        return None            # the reconstruction did not go through multi_mode_dot (refactored imputation): not observable, never a verdict
    if not np.all(np.isfinite(spy.proj_rec)):
        return None
    want = np.where(mask != 0, X, spy.proj_rec)
    if spy.proj_in.shape != want.shape or not np.array_equal(spy.proj_in, want):
        bad = int(np.sum(spy.proj_in != want)) if spy.proj_in.shape == want.shape else -1
        return (f"the tensor projected last differs from `data on the observed entries, last reconstruction on the missing ones` in {bad} entries", "C08_hooi_imputed_tensor")
    return None


def pred_hooi(tc, f1, f2):
    """transcription of C08_hooi_core_projected / C08_hooi_factors_from_svd on the call log: whenever a sweep ran (or the SVD
    initialisation was used) the core comes from a full projection that follows the last factor update, the factors from SVDs"""
    all_fixed = tc["fixed"] is not None and len(set(tc["fixed"])) >= len(tc["shape"])
    swept = tc["n_iter_max"] > 0 and not all_fixed
    if (swept or (tc["init"] == "svd" and tc["fixed"] is None)) and not (f1 and f2):
        return (("the returned core is not the output of a full projection that follows the last factor update" if not f1 else
                 "a returned factor is not the output of the last SVD computed for its position"), "C08_hooi_core_projected_last")
    return None


def hooi_case_lit(cid, tc, spy, out):
    """Gallina case comparing the call log of one tucker / partial_tucker run with Model/StructureHooi.v"""
    n, tol = tc["n_iter_max"], tc["tol"]
    sweeps = spy.log.count(10)
    if not tol:
        dec = [False] * n
    elif tol >= 1e9:
        dec = [True] * n
    else:
        dec = [False] * n
        if 0 < sweeps < n:
            dec[sweeps - 1] = True           # the run left the loop before the cap: the convergence test fired after this sweep
    dl = "[" + "; ".join(C.boolc(b) for b in dec) + "]" if dec else "(@nil bool)"
    s = tc["shape"]
    mask, ts = C.boolc(bool(tc["mask"])), C.boolc(bool(tol))
    core, factors = out
    if tc["fixed"] is not None:
        fx = sorted(set(tc["fixed"]))
        upd = [f for m, f in enumerate(factors) if m not in fx]
        f1, f2 = spy.flags(core, upd, fixed_glue=True) if len(fx) < len(s) else (False, False)
        op = f"(DHooiFixed {C.nat(len(s))} {C.nat(len(fx))} {mask} {ts} {C.nat(n)} {dl})"
    else:
        k = len(s) if tc["modes"] is None else len(tc["modes"])
        f1, f2 = spy.flags(core, factors)
        ik = {"svd": "InitSvd", "random": "InitRandom"}.get(tc["init"], "InitUser")
        op = f"(DHooi {ik} {C.nat(k)} {mask} {ts} {C.nat(n)} {dl})"
    codes = C.nat_list(spy.log) if spy.log else "(@nil nat)"
    return f"({cid}%N, {op}, (Ok [{codes}; [{int(f1)}]%nat; [{int(f2)}]%nat]))", (f1, f2)


def run_tucker_case(tc, spy=None):
    from tensorly import decomposition as D
    from tensorly.decomposition._tucker import partial_tucker
    r = np.random.RandomState(tc["seed"])
    s = tuple(tc["shape"])
    dtype = tc.get("dtype", "float64")
    cx = dtype.startswith("complex")
    X = (r.standard_normal(s) + (1j * r.standard_normal(s) if cx else 0)).astype(dtype)
    kw = dict(n_iter_max=tc["n_iter_max"], tol=tc["tol"], svd=tc["svd"], random_state=tc["seed"])
    init = tc["init"]
    fixed_in = None
    if init == "user":
        fs = [np.linalg.qr(r.standard_normal((d, k)) + (1j * r.standard_normal((d, k)) if cx else 0))[0].astype(dtype) for d, k in zip(s, tc["rank"])]
        init = ((r.standard_normal(tc["rank"]) + (1j * r.standard_normal(tc["rank"]) if cx else 0)).astype(dtype), fs)
        fixed_in = [np.array(f, copy=True) for f in fs]
    if tc["mask"]:
        kw["mask"] = (r.random_sample(s) > 0.15).astype(float)
        if spy is not None:
            spy.mask_used = np.array(kw["mask"], copy=True)
    if tc["entry"] == "tucker":
        if tc["fixed"] is not None:
            kw["fixed_factors"] = list(tc["fixed"])
        with (spy if spy is not None else HooiSpy()):
            st, out = C.call_impl(D.tucker, X, list(tc["rank"]), timeout=60, init=init, **kw)
        if st == "ok":
            out = (out[0], list(out[1]))
    else:
        with (spy if spy is not None else HooiSpy()):
            rank_arg = None if tc.get("rank_spec") == "none" else int(tc["rank"][0]) if tc.get("rank_spec") == "int" else list(tc["rank"])
            st, out = C.call_impl(partial_tucker, X, rank_arg, timeout=60, modes=tc["modes"], init=init, **kw)
        if st == "ok":
            out = (out[0][0], list(out[0][1]))
    return st, out, X, fixed_in


def pred_tucker_case(tc, st, out, X, fixed_in):
    if st != "ok":
        return f"raised: {out}", "C08_tucker_runs"
    core, factors = out
    s = tuple(tc["shape"])
    modes = list(range(len(s))) if tc["modes"] is None else list(tc["modes"])
    if len(factors) != len(modes):
        return f"{len(modes)} modes but {len(factors)} factors", "C08_tucker_shapes"
    want_core = list(s)
    random0 = tc["init"] == "random" and tc["n_iter_max"] == 0          # the drawn core and factors are returned: I_m x rank_j, not clipped, not orthonormal
    for m, f, rk in zip(modes, factors, tc["rank"]):
        c = rk if random0 else min(rk, s[m])
        if f.shape != (s[m], c):
            return f"factor of mode {m} has shape {f.shape}, expected {(s[m], c)}", "C08_tucker_shapes"
        want_core[m] = c
    if tuple(core.shape) != tuple(want_core):
        return f"core has shape {core.shape}, expected {tuple(want_core)}", "C08_tucker_shapes"
    if not (np.all(np.isfinite(core)) and all(np.all(np.isfinite(f)) for f in factors)):
        return "non-finite output", "C08_tucker_finite"
    tol = max(1e-6 if tc["svd"] == "symeig_svd" else TOL, tol_for(X))        # eigh of the Gram matrix squares the condition number
    if tc["svd"] == "symeig_svd" and tol_for(X) > TOL:
        tol = 2e-3                                      # single precision through eigh of the Gram matrix
    if any(np.asarray(f).dtype != X.dtype for f in factors) or np.asarray(core).dtype != X.dtype:
        return f"dtype of the result {[str(np.asarray(f).dtype) for f in factors]} / {np.asarray(core).dtype} differs from the data's {X.dtype}", "C08_tucker_dtype"
    for m, f in zip(modes, factors):
        e = orthonormal_cols(f)
        if e > tol and not random0:
            return f"factor of mode {m} not orthonormal (residual {e:.2e})", "C08_tucker_orthonormal"
    if tc["fixed"] is not None:
        for m in tc["fixed"]:
            if not np.array_equal(factors[m], fixed_in[m]):
                return f"fixed factor {m} was changed", "C08_tucker_fixed_kept"
    no_sweep_user = tc["init"] == "user" and (tc["n_iter_max"] == 0 or (tc["fixed"] is not None and len(set(tc["fixed"])) >= len(s)))
    if not tc["mask"] and not no_sweep_user and not random0:
        # core = projection of the data onto the RETURNED factors (with a mask the data are re-imputed: not observable; a user
        # initialisation that is returned without a sweep keeps the user's core: C08_hooi_no_sweep_returns_init)
        e = float(np.max(np.abs(project(X, factors, modes) - core))) / max(1.0, float(np.max(np.abs(X))))
        if e > tol_for(X):
            return f"core is not the projection of the data onto the returned factors (residual {e:.2e})", "C08_tucker_core_projection"
    return None


# --- normalisation contract
CPFUNS = ("parafac", "non_negative_parafac", "non_negative_parafac_hals")
DRIVER = {"parafac": "Parafac", "non_negative_parafac": "NnMu", "non_negative_parafac_hals": "NnHals"}
INITK = {"random": "InitRandom", "svd": "InitSvd", "user": "InitUser", "refit": "InitUser"}


class NormSpy:
    """harness-level interposition (no source hook): every binding of cp_tensor.cp_normalize / tucker_tensor.tucker_normalize inside
    the tensorly modules is replaced by a wrapper that remembers (copies of) the outputs, for the duration of one call"""

    def __init__(self, module="tensorly.cp_tensor", name="cp_normalize"):
        self.module, self.name = module, name

    def __enter__(self):
        import sys, importlib
        name = self.name
        self.orig = getattr(importlib.import_module(self.module), name)
        self.outputs = []
        orig, outputs = self.orig, self.outputs

        def spy(t):
            r = orig(t)
            a, fs = r                 # snapshot: the drivers go on writing into the returned factor list
            outputs.append((np.array(a, copy=True), [np.array(f, copy=True) for f in fs]))
            return r
        self.patched = []
        for mname, mod in list(sys.modules.items()):
            if mname.startswith("tensorly") and mod is not None and getattr(mod, name, None) is orig:
                setattr(mod, name, spy)
                self.patched.append(mod)
        return self

    def __exit__(self, *a):
        for mod in self.patched:
            setattr(mod, self.name, self.orig)
        return False

    def is_last_output(self, a, fs):
        if not self.outputs:
            return False
        la, lf = self.outputs[-1]
        return bool(np.array_equal(la, a) and len(lf) == len(fs) and all(np.array_equal(x, y) for x, y in zip(lf, fs)))


def run_norm_case(nc):
    """nc: dict(fn, shape, rank, seed, init, n_iter_max, tol, normalize_factors, callback, cb_stop, fixed)
    -> dict(st, out, last, X, errors, n_norm, ends_norm, cb_fired)"""
    from tensorly import decomposition as D
    from tensorly.cp_tensor import CPTensor
    fn = {"parafac": D.parafac, "non_negative_parafac": D.non_negative_parafac,
          "non_negative_parafac_hals": D.non_negative_parafac_hals}[nc["fn"]]
    r = np.random.RandomState(nc["seed"])
    s, R = tuple(nc["shape"]), nc["rank"]
    # exact positive low-rank data plus a little noise: well conditioned for all three drivers
    fs = [r.random_sample((d, R)) + 0.2 for d in s]
    X = np.einsum(*[x for k, f in enumerate(fs) for x in (f, [k, len(s)])], list(range(len(s)))) + 0.01 * r.random_sample(s)
    init = nc["init"]
    init_tensor = None
    if init == "user":
        init = (r.random_sample(R) + 0.5, [r.random_sample((d, R)) + 0.3 for d in s])      # NON-unit weights
        init_tensor = cp_full(*init)
    elif init == "refit":
        # multi-step sequence: the result of a normalize_factors=True run (non-unit weights, unit columns) is fed back as init
        st0, first = C.call_impl(fn, X, R, timeout=60, n_iter_max=2, tol=0, normalize_factors=True, init="random", random_state=nc["seed"] + 1)
        if st0 != "ok":
            return dict(st=st0, out=first, last=None, X=X, errors=None, n_norm=0, ends_norm=False, cb_fired=False, init_tensor=None)
        init = CPTensor((np.array(first.weights, copy=True), [np.array(f, copy=True) for f in first.factors]))
        init_tensor = cp_full(init.weights, init.factors)
    kw = dict(n_iter_max=nc["n_iter_max"], tol=nc["tol"], normalize_factors=nc["normalize_factors"], init=init,
              random_state=nc["seed"], return_errors=True)
    if nc.get("fixed"):
        kw["fixed_modes"] = list(nc["fixed"])
    for k, v in (nc.get("opts") or {}).items():
        if k == "complex":               # complex data (parafac only): X and a user initialisation become complex
            X = (X + 1j * r.standard_normal(s) * 0.3).astype(v)
            if isinstance(kw["init"], tuple):
                kw["init"] = (kw["init"][0].astype(v), [(f + 1j * r.random_sample(f.shape)).astype(v) for f in kw["init"][1]])
                init_tensor = cp_full(*kw["init"])
            continue
        kw[k] = (r.random_sample(s) > 0.15).astype(float) if k == "mask" else v
    states, fired = [], [False]
    cb_stop = nc.get("cb_stop")
    if nc["fn"] == "parafac" and (nc.get("callback") or cb_stop is not None):
        def cb(cp, err):
            if not isinstance(cp, CPTensor):
                cp = cp[0]               # with sparsity= the callback receives (cp_tensor, sparse_component)
            states.append((np.array(cp.weights, copy=True), [np.array(f, copy=True) for f in cp.factors]))
            # the first call happens before the loop; call k+1 follows sweep k
            if cb_stop is not None and len(states) - 2 == cb_stop:
                fired[0] = True
                return True
            return None
        kw["callback"] = cb
    with NormSpy() as spy:
        st, out = C.call_impl(fn, X, R, timeout=60, **kw)
    errors = None
    if st == "ok" and not isinstance(out, CPTensor) and isinstance(out[1], list):
        out, errors = out
    if st == "ok" and not isinstance(out, CPTensor):
        out = out[0]                     # sparsity=: (cp_tensor, sparse_component)
    res = dict(st=st, out=out, last=(states[-1] if states else None), X=X, errors=errors, n_norm=len(spy.outputs),
               ends_norm=False, cb_fired=fired[0], init_tensor=init_tensor)
    if st == "ok":
        res["ends_norm"] = spy.is_last_output(out.weights, out.factors)
    return res


# --- the other drivers with a normalize_factors option: non_negative_tucker(_hals) (scale in the core), parafac2, CMTF
FN2 = {"non_negative_tucker": "NnTucker", "non_negative_tucker_hals": "NnTuckerHals", "parafac2": "Parafac2"}


def run_norm2_case(nc):
    """nc: dict(fn, shape | slices, rank, seed, n_iter_max, tol, normalize_factors, init) -> dict(st, out, errors, n_norm, ends_norm)"""
    from tensorly import decomposition as D
    from tensorly.decomposition._cmtf_als import coupled_matrix_tensor_3d_factorization
    r = np.random.RandomState(nc["seed"])
    fn = nc["fn"]
    kw = dict(n_iter_max=nc["n_iter_max"], tol=nc["tol"], normalize_factors=nc["normalize_factors"])
    if fn in ("non_negative_tucker", "non_negative_tucker_hals"):
        X = r.random_sample(tuple(nc["shape"])) + 0.1
        spy = NormSpy("tensorly.tucker_tensor", "tucker_normalize")
        with spy:
            st, out = C.call_impl(getattr(D, fn), X, list(nc["rank"]), timeout=60, init=nc["init"], random_state=nc["seed"], return_errors=True, **kw)
        res = dict(st=st, out=out, errors=None, n_norm=len(spy.outputs), ends_norm=False)
        if st == "ok":
            res["out"], res["errors"] = out
            res["ends_norm"] = spy.is_last_output(res["out"].core, res["out"].factors)
        return res
    if fn == "parafac2":
        K = nc["shape"][1]
        slices = [r.random_sample((j, K)) + 0.1 for j in nc["shape"][0]]
        spy = NormSpy()
        p2spy = P2Spy()
        if nc.get("nn_modes"):
            kw["nn_modes"] = nc["nn_modes"]
        with spy, p2spy:
            st, out = C.call_impl(D.parafac2, slices, nc["rank"], timeout=60, init=nc["init"], random_state=nc["seed"], return_errors=True,
                                  n_iter_parafac=2, linesearch=bool(nc.get("linesearch")), **kw)
        res = dict(st=st, out=out, errors=None, n_norm=len(spy.outputs), ends_norm=False)
        if st == "ok":
            res["out"], res["errors"] = out
            w, fs, _ = res["out"]
            res["ends_norm"] = spy.is_last_output(w, fs)
            res["p2spy"] = p2spy
        return res
    if fn == "cmtf":
        X = r.random_sample(tuple(nc["shape"])) + 0.1
        Y = r.random_sample((nc["shape"][0], 3)) + 0.1
        st, out = C.call_impl(coupled_matrix_tensor_3d_factorization, X, Y, nc["rank"], timeout=60, **kw)
        return dict(st=st, out=out, errors=(out[2] if st == "ok" else None), n_norm=0, ends_norm=False)
    raise KeyError(fn)



class P2Spy:
    """harness-level interposition for parafac2: _compute_projections (module attribute of tensorly.decomposition._parafac2) and the line-search
    step are replaced for one call by wrappers that keep the outputs / whether the jump was accepted"""

    def __enter__(self):
        import tensorly.decomposition._parafac2 as M
        self.M, self.o_cp, self.o_ls = M, M._compute_projections, M._BroThesisLineSearch.line_step
        self.outs, self.accepts = [], []
        me = self

        def cp(*a, **kw):
            r = me.o_cp(*a, **kw)
            me.outs.append([np.array(p_, copy=True) for p_ in r])
            return r

        def ls(self_, iteration, tensor_slices, factors_last, weights, factors, projections, rec_error):
            r = me.o_ls(self_, iteration, tensor_slices, factors_last, weights, factors, projections, rec_error)
            me.accepts.append((int(iteration), r[0] is not factors))        # the jump was accepted: the extrapolated factors are returned
            return r
        M._compute_projections, M._BroThesisLineSearch.line_step = cp, ls
        return self

    def __exit__(self, *a):
        self.M._compute_projections, self.M._BroThesisLineSearch.line_step = self.o_cp, self.o_ls
        return False


def p2_calls_lit(cid, nc, res, spy):
    """Gallina case: the _compute_projections calls of one parafac2 run vs Model/StructureHooi.v p2o_trace"""
    n, tol = nc["n_iter_max"], nc["tol"]
    dec, sweeps, _ = norm2_decisions(nc, res) if res["errors"] is not None else ([False] * n, n, False)
    acc = dict(spy.accepts)
    pairs = [(bool(acc.get(it, False)), bool(dec[it]) if it < len(dec) else False) for it in range(n)]
    dl = "[" + "; ".join(f"({C.boolc(a)}, {C.boolc(b)})" for a, b in pairs) + "]" if pairs else "(@nil (bool * bool))"
    P = res["out"][2]
    idx = 99
    for k in range(len(spy.outs) - 1, -1, -1):
        o = spy.outs[k]
        if len(o) == len(P) and all(np.array_equal(x, y) for x, y in zip(o, P)):
            idx = len(spy.outs) - 1 - k
            break
    ik = {"svd": "InitSvd", "random": "InitRandom"}.get(nc["init"], "InitUser")
    op = (f"(DP2Calls {ik} {C.boolc(bool(nc.get('nn_modes')))} {C.boolc(nc['normalize_factors'])} {C.boolc(bool(tol))} "
          f"{C.boolc(bool(nc.get('linesearch')))} {C.nat(n)} {dl})")
    return f"({cid}%N, {op}, (Ok [[{len(spy.outs)}]%nat; [{idx}]%nat]))", idx


def _unit_columns(fs, zero_ok):
    for k, f in enumerate(fs):
        for c, v in enumerate(np.linalg.norm(np.asarray(f), axis=0)):
            if abs(v - 1) > TOL and not (v == 0 and zero_ok(k, c)):
                return f"column {c} of factor {k} has norm {v!r} (normalize_factors=True)"
    return None


def pred_norm2(nc, res):
    if res["st"] != "ok":
        return f"raised: {res['out']}", "C08_norm_runs"
    out, fn, nf = res["out"], nc["fn"], nc["normalize_factors"]
    if fn in ("non_negative_tucker", "non_negative_tucker_hals"):
        core, fs = out
        if not (np.all(np.isfinite(core)) and all(np.all(np.isfinite(f)) for f in fs)):
            return "non-finite output", "C08_norm_finite"
        if nf:
            m = _unit_columns(fs, lambda k, c: not np.any(np.take(core, c, axis=k)))
            if m:
                return m, "C08_norm_unit_columns"
        return None
    if fn == "parafac2":
        w, fs, _ = out
        if not (np.all(np.isfinite(w)) and all(np.all(np.isfinite(f)) for f in fs)):
            return "non-finite output", "C08_norm_finite"
        if nf:
            m = _unit_columns(fs, lambda k, c: w[c] == 0)
            if m:
                return m, "C08_norm_unit_columns"
        elif not np.all(np.asarray(w) == 1):
            return f"weights {np.asarray(w).tolist()} are not all ones (normalize_factors=False)", "C08_norm_weights_ones"
        # one orthonormal projection per slice, the evolving factors share one cross product -- on every path through the outer loop
        # (a user / random initialisation returned without a sweep keeps its own projections)
        P, B = out[2], fs[1]
        if len(P) != len(nc["shape"][0]):
            return f"{len(P)} projections for {len(nc['shape'][0])} slices", "C08_parafac2_shapes"
        if nc["n_iter_max"] > 0 or nc["init"] in ("svd", "random"):
            G0 = None
            for i, p_ in enumerate(P):
                e = orthonormal_cols(p_)
                if e > TOL:
                    return f"PARAFAC2 projection {i} not orthonormal (residual {e:.2e})", "C08_parafac2_orthonormal"
                Bi = p_ @ B
                G = Bi.T @ Bi
                if G0 is None:
                    G0 = G
                elif np.max(np.abs(G - G0)) > TOL * max(1.0, float(np.max(np.abs(G0)))):
                    return f"B_{i}^T B_{i} differs from B_0^T B_0", "C08_parafac2_cross_product"
        return None
    t, mp, _ = out
    if not all(np.all(np.isfinite(x)) for cp in (t, mp) for x in [cp.weights] + list(cp.factors)):
        return "non-finite output", "C08_norm_finite"
    if nf:
        for cp in (t, mp):
            m = _unit_columns(cp.factors, lambda k, c, cp=cp: cp.weights[c] == 0)
            if m:
                return m, "C08_norm_unit_columns"
    else:
        for nm, cp in (("tensor", t), ("matrix", mp)):
            if not np.all(np.asarray(cp.weights) == 1):
                return f"CMTF {nm} part: weights {np.asarray(cp.weights).tolist()} are not all ones (normalize_factors=False)", "C08_norm_weights_ones"
    # the coupling on every exit, normalised or not: both parts carry the same factor for the coupled mode
    if t.factors[0].shape != mp.factors[0].shape or float(np.max(np.abs(np.asarray(t.factors[0]) - np.asarray(mp.factors[0])), initial=0.0)) > 1e-12:
        return "CMTF: the tensor part and the matrix part do not share the factor of the coupled mode", "C08_cmtf_shared_factor"
    return None


def norm2_cases(tier, rng):
    quick = tier == "quick"
    tk = [((4, 5, 3), (2, 3, 2)), ((3, 4), (2, 2))] if quick else [((4, 5, 3), (2, 3, 2)), ((3, 4), (2, 2)), ((3, 3, 2, 2), (2, 2, 1, 2)), ((5, 2, 4), (3, 2, 2))]
    for fn in ("non_negative_tucker", "non_negative_tucker_hals"):
        for shape, rank in tk:
            for init in ("svd", "random"):
                for nf in (True, False):
                    for tol in (1e10, 0, 1e-4):
                        for nit in (0, 1, 2, 3, 4, 8):
                            if tol == 1e-4 and nit < 8:
                                continue
                            if quick and rng.random() < 0.55:
                                continue
                            yield dict(fn=fn, shape=shape, rank=rank, seed=rng.randrange(10 ** 6), init=init, n_iter_max=nit, tol=tol, normalize_factors=nf)
    p2 = [((4, 5, 3), 4, 2), ((3, 3), 3, 2)] if quick else [((4, 5, 3), 4, 2), ((3, 3), 3, 2), ((5, 4, 6, 4), 4, 3), ((2, 3, 4), 2, 1)]
    for js, K, R in p2:
        for init in ("random", "svd"):
            for nf in (True, False):
                for tol in (1e10, 0, 1e-6):
                    for nit in (0, 1, 2, 3, 5):
                        if quick and rng.random() < 0.55:
                            continue
                        yield dict(fn="parafac2", shape=(js, K), rank=R, seed=rng.randrange(10 ** 6), init=init, n_iter_max=nit, tol=tol, normalize_factors=nf)
    # the line search (every second sweep from iteration 6 on) and the non-negative variant: the projections over the outer loop
    for js, K, R in p2[:1] if quick else p2[:2]:
        for init in ("random", "svd"):
            for ls_, nn_, nit, tol in ((True, None, 9, 0), (True, None, 7, 1e-12), (True, None, 11, 0), (False, [0], 2, 0), (True, [0, 2], 9, 0), (False, "all", 0, 0)):
                if quick and rng.random() < 0.35:
                    continue
                yield dict(fn="parafac2", shape=(js, K), rank=R, seed=rng.randrange(10 ** 6), init=init, n_iter_max=nit, tol=tol,
                           normalize_factors=rng.choice([True, False]), linesearch=ls_, nn_modes=nn_)
    for shape in ([(4, 3, 2)] if quick else [(4, 3, 2), (3, 3, 3)]):
        for nf in (True, False):
            for tol in (1e10, 1e-300):
                for nit in (1, 2, 3):                   # n_iter_max=0 is not accepted by CMTF (raises)
                    yield dict(fn="cmtf", shape=shape, rank=2, seed=rng.randrange(10 ** 6), init="svd", n_iter_max=nit, tol=tol, normalize_factors=nf)


def norm2_decisions(nc, res):
    """decision sequence (answer tape) of a non_negative_tucker(_hals) / parafac2 run, the number of sweeps to expect, and whether the
    run left the loop through the convergence break"""
    n, tol, errors = nc["n_iter_max"], nc["tol"], [float(e) for e in res["errors"]]
    k = len(errors)
    first = 2 if nc["fn"] != "parafac2" else 1          # first iteration at which the convergence test is evaluated
    if not tol:
        return [False] * n, n, False                    # the number of sweeps is not reported: every sweep runs
    if tol >= 1e9:
        return [True] * n, k, n > first                 # fires as soon as it is evaluated
    dec = [False] * n
    # the implementation's own test, re-evaluated on the errors it reports (decides the ambiguous case "stopped at the last sweep")
    fired = k > first and k <= n and abs(errors[-2] - errors[-1]) < tol
    if fired:
        dec[k - 1] = True
    return dec, k, fired


def norm2_case_lit(cid, nc, res):
    n, tol = nc["n_iter_max"], nc["tol"]
    dec, sweeps, _ = norm2_decisions(nc, res)
    dl = "[" + "; ".join(C.boolc(b) for b in dec) + "]" if dec else "(@nil bool)"
    op = f"(DNorm2 {FN2[nc['fn']]} {C.boolc(nc['normalize_factors'])} {C.boolc(bool(tol))} {C.nat(n)} {dl})"
    exp = f"(Ok [[{sweeps}]%nat; [{1 if res['ends_norm'] else 0}]%nat; [{1 if res['n_norm'] else 0}]%nat])"
    return f"({cid}%N, {op}, {exp})"


def cp_full(w, fs):
    n = len(fs)
    args = []
    for k, f in enumerate(fs):
        args += [f, [k, n]]
    return np.einsum(w, [n], *args, list(range(n)))


def pred_norm(nc, res):
    st, out, last = res["st"], res["out"], res["last"]
    if st != "ok":
        return f"raised: {out}", "C08_norm_runs"
    w, fs = out.weights, out.factors
    if not (np.all(np.isfinite(w)) and all(np.all(np.isfinite(f)) for f in fs)):
        return "non-finite output", "C08_norm_finite"
    tolx = tol_for(fs[0])
    if nc["normalize_factors"]:
        for k, f in enumerate(fs):
            nrm = np.linalg.norm(f, axis=0)
            for r_, v in enumerate(nrm):
                if abs(v - 1) > tolx and not (v == 0 and w[r_] == 0):
                    return f"column {r_} of factor {k} has norm {v!r} (normalize_factors=True)", "C08_norm_unit_columns"
        if np.any(np.real(w) < 0) or np.any(np.imag(w) != 0):
            return "negative / non-real weight after normalisation", "C08_norm_scale_in_weights"
        if last is not None:
            T0, T1 = cp_full(*last), cp_full(w, fs)
            e = float(np.max(np.abs(T0 - T1))) / max(1e-300, float(np.max(np.abs(T0))))
            if e > max(1e-9, 50 * tolx if tolx > TOL else 0):
                return f"normalised output represents another tensor than the last iterate (rel {e:.2e}): scale not carried by the weights", "C08_norm_scale_in_weights"
    else:
        if not np.all(w == 1):
            return f"weights {w.tolist()} are not all ones (normalize_factors=False)", "C08_norm_weights_ones"
    if res.get("init_tensor") is not None and (nc["n_iter_max"] == 0 or _all_fixed(nc)):
        # no sweep ran: whatever moved between weights and factors, the represented tensor is still the user's
        T0, T1 = res["init_tensor"], cp_full(w, fs)
        e = float(np.max(np.abs(T0 - T1))) / max(1e-300, float(np.max(np.abs(T0))))
        if e > max(1e-9, 50 * tolx if tolx > TOL else 0):
            return f"no sweep ran but the output represents another tensor than the user initialisation (rel {e:.2e}): scale lost", "C08_norm_scale_in_weights"
    return None


def cp_normalize_cases(tier, rng):
    """direct calls of cp_tensor.cp_normalize: weights None / ones / generic / with zeros and negatives, zero columns, orders 1-4"""
    n = 40 if tier == "quick" else 400
    for k in range(n):
        order = rng.choice([1, 2, 3, 3, 4])
        shape = tuple(rng.choice([1, 2, 3, 5]) for _ in range(order))
        R = rng.choice([1, 2, 3])
        yield dict(shape=shape, rank=R, seed=rng.randrange(10 ** 6), weights=rng.choice(["none", "ones", "generic", "signed"]),
                   zero_col=rng.choice([None, None, (rng.randrange(order), rng.randrange(R))]), integer=rng.random() < 0.3,
                   tiny_col=rng.choice([None, None, (rng.randrange(order), rng.randrange(R))]),
                   cdtype=rng.choice([None, None, "complex128", "complex64"]))


def cp_normalize_inputs(cc):
    r = np.random.RandomState(cc["seed"])
    fs = [(r.randint(-3, 4, size=(d, cc["rank"])).astype(float) if cc["integer"] else r.standard_normal((d, cc["rank"]))) for d in cc["shape"]]
    if cc["zero_col"] is not None:
        k, c = cc["zero_col"]
        fs[k][:, c] = 0.0
    if cc.get("tiny_col") is not None:                  # a column of norm ~1e-6: small, not zero -- must be normalised like any other
        k, c = cc["tiny_col"]
        fs[k][:, c] = (r.random_sample(fs[k].shape[0]) + 0.5) * 1e-6
    w = {"none": None, "ones": np.ones(cc["rank"]), "generic": r.random_sample(cc["rank"]) + 0.5,
         "signed": r.standard_normal(cc["rank"]) * (r.random_sample(cc["rank"]) < 0.8)}[cc["weights"]]
    if cc.get("cdtype"):
        fs = [(f + 1j * np.where(f == 0, 0.0, r.standard_normal(f.shape))).astype(cc["cdtype"]) for f in fs]      # zero columns stay zero
        w = None if w is None else (w * np.exp(1j * r.random_sample(cc["rank"]))).astype(cc["cdtype"])           # complex weights: absorbed into factor 0
    return w, fs


def run_cp_normalize_case(cc):
    from tensorly.cp_tensor import cp_normalize, CPTensor
    w, fs = cp_normalize_inputs(cc)
    before = cp_full(np.ones(cc["rank"]) if w is None else w, fs)
    st, out = C.call_impl(cp_normalize, CPTensor((None if w is None else w.copy(), [f.copy() for f in fs])), timeout=60)
    return st, out, before


def pred_cp_normalize(cc, st, out, before):
    """transcription of C08_cp_normalize_{unit_columns, weights_nonneg, represents, shapes}"""
    if st != "ok":
        return f"raised: {out}", "C08_cp_normalize_runs"
    w, fs = out
    if [f.shape for f in fs] != [(d, cc["rank"]) for d in cc["shape"]] or np.shape(w) != (cc["rank"],):
        return f"shapes changed: {[f.shape for f in fs]}", "C08_cp_normalize_shapes"
    if not (np.all(np.isfinite(w)) and all(np.all(np.isfinite(f)) for f in fs)):
        return "non-finite output (a zero column must stay zero, its scale is taken as 1)", "C08_cp_normalize_unit_columns"
    t12 = 1e-12 if tol_for(fs[0]) == TOL else 2e-5
    for k, f in enumerate(fs):
        for c, v in enumerate(np.linalg.norm(f, axis=0)):
            if abs(v - 1) > t12 and not (v == 0 and w[c] == 0):
                return f"column {c} of factor {k} has norm {v!r} (weight {w[c]!r})", "C08_cp_normalize_unit_columns"
    if np.any(np.real(w) < 0) or np.any(np.imag(w) != 0):
        return f"negative / non-real weight {w.tolist()}", "C08_cp_normalize_weights_nonneg"
    after = cp_full(w, fs)
    e = float(np.max(np.abs(after - before))) / max(1.0, float(np.max(np.abs(before))))
    if e > t12:
        return f"the normalised CP tensor represents another tensor (residual {e:.2e}): scale not carried by the weights", "C08_cp_normalize_represents"
    return None


def run_tucker_normalize_case(cc):
    from tensorly.tucker_tensor import tucker_normalize, tucker_to_tensor
    r = np.random.RandomState(cc["seed"])
    ranks = [max(1, min(d, cc["rank"])) for d in cc["shape"]]
    fs = [(r.randint(-3, 4, size=(d, k)).astype(float) if cc["integer"] else r.standard_normal((d, k))) for d, k in zip(cc["shape"], ranks)]
    if cc["zero_col"] is not None:
        k, c = cc["zero_col"]
        fs[k][:, min(c, ranks[k] - 1)] = 0.0
    if cc.get("tiny_col") is not None:
        k, c = cc["tiny_col"]
        fs[k][:, min(c, ranks[k] - 1)] = (r.random_sample(fs[k].shape[0]) + 0.5) * 1e-6
    core = r.standard_normal(ranks)
    if cc.get("cdtype"):
        fs = [(f + 1j * np.where(f == 0, 0.0, r.standard_normal(f.shape))).astype(cc["cdtype"]) for f in fs]
        core = (core + 1j * r.standard_normal(ranks)).astype(cc["cdtype"])
    before = tucker_to_tensor((core, fs))
    st, out = C.call_impl(tucker_normalize, (core.copy(), [f.copy() for f in fs]), timeout=60)
    return st, out, before, ranks


def pred_tucker_normalize(cc, st, out, before, ranks):
    """transcription of C08_tucker_normalize_{unit_columns, represents}"""
    from tensorly.tucker_tensor import tucker_to_tensor
    if st != "ok":
        return f"raised: {out}", "C08_tucker_normalize_runs"
    core, fs = out
    if [f.shape for f in fs] != [(d, k) for d, k in zip(cc["shape"], ranks)] or tuple(core.shape) != tuple(ranks):
        return f"shapes changed: {[f.shape for f in fs]}, core {core.shape}", "C08_tucker_normalize_shapes"
    if not (np.all(np.isfinite(core)) and all(np.all(np.isfinite(f)) for f in fs)):
        return "non-finite output (a zero column must stay zero, its scale is taken as 1)", "C08_tucker_normalize_unit_columns"
    t12 = 1e-12 if tol_for(fs[0]) == TOL else 2e-5
    for k, f in enumerate(fs):
        for c, v in enumerate(np.linalg.norm(f, axis=0)):
            if abs(v - 1) > t12 and v != 0:
                return f"column {c} of factor {k} has norm {v!r}", "C08_tucker_normalize_unit_columns"
    after = tucker_to_tensor((core, fs))
    e = float(np.max(np.abs(after - before))) / max(1.0, float(np.max(np.abs(before))))
    if e > t12:
        return f"the normalised Tucker tensor represents another tensor (residual {e:.2e}): scale not carried by the core", "C08_tucker_normalize_represents"
    return None


def norm_decisions(nc, res):
    """the decision sequence of this run (answer tape for the model) and whether the number of sweeps is observable"""
    n, tol, cb = nc["n_iter_max"], nc["tol"], nc.get("cb_stop")
    errors = res["errors"]
    all_fixed = nc["fn"] == "parafac" and list(nc.get("fixed") or []) == list(range(len(nc["shape"])))
    obs = errors is not None and not all_fixed and (nc["fn"] == "parafac" or bool(tol))
    if not tol:
        dec = [(False, False)] * n
    elif tol >= 1e9:
        dec = [(False, True)] * n                # the convergence test fires as soon as it is evaluated (iteration >= 1)
    else:
        # data dependent: read the exit off the implementation's own error list
        k = len(errors) if errors is not None else n
        dec = [(False, False)] * n
        if k < n and not res["cb_fired"] and k >= 1:
            dec[k - 1] = (False, True)
    if cb is not None and cb < n and nc["fn"] == "parafac":
        if tol and tol < 1e9:
            if res["cb_fired"]:
                dec[cb] = (True, dec[cb][1])
        else:
            dec[cb] = (True, dec[cb][1])
    return dec, obs


def norm_case_lit(cid, nc, res):
    dec, obs = norm_decisions(nc, res)
    dl = "[" + "; ".join(f"({C.boolc(a)}, {C.boolc(b)})" for a, b in dec) + "]" if dec else "(@nil (bool * bool))"
    op = (f"(DNorm {DRIVER[nc['fn']]} {C.boolc(nc['normalize_factors'])} {C.boolc(bool(nc['tol']))} {INITK[nc['init']]} "
          f"{C.nat(len(nc['shape']))} {C.nat_list(list(nc.get('fixed') or []))} {C.nat(nc['n_iter_max'])} {dl} {C.boolc(obs)})")
    sweeps = len(res["errors"]) if obs else 0
    exp = f"(Ok [[{sweeps}]%nat; [{1 if res['ends_norm'] else 0}]%nat; [{1 if res['n_norm'] else 0}]%nat])"
    return f"({cid}%N, {op}, {exp})"


def norm_cases(tier, rng):
    quick = tier == "quick"
    shapes = [(3, 4, 2), (4, 3), (2, 3, 2, 3)] if quick else [(3, 4, 2), (4, 3), (2, 3, 2, 3), (5, 4, 3), (1, 4, 3), (6, 2), (3, 3, 3, 2)]
    iters = [0, 1, 2, 3, 6]
    base = dict(cb_stop=None, fixed=None)
    for fn in CPFUNS:
        for s in shapes:
            for R in ((2,) if quick else (1, 2, 3)):
                if len(s) == 2 and R > min(s):
                    continue        # a matrix factorisation with more components than rows: singular Gram matrices by construction
                for init in ("random", "svd", "user"):
                    for nf in (True, False):
                        for tol in (1e10, 0, 1e-3):       # huge: stops by convergence at iteration 1 ; 0: runs to the cap ; 1e-3: data dependent
                            for nit in iters:
                                if quick and (s != shapes[0]) and nit in (3, 6):
                                    continue
                                if tol == 1e-3 and (nit < 3 or (quick and rng.random() < 0.5)):
                                    continue
                                if quick and rng.random() < (0.5 if s != shapes[0] else 0.2):
                                    continue
                                yield dict(base, fn=fn, shape=s, rank=R, seed=rng.randrange(10 ** 6), init=init, n_iter_max=nit,
                                           tol=tol, normalize_factors=nf, callback=(fn == "parafac" and rng.random() < 0.5))
    # third exit of parafac: the callback asks to stop after sweep cb_stop
    for s in shapes[:2] if quick else shapes:
        for init in ("random", "svd", "user"):
            for nf in (True, False):
                for tol in (1e10, 0, 1e-3):
                    for nit, cb in ((1, 0), (3, 0), (3, 1), (3, 2), (4, 3), (2, 5)):
                        if quick and rng.random() < 0.5:
                            continue
                        yield dict(base, fn="parafac", shape=s, rank=2, seed=rng.randrange(10 ** 6), init=init, n_iter_max=nit, tol=tol,
                                   normalize_factors=nf, callback=True, cb_stop=cb)
    # seeded-defect class: a user initialisation with NON-unit weights (incl. the fed-back result of a normalised run), every cap, both exits
    for fn in CPFUNS:
        for s in shapes[:2]:
            for nf in (False, True):
                for tol, nit in ((0, 0), (0, 1), (0, 3), (1e10, 0), (1e10, 1), (1e10, 4), (1e-3, 8)):
                    if quick and nf and rng.random() < 0.5:
                        continue
                    yield dict(base, fn=fn, shape=s, rank=2, seed=rng.randrange(10 ** 6), init="refit", n_iter_max=nit, tol=tol,
                               normalize_factors=nf, callback=(fn == "parafac" and rng.random() < 0.5))
    # option combinations that reshape the sweep (orthogonalisation, line search, ridge term, missing values, HALS variants)
    optsets = [("parafac", dict(orthogonalise=True)), ("parafac", dict(orthogonalise=2)), ("parafac", dict(linesearch=True)),
               ("parafac", dict(l2_reg=0.1)), ("parafac", dict(mask=True)), ("parafac", {"complex": "complex128"}), ("parafac", {"complex": "complex64"}), ("parafac", dict(sparsity=0.2)), ("parafac", dict(sparsity=3, mask=True)), ("parafac", dict(linesearch=True, orthogonalise=True, l2_reg=0.01)),
               ("non_negative_parafac", dict(mask=True)), ("non_negative_parafac_hals", dict(nn_modes=[0])),
               ("non_negative_parafac_hals", dict(sparsity_coefficients=[0.05, None, 0.05]))]     # (exact=True costs ~20 s per run)
    for fn, opts in optsets:
        for init in ("random", "user") if quick else ("random", "svd", "user"):
            for nf in (True, False):
                for tol, nit in ((0, 9), (1e10, 9), (1e-3, 12), (0, 1)):
                    if quick and rng.random() < 0.5:
                        continue
                    yield dict(base, fn=fn, shape=(3, 4, 2), rank=2, seed=rng.randrange(10 ** 6), init=init, n_iter_max=nit, tol=tol,
                               normalize_factors=nf, callback=(fn == "parafac" and rng.random() < 0.5), opts=opts)
    # fixed modes (parafac returns the initialisation when every mode is fixed; the last mode cannot be fixed otherwise)
    for fn in CPFUNS:
        for s in shapes[:2] if quick else shapes[:4]:
            n = len(s)
            fixes = [[0], list(range(n)), [n - 1]] + ([[0, 1]] if n > 2 else [])
            for fx in fixes:
                if fn == "non_negative_parafac_hals" and len(fx) == n:
                    continue                    # HALS with every mode fixed has no mode to evaluate the error on
                for init in ("random", "user"):
                    for nf in (True, False):
                        for tol, nit in ((0, 2), (1e10, 3), (0, 0)):
                            if quick and rng.random() < 0.4:
                                continue
                            yield dict(base, fn=fn, shape=s, rank=2, seed=rng.randrange(10 ** 6), init=init, n_iter_max=nit, tol=tol,
                                       normalize_factors=nf, callback=False, fixed=fx)


def _all_fixed(i):
    return i.get("fn") == "parafac" and list(i.get("fixed") or []) == list(range(len(i.get("shape", []))))


# the classes "user initialisation and no sweep", "callback stop" of the CP drivers (repaired by 3de556b) and "convergence exit" /
# "cap 0" of non_negative_tucker(_hals) / parafac2 (repaired by 1c1a684) are kept as corpus inputs (corpus/C08/normalisation_exits.json)
# the classes "SVD initialisation with svd='symeig_svd' on complex data and no sweep" (repaired by d995974) and "partial_tucker, random
# initialisation, no sweep, mode subset / permuted modes" (repaired by 7b9d0bb) are generated on every run (tucker_cases)
CLASSIFIERS = {}


def _install_known_loader():
    """known_findings.json is assembled by the coordinator from known_findings.d/*.json; read this property's own
    snippet as well so that the classification does not depend on when that merge last ran (local helper)"""
    import json, os
    orig = C.load_known

    def load(prop):
        known = list(orig(prop))
        fn = os.path.join(C.VERIF, "known_findings.d", f"{prop}.json")
        if os.path.exists(fn):
            ids = {k.get("id") for k in known}
            for k in json.load(open(fn)).get("findings", []):
                if k.get("property") == prop and k.get("id") not in ids:
                    known.append(k)
        return known
    C.load_known = load
    return orig


# ----------------------------------------------------------------------------- driver
def run(chk):
    rng = random.Random(chk.seed)
    chk.build_proofs()
    # common.print_assumptions also captures the header line "Axioms:" that Coq prints before the list; it is not an axiom
    chk.axioms = {k: [a for a in v if a != "Axioms"] for k, v in chk.axioms.items()}
    chk.broken = [b for b in chk.broken if not (str(b.get("what", "")).endswith("depends on non-stdlib axioms")
                                                 and not C.own_axioms([a for a in b.get("detail", []) if a != "Axioms"]))]
    C.reset_backends()
    orig_loader = _install_known_loader()
    try:
        return _run(chk, rng)
    finally:
        C.load_known = orig_loader


def _run(chk, rng):
    import time
    tier = chk.tier
    t_start, c_start = time.time(), time.process_time()
    chk.notes.append(f"build+Print Assumptions: {t_start - chk.t0:.1f}s wall")
    cases, meta, skipped, timeouts = [], [], 0, 0
    Q_BUDGET["complex_tucker"] = 10 if tier == "quick" else 50
    for case in gen_cases(tier, rng):
        kind, s, spec, kw = case["kind"], case["shape"], case["spec"], case["kw"]
        case["seed"] = rng.randrange(10 ** 6)
        c, skip = oracle_for(case)
        if skip:
            skipped += 1
            continue
        pyspec = list(spec) if isinstance(spec, tuple) else spec
        if kind.startswith("D") and zero_rank(case):
            skipped += 1          # a validated rank of 0 is outside the model (the validators themselves are compared on it)
            continue
        sspy = None
        if kind.startswith("V"):
            st, v = C.call_impl(obs_validator, kind, s, pyspec, timeout=60, **kw)
            shapes, out = (v, None) if st == "ok" else (None, None)
        else:
            sspy = SvdSpy("tensorly.decomposition._tr_svd" if kind == "DTr" else "tensorly.decomposition._tt") if kind in ("DTt", "DTr", "DTtm") else None
            st, v = C.call_impl(run_decomp, kind, s, pyspec, case["seed"], timeout=60, _spy=sspy, **kw)
            shapes, out = v if st == "ok" else (None, None)
        if st != "ok" and str(v) == "timeout":
            timeouts += 1         # loaded machine: never a verdict
            continue
        if st != "ok" and str(v).startswith("LinAlgError"):
            skipped += 1          # numerically singular sub-problem (data dependent), not a structural outcome
            continue
        cid = len(cases)
        cases.append(f"({cid}%N, {op_lit(case, c)}, {shapes_lit(st, shapes)})")
        meta.append(case)
        key_spec = spec if not isinstance(spec, float) else ("frac", spec)
        chk.count(key=(kind, s, key_spec, tuple(sorted((k, str(v_)) for k, v_ in kw.items()))), nontrivial=prod([d for d in (s if kind not in ("DParafac2", "DCmtf") else [2])]) > 1)
        chk.hist("entry_point", kind); chk.hist("outcome", st)
        chk.hist("spec_kind", "int" if isinstance(spec, int) else "list" if isinstance(spec, tuple) else "same" if spec == "same" else "fraction")
        if cid % 701 == 0:
            chk.sample({"entry": ENTRY[kind], "shape": list(s), "rank": str(spec), "options": {k: str(v_) for k, v_ in kw.items()},
                        "outcome": st, "observed_shapes": [list(x) for x in shapes] if shapes else str(v)[:100]})
        if st == "ok" and out is not None:
            if kind in ("DTt", "DTr", "DParafac2", "DTucker") and (cid % (16 if tier == "quick" else 14) == 0 or ((str(kw.get("data", "")).startswith("complex") or "svd" in kw) and cid % 3 == 0)):
                for mk in q_cases_for(case, out, cid):
                    qid = len(cases)
                    cases.append(mk(qid))
                    meta.append(dict(kind="Q", shape=s, spec=spec, kw=dict(kw, of=kind)))
                    chk.hist("q_checks", kind)
            if sspy is not None and (tier != "quick" or cid % 3 == 0):
                # the SVD calls of the TT / TR / TT-matrix loop vs Model/StructureHooi.v tt_calls / tr_calls, and where the cores come from
                lit, (sf1, sf2) = svd_calls_lit(len(cases), case, c, sspy, out)
                cases.append(lit)
                meta.append(dict(kind="SvdCalls", shape=s, spec=spec, kw=dict(kw, of=kind)))
                chk.hist("svd_call_logs", kind)
                if not (sf1 and sf2):
                    chk.finding(ENTRY[kind], dict(kind=kind, shape=list(s), spec=(list(spec) if isinstance(spec, tuple) else spec), kw=kw, seed=case["seed"], svd_calls=True),
                                ("a core other than the last is not the reshaped U of its SVD call" if not sf1 else "the last core is not the reshaped S * V of the last SVD call"),
                                "C08_tt_cores_from_svd")
            r = pred_structure(case, shapes, out)
            chk.cov["evaluations"] += 1
            if r:
                msg, pred = r
                chk.finding(ENTRY[kind], dict(kind=kind, shape=list(s), spec=(list(spec) if isinstance(spec, tuple) else spec), kw=kw, seed=case["seed"]), msg, pred,
                            observed=[list(x) for x in shapes])
    # ---- the loop of tensor_ring_als on every stopping path (Model/StructureTrAls.v): returned core shapes + the lstsq systems of the first sweep
    for case in tr_als_loop_cases(tier, rng):
        s, spec, kw = case["shape"], case["spec"], case["kw"]
        case["seed"] = rng.randrange(10 ** 6)
        c, skip = oracle_for(case)
        if skip or zero_rank(case):
            skipped += 1
            continue
        tspy = TrAlsSpy()
        st, v = C.call_impl(run_decomp, "DTrAls", s, list(spec) if isinstance(spec, tuple) else spec, case["seed"], timeout=60, _spy=tspy, **kw)
        if st != "ok" and str(v) == "timeout":
            timeouts += 1
            continue
        if st != "ok" and str(v).startswith("LinAlgError") and ("ingular" in str(v) or "converge" in str(v)):
            skipped += 1          # singular normal equations / non-finite iterates (data dependent); any other LinAlgError (incompatible dimensions) is a structural outcome
            continue
        shapes, out = v if st == "ok" else (None, None)
        cid = len(cases)
        lit, what_obs = tr_als_loop_lit(cid, case, st, shapes, tspy)
        cases.append(lit)
        meta.append(dict(kind="DTrAlsLoop", shape=s, spec=spec, kw=kw))
        chk.count(key=("tr_als_loop", s, spec if not isinstance(spec, float) else ("frac", spec), tuple(sorted((k, str(v_)) for k, v_ in kw.items()))), nontrivial=prod(s) > 1)
        chk.hist("entry_point", "DTrAlsLoop"); chk.hist("tr_als_loop", what_obs)
        if st == "ok":
            chk.cov["evaluations"] += 1
            r = pred_structure(case, shapes, out)
            if r:
                chk.finding(ENTRY["DTrAls"], dict(kind="DTrAls", shape=list(s), spec=(list(spec) if isinstance(spec, tuple) else spec), kw=kw, seed=case["seed"]), r[0], r[1],
                            observed=[list(x) for x in shapes])
    # ---- the loop of CMTF with at least one sweep (Model/StructureCmtf.v): returned shapes + the four lstsq systems of the first sweep
    for case in cmtf_loop_cases(tier, rng):
        s, spec, kw = case["shape"], case["spec"], case["kw"]
        case["seed"] = rng.randrange(10 ** 6)
        if zero_rank(case):
            skipped += 1
            continue
        cspy = TrAlsSpy("tensorly.decomposition._cmtf_als")
        st, v = C.call_impl(run_decomp, "DCmtf", s, spec, case["seed"], timeout=60, _spy=cspy, **kw)
        if st != "ok" and str(v) == "timeout":
            timeouts += 1
            continue
        if st != "ok" and str(v).startswith("LinAlgError") and ("ingular" in str(v) or "converge" in str(v)):
            skipped += 1
            continue
        shapes, out = v if st == "ok" else (None, None)
        cid = len(cases)
        lit, what_obs = cmtf_loop_lit(cid, case, st, shapes, cspy)
        cases.append(lit)
        meta.append(dict(kind="DCmtfLoop", shape=s[0], spec=spec, kw=dict(kw, m=s[1])))
        chk.count(key=("cmtf_loop", s, spec if not isinstance(spec, float) else ("frac", spec), tuple(sorted((k, str(v_)) for k, v_ in kw.items()))), nontrivial=prod(s[0]) > 1)
        chk.hist("entry_point", "DCmtfLoop"); chk.hist("cmtf_loop", what_obs)
        if st == "ok":
            chk.cov["evaluations"] += 1
            r = pred_structure(case, shapes, out)
            if r:
                chk.finding(ENTRY["DCmtf"], dict(kind="DCmtf", shape=[list(s[0]), s[1]], spec=spec, kw=kw, seed=case["seed"]), r[0], r[1], observed=[list(x) for x in shapes])
    # ---- validate_tucker_rank with fixed_modes (Model/StructureRanks.v)
    for case in vfm_cases(tier, rng):
        s, spec, kw = case["shape"], case["spec"], case["kw"]
        q_ = frac_of(spec)
        c = Fraction(0)
        if q_ is not None:
            if kw["fixed_modes"] is None:
                c, skip = oracle_for(dict(case, kind="VTucker"))
            else:
                stat_, c, free_ = tucker_fm_root(tuple(s), tuple(kw["fixed_modes"]), q_)
                skip = stat_ == "ok" and any(near_boundary(d * c, kw["rounding"]) for d in free_)
            if skip:
                skipped += 1
                continue
        st, v = C.call_impl(run_vfm_case, case, timeout=60)
        if st != "ok" and str(v) == "timeout":
            timeouts += 1
            continue
        cid = len(cases)
        cases.append(vfm_lit(cid, case, c, st, v))
        meta.append(case)
        chk.count(key=("VTuckerFm", s, spec if not isinstance(spec, float) else ("frac", spec), kw["rounding"], None if kw["fixed_modes"] is None else tuple(kw["fixed_modes"])),
                  nontrivial=prod(s) > 1)
        chk.hist("entry_point", "VTuckerFm"); chk.hist("outcome", st)
        chk.hist("fixed_modes", "None" if kw["fixed_modes"] is None else "duplicates" if len(set(kw["fixed_modes"])) != len(kw["fixed_modes"]) else
                 "out of range" if any(m >= len(s) for m in kw["fixed_modes"]) else "all" if len(kw["fixed_modes"]) == len(s) else "subset")
        if st == "ok":
            chk.cov["evaluations"] += 1
            r = pred_vfm(case, v)
            if r:
                chk.finding(ENTRY["VTuckerFm"], dict(kind="VTuckerFm", shape=list(s), spec=(list(spec) if isinstance(spec, tuple) else spec), kw=kw, seed=0), r[0], r[1], observed=v)
    # ---- normalisation contract: every exit (cap incl. 0 and 1, convergence, callback stop, all modes fixed)
    n_norm = 0
    for nc in corpus_norm_cases() + list(norm_cases(tier, rng)):
        res = run_norm_case(nc)
        if res["st"] != "ok" and str(res["out"]) == "timeout":
            timeouts += 1
            continue
        if res["st"] != "ok" and str(res["out"]).startswith("LinAlgError"):
            skipped += 1          # singular normal equations (data / rank dependent): ill-conditioned, not a verdict
            continue
        n_norm += 1
        exit_kind = ("all_fixed" if _all_fixed(nc) else "callback" if res["cb_fired"] else "cap0" if nc["n_iter_max"] == 0 else
                     "convergence" if (res["errors"] is not None and nc["tol"] and len(res["errors"]) < nc["n_iter_max"]) else "cap")
        chk.count(key=("norm", nc["fn"], nc["shape"], nc["rank"], nc["init"], nc["n_iter_max"], nc["tol"], nc["normalize_factors"],
                       nc.get("cb_stop"), tuple(nc.get("fixed") or ()), str(sorted((nc.get("opts") or {}).items()))))
        chk.hist("norm_exit", exit_kind)
        if res["st"] == "ok":
            cid = len(cases)
            cases.append(norm_case_lit(cid, nc, res))
            meta.append(dict(kind="DNorm", shape=nc["shape"], spec=nc["rank"], kw={k: v for k, v in nc.items() if k not in ("shape", "rank")}))
        r = pred_norm(nc, res)
        if r:
            msg, pred = r
            inputs = {k: (list(v) if isinstance(v, tuple) else v) for k, v in nc.items()}
            inputs["cb_fired"] = res["cb_fired"]
            out = res["out"]
            chk.finding(f"tensorly.decomposition.{nc['fn']}", inputs, msg, pred,
                        observed=None if res["st"] != "ok" else {"weights": out.weights, "column_norms": [np.linalg.norm(f, axis=0) for f in out.factors]})
    # ---- Tucker / partial_tucker on every stopping path, with fixed factors, mask, the three SVD methods
    for tc in corpus_norm_cases("tucker_cases") + list(tucker_cases(tier, rng)):
        hspy = HooiSpy()
        st, out, X, fixed_in = run_tucker_case(tc, hspy)
        if st != "ok" and (str(out) == "timeout" or str(out).startswith("LinAlgError")):
            timeouts += str(out) == "timeout"; skipped += str(out) != "timeout"
            continue
        chk.count(key=("tucker", tc["entry"], tc["shape"], tuple(tc["modes"] or ()), tuple(tc["rank"]), tc["init"], str(tc["tol"]), tc["n_iter_max"], tc["svd"],
                       tuple(tc["fixed"] or ()), tc["mask"], tc.get("dtype", "float64")))
        chk.hist("tucker_exit", "cap (tol falsy)" if not tc["tol"] else "tol set")
        chk.hist("svd_method", tc["svd"]); chk.hist("tucker_dtype", tc.get("dtype", "float64"))
        if not tc["mask"] and (tc["entry"] == "partial_tucker" or tc["fixed"] is not None):
            cid = len(cases)
            n_ = len(tc["shape"])
            if tc["fixed"] is not None:
                opl = f"(DTuckerFixed {C.nat_list(list(tc['shape']))} {C.nat_list(tc['rank'])} {C.nat_list(tc['fixed'])})"
            elif tc["init"] == "random" and tc["n_iter_max"] == 0:
                opl = f"(DPartialTuckerRandom0 {C.nat_list(list(tc['shape']))} {C.nat_list(tc['rank'])} {C.nat_list(list(range(n_)) if tc['modes'] is None else tc['modes'])})"
            elif tc.get("rank_spec"):
                spl = "None" if tc["rank_spec"] == "none" else f"(Some (RInt {C.nat(tc['rank'][0])}))"
                opl = f"(DPartialTuckerSpec {C.nat_list(list(tc['shape']))} {spl} {C.nat_list(list(range(n_)) if tc['modes'] is None else tc['modes'])})"
            else:
                opl = f"(DPartialTucker {C.nat_list(list(tc['shape']))} {C.nat_list(tc['rank'])} {C.nat_list(list(range(n_)) if tc['modes'] is None else tc['modes'])})"
            obs = [shp(out[0])] + [shp(f) for f in out[1]] if st == "ok" else None
            cases.append(f"({cid}%N, {opl}, {shapes_lit(st, obs)})")
            meta.append(dict(kind="DTuckerX", shape=tc["shape"], spec=tc["rank"], kw={k: v for k, v in tc.items() if k not in ("shape", "rank")}))
        if st == "ok" and not hspy.log and (tc["n_iter_max"] > 0 or tc["init"] == "svd") and not (tc["fixed"] is not None and len(set(tc["fixed"])) >= len(tc["shape"])):
            skipped += 1                 # the driver no longer goes through svd_interface / multi_mode_dot: the skeleton is not observable
            chk.hist("hooi_trace", "not observable (skipped)")
        elif st == "ok":
            # the HOOI skeleton: call log of svd_interface / multi_mode_dot vs Model/StructureHooi.v (decisions: answer tape)
            hid = len(cases)
            lit, (hf1, hf2) = hooi_case_lit(hid, tc, hspy, out)
            cases.append(lit)
            meta.append(dict(kind="DHooi", shape=tc["shape"], spec=tc["rank"], kw={k: v for k, v in tc.items() if k not in ("shape", "rank")}))
            chk.hist("hooi_trace", tc["entry"] + (":fixed" if tc["fixed"] is not None else "") + (":mask" if tc["mask"] else ""))
            r = pred_hooi(tc, hf1, hf2)
            if r is None and tc["mask"]:
                r = pred_imputed(tc, hspy, X, getattr(hspy, "mask_used", None))
                chk.hist("hooi_imputed_tensor", "checked" if hspy.proj_rec is not None else "no sweep")
            if r:
                chk.finding("tensorly.decomposition." + tc["entry"], dict({k: (list(v) if isinstance(v, tuple) else v) for k, v in tc.items()}, tucker_case=True, hooi_pred=True), r[0], r[1])
        cx_ = str(tc.get("dtype", "")).startswith("complex")
        no_sweep_user_ = tc["init"] == "user" and (tc["n_iter_max"] == 0 or (tc["fixed"] is not None and len(set(tc["fixed"])) >= len(tc["shape"])))
        if st == "ok" and not tc["mask"] and prod(tc["shape"]) <= (24 if cx_ else 36) and tc["seed"] % 3 == 0 \
                and not no_sweep_user_ and not (tc["init"] == "random" and tc["n_iter_max"] == 0) \
                and (not cx_ or tc["seed"] % (9 if tier == "quick" else 6) == 0):                    # quick: about a third of the complex outputs (~1 s of Coq time each)      # ~0.3 s of exact arithmetic each
            qid = len(cases)
            modes_ = list(range(len(tc["shape"]))) if tc["modes"] is None else list(tc["modes"])
            cases.append(qtucker_lit(qid, X, out[0], out[1], modes_, tol_orth=(2e-3 if (tc["svd"] == "symeig_svd" and tol_for(X) > TOL) else 1e-6 if tc["svd"] == "symeig_svd" else None)))
            meta.append(dict(kind="Q", shape=tc["shape"], spec=tc["rank"], kw={k: v for k, v in tc.items() if k not in ("shape", "rank")}))
            chk.hist("q_checks", tc["entry"])
        r = pred_tucker_case(tc, st, out, X, fixed_in)
        if r:
            msg, pred = r
            chk.finding("tensorly.decomposition." + tc["entry"], dict({k: (list(v) if isinstance(v, tuple) else v) for k, v in tc.items()}, tucker_case=True), msg, pred)
    # ---- the same contract for non_negative_tucker(_hals) (scale in the core), parafac2 and CMTF
    for nc in corpus_norm_cases("norm2_cases") + list(norm2_cases(tier, rng)):
        res = run_norm2_case(nc)
        if res["st"] != "ok" and str(res["out"]) == "timeout":
            timeouts += 1
            continue
        if res["st"] != "ok" and str(res["out"]).startswith("LinAlgError"):
            skipped += 1
            continue
        n_norm += 1
        if nc["fn"] in FN2 and res["st"] == "ok":
            exit_kind = "cap0" if nc["n_iter_max"] == 0 else "convergence" if norm2_decisions(nc, res)[2] else "cap"
        else:
            exit_kind = "cap0" if nc["n_iter_max"] == 0 else "cap_or_convergence"
        chk.count(key=("norm2", nc["fn"], nc["shape"], nc["rank"], nc["init"], nc["n_iter_max"], nc["tol"], nc["normalize_factors"]))
        chk.hist("norm_exit", nc["fn"] + ":" + exit_kind)
        if res["st"] == "ok" and nc["fn"] in FN2:
            cid = len(cases)
            cases.append(norm2_case_lit(cid, nc, res))
            meta.append(dict(kind="DNorm", shape=nc["shape"], spec=nc["rank"], kw={k_: v for k_, v in nc.items() if k_ not in ("shape", "rank")}))
        if res["st"] == "ok" and nc["fn"] == "parafac2" and res.get("p2spy") is not None:
            cid = len(cases)
            lit, p_idx = p2_calls_lit(cid, nc, res, res["p2spy"])
            cases.append(lit)
            meta.append(dict(kind="P2Calls", shape=nc["shape"], spec=nc["rank"], kw={k_: v for k_, v in nc.items() if k_ not in ("shape", "rank")}))
            chk.hist("parafac2_projection_calls", ("linesearch" if nc.get("linesearch") else "plain") + (":nn" if nc.get("nn_modes") else ""))
        r = pred_norm2(nc, res)
        if r:
            msg, pred = r
            inputs = {k_: (list(v) if isinstance(v, tuple) else v) for k_, v in nc.items()}
            inputs["exit"] = exit_kind
            chk.finding(f"tensorly.decomposition.{nc['fn']}" if nc["fn"] != "cmtf" else ENTRY["DCmtf"], inputs, msg, pred)
    # ---- loop skeletons extracted from the source of the six drivers
    descs, cp_ok = extract_all(C.REPO)
    chk.cov["skeletons_from_source"] = {k: (list(v) if v else None) for k, v in descs.items()}
    for fn_, d_ in descs.items():
        if d_ is None:
            # fail closed: a driver whose loop the extractor does not recognise is a broken tie, not a skipped case
            chk.broken.append({"what": f"tie corr:C08 (source of {fn_} -> loop description) broken: the loop skeleton was not recognised", "detail": fn_})
            continue
        cid = len(cases)
        cases.append(desc_lit(cid, fn_, d_))
        meta.append(dict(kind="Desc", shape=(), spec=fn_, kw=dict(fn=fn_, desc=str(d_))))
        chk.count(key=("skeleton", fn_, d_))
    # ---- the assignments to the CP weights translated from the source of the three CP drivers
    chk.cov["weights_programs_from_source"] = {}
    for fn_, path_ in DRIVER_SOURCES[:3]:
        try:
            wl, wvars, wlits = extract_weights_prog(C.REPO, path_, fn_)
            chk.cov["weights_programs_from_source"][fn_] = {"variables": wvars, "program": wlits}
            cid = len(cases)
            cases.append(f"({cid}%N, (DWprog {wl}), {QOK})")
            meta.append(dict(kind="Wprog", shape=(), spec=fn_, kw=dict(fn=fn_, program=wl)))
            chk.count(key=("weights_program", fn_, wl))
        except Untranslatable as e:
            chk.broken.append({"what": f"tie corr:C08 (source of {fn_} -> weights program) broken: an assignment to the weights could not be translated", "detail": str(e)})
    # ---- the paths of initialize_cp (the initial CP weights) translated from the source
    try:
        ilit, ipaths = extract_init_cp_paths(C.REPO)
        chk.cov["initialize_cp_paths_from_source"] = ipaths
        cid = len(cases)
        cases.append(f"({cid}%N, (DIpaths {ilit}), {QOK})")
        meta.append(dict(kind="Ipaths", shape=(), spec="initialize_cp", kw=dict(fn="initialize_cp", program=ilit)))
        chk.count(key=("initialize_cp_paths", ilit))
    except Untranslatable as e:
        chk.broken.append({"what": "tie corr:C08 (source of initialize_cp -> paths) broken: a statement assigning the CP tensor could not be translated", "detail": str(e)})
    # ---- the loop of partial_tucker translated from the source
    try:
        plit, pbody, pinit = extract_hooi_prog(C.REPO)
        chk.cov["hooi_program_from_source"] = {"init_svd_projects": pinit, "body": pbody}
        cid = len(cases)
        cases.append(f"({cid}%N, (DHprog {plit}), {QOK})")
        meta.append(dict(kind="Hprog", shape=(), spec="partial_tucker", kw=dict(fn="partial_tucker", program=plit)))
        chk.count(key=("hooi_program", plit))
    except Untranslatable as e:
        chk.broken.append({"what": "tie corr:C08 (source of partial_tucker -> hprog) broken: the loop could not be translated", "detail": str(e)})
    # ---- cp_normalize itself
    for cc in cp_normalize_cases(tier, rng):
        st, out, before = run_cp_normalize_case(cc)
        if st != "ok" and str(out) == "timeout":
            timeouts += 1
            continue
        chk.count(key=("cp_normalize", cc["shape"], cc["rank"], cc["weights"], cc["zero_col"] is not None), nontrivial=prod(cc["shape"]) * cc["rank"] > 1)
        chk.hist("entry_point", "cp_normalize")
        if st == "ok" and prod(cc["shape"]) <= 60 and not cc.get("cdtype"):
            qid = len(cases)
            cases.append(qcpnorm_lit(qid, *cp_normalize_inputs(cc), out[0], out[1]))
            meta.append(dict(kind="Q", shape=cc["shape"], spec=cc["rank"], kw={k: v for k, v in cc.items() if k not in ("shape", "rank")}))
            chk.hist("q_checks", "cp_normalize")
        r = pred_cp_normalize(cc, st, out, before)
        if r:
            msg, pred = r
            chk.finding("tensorly.cp_tensor.cp_normalize", {k: (list(v) if isinstance(v, tuple) else v) for k, v in cc.items()}, msg, pred,
                        observed=None if st != "ok" else {"weights": out[0], "column_norms": [np.linalg.norm(f, axis=0) for f in out[1]]})
        # tucker_normalize on a Tucker tensor of the same shape
        if len(cc["shape"]) < 2:
            continue                                    # a Tucker tensor has at least two factors
        st, out, before, ranks = run_tucker_normalize_case(cc)
        if not (st != "ok" and str(out) == "timeout"):
            chk.count(key=("tucker_normalize", cc["shape"], cc["rank"], cc["zero_col"] is not None), nontrivial=prod(cc["shape"]) > 1)
            chk.hist("entry_point", "tucker_normalize")
            r = pred_tucker_normalize(cc, st, out, before, ranks)
            if r:
                msg, pred = r
                chk.finding("tensorly.tucker_tensor.tucker_normalize", dict({k: (list(v) if isinstance(v, tuple) else v) for k, v in cc.items()}, tucker=True), msg, pred)
    t_impl = time.time()
    chk.notes.append(f"implementation runs + predicates: {t_impl - t_start:.1f}s wall, {time.process_time() - c_start:.1f}s cpu")
    failing, n_eval, broken = C.run_case_shards("C08", HEADER, "case", cases, shard=300, timeout=900)
    chk.notes.append(f"coqc shards ({len(cases)} cases): {time.time() - t_impl:.1f}s wall")
    chk.checker_cmds.append("coqc (vm_compute) on generated build/cases/C08/*.v: Corr.C08.failing")
    for b in broken:
        chk.broken.append({"what": "correspondence corr:C08 shard not evaluated", "detail": b})
    for i in sorted(failing):
        m = meta[i]
        what = ("corr:C08 (Model/Structure.v cp_run vs control flow of the CP drivers)" if m["kind"] == "DNorm" else
                "corr:C08 (Model/Structure.v partial_tucker / tucker_fixed vs the implementation's shapes)" if m["kind"] == "DTuckerX" else
                "corr:C08 (Model/StructureHooi.v tt_calls / tr_calls vs the svd_interface calls of tensor_train / tensor_ring / tensor_train_matrix)" if m["kind"] == "SvdCalls" else
                "corr:C08 (Model/StructureCmtf.v cmtf_run / cmtf_sweep vs the returned shapes and the four lstsq systems of the first sweep of coupled_matrix_tensor_3d_factorization)" if m["kind"] == "DCmtfLoop" else
                "corr:C08 (Model/StructureTrAls.v tr_als_run / tr_als_sweep_log vs the returned core shapes and the lstsq systems of the first sweep of tensor_ring_als)" if m["kind"] == "DTrAlsLoop" else
                "corr:C08 (Model/StructureHooi.v hooi_run vs the call log of svd_interface / multi_mode_dot in tucker / partial_tucker)" if m["kind"] == "DHooi" else
                "corr:C08 (loop skeleton read off the source does not satisfy desc_ok: some exit returns un-normalised factors)" if m["kind"] == "Desc" else
                "corr:C08 (Model/StructureHooi.v p2o_run vs the _compute_projections calls of parafac2: number of calls / which call's output is returned)" if m["kind"] == "P2Calls" else
                "corr:C08 (the assignments to the CP weights translated from the source do not satisfy wprog_ok: a cp_normalize outside `if normalize_factors`)" if m["kind"] == "Wprog" else
                "corr:C08 (a path of initialize_cp translated from the source does not satisfy ipath_ones: with normalize_factors=False it can return weights that are not all ones)" if m["kind"] == "Ipaths" else
                "corr:C08 (the loop of partial_tucker translated from the source does not satisfy prog_ok: some exit returns a core that is not the projection onto the returned factors)" if m["kind"] == "Hprog" else
                "corr:C08 (Model/StructureQ.v: orthonormality / core = projection / cp_normalize evaluated exactly on the outputs)" if m["kind"] == "Q" else
                "corr:C08 (Model/Structure.v vs rank validators / decomposition shape flow)")
        chk.disagreement(what, {"entry": ENTRY.get(m["kind"], "tensorly.decomposition." + str(m["kw"].get("fn") or m["kw"].get("entry"))), "shape": list(m["shape"]), "rank": str(m["spec"]),
                                "options": {k: str(v) for k, v in m["kw"].items()}, "case": cases[i][:400]})
    chk.cov["traces_validated_against_impl"] = n_eval
    chk.cov["skipped_ill_conditioned"] = skipped
    chk.cov["skipped_timeouts"] = timeouts
    chk.cov["normalisation_runs"] = n_norm
    chk.cov["exhaustive"] = False
    chk.cov["rule"] = ("shape correspondence: every shape of order 1-3 over a small set of mode sizes (+ random order 4-6 shapes) x every validator x "
                       "rank spec in {int, valid/invalid lists, 'same', dyadic fractions} x rounding mode x (constant_rank, allow_overparametrization); "
                       "every decomposition (tensor_train, tensor_train_matrix, tensor_ring x every mode, tucker x init x n_iter, parafac / non_negative_parafac / "
                       "non_negative_parafac_hals, parafac2, tensor_ring_als, CMTF) on shapes of order 2-5 over mode sizes {1,2,3(,4)}; fractions whose "
                       "rounded product lies within 1e-8 of a rounding boundary are skipped (counted); normalisation contract: 3 drivers x shapes x "
                       "init {random, svd, user} x normalize on/off x tol {1e10 (convergence exit at iteration 1), 0 (cap exit), 1e-3 (data dependent)} x "
                       "n_iter_max {0,1,2,3,6}, plus parafac callback stops after sweep 0..3 and fixed_modes (one, several, last, all); each run is also "
                       "compared with the model's control flow (Corr.C08 DNorm: sweeps executed, result is a cp_normalize output, cp_normalize applied at all); "
                       "distinct key = (entry point, shape, rank spec, options); non-trivial = more than one tensor entry")
    chk.assumptions = ["np.round/np.floor/np.ceil on the generated dyadic fractions are exact (products below 2^53, quotient at least 1e-8 from a rounding boundary or exactly on it)",
                       "rank 0 and size-0 modes are outside the model",
                       "truncated_svd is the SVD method (the shape model of svd_interface covers method='truncated_svd')"]
    chk.trusted += ["oracles: root of the Tucker parameter-count polynomial (brentq in the code, exact bisection in the harness) and the TT quadratic root "
                    "(closed form in the code, 40-digit integer square root in the harness); their defining equations are re-evaluated on the answer inside Coq (Corr.C08.oracle_ok)",
                    "LAPACK SVD / solve / lstsq inside the decompositions are not modelled: only shapes flow through the model; orthonormality is checked on the implementation's outputs by the Python predicates (tolerance 1e-8) and proved over R from the SVD contract",
                    "the decision sequence of a CP run (callback answers, convergence test outcomes) is taken from the implementation (answer tape); cp_normalize calls are observed by rebinding the module attribute from the harness"]
    return chk.finish(CLASSIFIERS)


def corpus_norm_cases(which="norm_cases"):
    """minimised past failing inputs (corpus/C08/*.json), run first"""
    import glob, json, os
    out = []
    for fn in sorted(glob.glob(os.path.join(C.VERIF, "corpus", "C08", "*.json"))):
        try:
            d = json.load(open(fn))
        except Exception:
            continue
        for nc in d.get(which, []):
            nc = dict(nc)
            nc["shape"] = tuple(tuple(x) if isinstance(x, list) else x for x in nc["shape"])
            if isinstance(nc["rank"], list):
                nc["rank"] = tuple(nc["rank"])
            if which == "tucker_cases":
                nc["rank"] = list(nc["rank"])
            if which == "norm_cases":
                nc.setdefault("cb_stop", None); nc.setdefault("fixed", None); nc.setdefault("callback", False)
            out.append(nc)
    return out


def replay(payload):
    if payload.get("kind") != "failing-input":
        print("replay file names a broken theorem/correspondence, not an input:", payload.get("theorem_or_correspondence"))
        return 1
    C.reset_backends()
    inp = payload["inputs"]
    if inp.get("tucker_case"):
        tc = dict(inp); tc.pop("tucker_case"); hp = tc.pop("hooi_pred", False)
        hspy = HooiSpy()
        res = run_tucker_case(tc, hspy)
        r = pred_tucker_case(tc, *res)
        if r is None and hp and res[0] == "ok":
            r = pred_hooi(tc, *hooi_case_lit(0, tc, hspy, res[1])[1])
            if r is None and tc["mask"]:
                r = pred_imputed(tc, hspy, res[2], getattr(hspy, "mask_used", None))
    elif "zero_col" in inp and "weights" in inp:
        cc = dict(inp); cc["shape"] = tuple(cc["shape"]); cc["zero_col"] = tuple(cc["zero_col"]) if cc["zero_col"] is not None else None
        cc["tiny_col"] = tuple(cc["tiny_col"]) if cc.get("tiny_col") is not None else None
        if cc.pop("tucker", False):
            r = pred_tucker_normalize(cc, *run_tucker_normalize_case(cc))
        else:
            r = pred_cp_normalize(cc, *run_cp_normalize_case(cc))
    elif inp.get("fn") in ("non_negative_tucker", "non_negative_tucker_hals", "parafac2", "cmtf"):
        nc = dict(inp); nc.pop("exit", None)
        nc["shape"] = tuple(tuple(x) if isinstance(x, list) else x for x in nc["shape"])
        nc["rank"] = tuple(nc["rank"]) if isinstance(nc["rank"], list) else nc["rank"]
        r = pred_norm2(nc, run_norm2_case(nc))
    elif "fn" in inp and "normalize_factors" in inp:
        nc = dict(inp); nc["shape"] = tuple(nc["shape"]); nc.pop("cb_fired", None)
        res = run_norm_case(nc)
        r = pred_norm(nc, res)
    else:
        spec = inp["spec"]
        case = dict(kind=inp["kind"], shape=tuple(tuple(x) if isinstance(x, list) else x for x in inp["shape"]),
                    spec=tuple(spec) if isinstance(spec, list) else spec, kw=inp["kw"], seed=inp["seed"])
        pyspec = list(spec) if isinstance(spec, (list, tuple)) else spec
        if case["kind"] == "VTuckerFm":
            st, v = C.call_impl(run_vfm_case, case, timeout=60)
            r = pred_vfm(case, v) if st == "ok" else None
            print("replay:", inp, "->", r[0] if r else "holds")
            return 1 if r else 0
        sspy = SvdSpy("tensorly.decomposition._tr_svd" if case["kind"] == "DTr" else "tensorly.decomposition._tt") if inp.get("svd_calls") else None
        st, v = C.call_impl(run_decomp, case["kind"], case["shape"], pyspec, case["seed"], timeout=120, _spy=sspy, **case["kw"])
        if st != "ok":
            print("replay: raised", v)
            return 1
        r = pred_structure(case, v[0], v[1])
        if r is None and sspy is not None:
            f1, f2 = svd_calls_lit(0, case, Fraction(0), sspy, v[1])[1]
            r = None if (f1 and f2) else ("a core is not the reshaped output of its SVD call", "C08_tt_cores_from_svd")
    print("replay:", inp, "->", r[0] if r else "holds")
    return 1 if r else 0
