"""C09 -- SVD-based decompositions (tucker / tensor_train / tensor_train_matrix / tensor_ring):
exact at sufficient rank, else quasi-optimal.

Correspondence: Model/SvdDecomp.v run over Q with the LAPACK answers recorded from the real backend
(answer tape, NumpyBackend.register_method('svd', wrapper) -- no source change) against the
implementation's factors: reshape / slicing / sign-flip structure EXACT in Q, products toleranced,
every query matrix sent to the backend compared with the model's query at the same call index.
Predicates (tests, toleranced, evaluated on the implementation's outputs with singular values of the
unfoldings of X computed independently with numpy.linalg.svd): returned ranks respect the request,
exact reconstruction at sufficient rank, error <= sqrt(sum of discarded sigma^2) and >= largest single
discarded tail."""
import itertools, math, random
import numpy as np
from harness import common as C

HEADER = """From Coq Require Import List ZArith QArith Bool. Import ListNotations.
From TLV Require Import Base.Tensor Corr.C09.
Open Scope nat_scope."""

REL = 1e-9      # relative floor for "exact to rounding error"
SLACK = 1e-8    # multiplicative slack of the two bounds
TIMEOUT = 120   # seconds per implementation call (shared machine); a timeout is counted as skipped, never a verdict
_np_svd = np.linalg.svd   # independent oracle for the predicates (never routed through tensorly)


# ----------------------------------------------------------------------------- answer tape
class Tape:
    """records every call of the backend's svd (query, answer) without touching /repo"""

    def __init__(self):
        self.calls = []
        self.kept = []
        self.eigh_calls = []     # (Gram matrix sent to the backend's eigh, eigenvalues, eigenvectors)
        self.sym_calls = []      # (matrix, n_eigenvecs, U, S, V) of every tensorly.tenalg.svd.symeig_svd call
        self.qr_calls = []       # (query, Q) of every backend qr call
        self.omegas = []         # every array drawn through rng.normal of a generator handed out by tl.check_random_state
        self.rand_calls = []     # (matrix, n_eigenvecs, U, S, V, index of the first svd call made inside) of every randomized_svd call

    def __enter__(self):
        from tensorly.backend.numpy_backend import NumpyBackend
        self._cls = NumpyBackend
        self._old = NumpyBackend.__dict__["svd"]
        inner = np.linalg.svd

        def wrapper(matrix, full_matrices=True, **kw):
            U, S, V = inner(matrix, full_matrices=full_matrices, **kw)
            self.calls.append((np.array(matrix, copy=True), np.array(U, copy=True), np.array(S, copy=True), np.array(V, copy=True)))
            return U, S, V
        NumpyBackend.register_method("svd", wrapper)
        # number of triplets truncated_svd was asked to keep, call by call (only used to decide whether the sign of a KEPT
        # singular vector is fixed by the documented convention of svd_flip; module attribute, no source change)
        import tensorly.tenalg.svd as tsvd
        self._tsvd = tsvd
        self._old_trunc = tsvd.truncated_svd
        old_trunc = self._old_trunc

        def trunc_wrapper(matrix, n_eigenvecs=None, **kw):
            self.kept.append(n_eigenvecs)
            return old_trunc(matrix, n_eigenvecs=n_eigenvecs, **kw)
        tsvd.truncated_svd = trunc_wrapper
        # svd="symeig_svd": the backend's eigh (LAPACK syevd) is the oracle of Model/SvdDecompSymeig.v; symeig_svd's own
        # arguments / results are recorded only to decide which runs are well-conditioned enough for the factor comparison
        self._old_eigh = NumpyBackend.__dict__["eigh"]
        inner_eigh = np.linalg.eigh

        def eigh_wrapper(a, *args, **kw):
            lam, W = inner_eigh(a, *args, **kw)
            self.eigh_calls.append((np.array(a, copy=True), np.array(lam, copy=True), np.array(W, copy=True)))
            return lam, W
        NumpyBackend.register_method("eigh", eigh_wrapper)
        self._old_sym = tsvd.symeig_svd
        old_sym = self._old_sym

        def sym_wrapper(matrix, n_eigenvecs=None, **kw):
            U, S, V = old_sym(matrix, n_eigenvecs=n_eigenvecs, **kw)
            self.sym_calls.append((np.array(matrix, copy=True), n_eigenvecs, np.array(U, copy=True), np.array(S, copy=True), np.array(V, copy=True)))
            return U, S, V
        tsvd.symeig_svd = sym_wrapper
        # svd="randomized_svd": QR and the Gaussian test matrix are the oracles of Model/SvdDecompRand.v
        self._old_qr = NumpyBackend.__dict__["qr"]
        inner_qr = np.linalg.qr

        def qr_wrapper(a, *args, **kw):
            Qm, Rm = inner_qr(a, *args, **kw)
            self.qr_calls.append((np.array(a, copy=True), np.array(Qm, copy=True)))
            return Qm, Rm
        NumpyBackend.register_method("qr", qr_wrapper)
        self._had_crs = "check_random_state" in NumpyBackend.__dict__
        self._old_crs = NumpyBackend.__dict__.get("check_random_state")
        base_crs = getattr(NumpyBackend, "check_random_state")
        tape_self = self

        class RngProxy:
            def __init__(self, rng):
                self._rng = rng

            def normal(self, *a, **kw):
                out = self._rng.normal(*a, **kw)
                tape_self.omegas.append(np.array(out, copy=True))
                return out

            def __getattr__(self, name):
                return getattr(self._rng, name)

        def crs_wrapper(seed=None):
            return seed if isinstance(seed, RngProxy) else RngProxy(base_crs(seed))
        NumpyBackend.register_method("check_random_state", crs_wrapper)
        self._old_rand = tsvd.randomized_svd
        old_rand = self._old_rand

        def rand_wrapper(matrix, n_eigenvecs=None, **kw):
            first = len(self.calls)
            U, S, V = old_rand(matrix, n_eigenvecs=n_eigenvecs, **kw)
            self.rand_calls.append((np.array(matrix, copy=True), n_eigenvecs, np.array(U, copy=True), np.array(S, copy=True), np.array(V, copy=True), first))
            return U, S, V
        tsvd.randomized_svd = rand_wrapper
        return self

    def __exit__(self, *a):
        setattr(self._cls, "svd", self._old)
        setattr(self._cls, "eigh", self._old_eigh)
        self._tsvd.truncated_svd = self._old_trunc
        self._tsvd.symeig_svd = self._old_sym
        setattr(self._cls, "qr", self._old_qr)
        if self._had_crs:
            setattr(self._cls, "check_random_state", self._old_crs)
        else:
            delattr(self._cls, "check_random_state")
        self._tsvd.randomized_svd = self._old_rand
        return False


def num(a):
    """numeric array for the predicates: float64, or complex128 when the data are complex (tensor_train / tensor_ring / tucker accept
    complex tensors; the property's statements -- exactness, singular-value bounds -- read the same with |.| the modulus)"""
    a = np.asarray(a)
    return a.astype(np.complex128) if np.iscomplexobj(a) else a.astype(float)


# ----------------------------------------------------------------------------- independent reconstructions (textbook formulas)
def tt_full(factors):
    """X[i0..] = G0[:, i0, :] G1[:, i1, :] ...  (boundary ranks 1)"""
    res = num(factors[0])
    for f in factors[1:]:
        res = np.tensordot(res, num(f), axes=([res.ndim - 1], [0]))
    if res.shape[0] != 1 or res.shape[-1] != 1:
        raise ValueError("boundary ranks are not 1")
    return res.reshape(res.shape[1:-1])


def tr_full(factors):
    res = num(factors[0])
    for f in factors[1:]:
        res = np.tensordot(res, num(f), axes=([res.ndim - 1], [0]))
    return np.trace(res, axis1=0, axis2=res.ndim - 1)


def ttm_full(factors):
    """factors (r, in_k, out_k, r') -> tensor of shape in_0.. x out_0.."""
    d = len(factors)
    merged = [num(f).reshape(f.shape[0], f.shape[1] * f.shape[2], f.shape[3]) for f in factors]
    T = tt_full(merged)
    ins = [f.shape[1] for f in factors]; outs = [f.shape[2] for f in factors]
    T = T.reshape([x for p in zip(ins, outs) for x in p])
    perm = list(range(0, 2 * d, 2)) + list(range(1, 2 * d, 2))
    return T.transpose(perm)


def tucker_full(core, factors):
    res = num(core)
    for k, U in enumerate(factors):
        res = np.moveaxis(np.tensordot(num(U), res, axes=([1], [k])), 0, k)
    return res


def sv(M):
    if M.size == 0:
        return np.zeros(0)
    return _np_svd(num(M), compute_uv=False)


def tail(s, r):
    """root-sum-square of the singular values discarded when r are kept"""
    r = max(int(r), 0)
    return float(np.sqrt(np.sum(s[r:] ** 2))) if r < len(s) else 0.0


def num_rank(s):
    return int(np.sum(s > (s[0] if len(s) else 0) * 1e-11)) if len(s) and s[0] > 0 else 0


def fro(a):
    return float(np.sqrt(np.sum(np.abs(num(a)) ** 2)))


# ----------------------------------------------------------------------------- the property predicates
def norm_rank_tt(n, rank):
    return [1] + [rank] * (n - 1) + [1] if isinstance(rank, int) else list(rank)


def pred_tt(X, rank, factors, what="tensor_train", rel=None, ub_ok=True):
    """X: array; rank: validated request (len n+1); factors: list of 3-D arrays. Returns message or None."""
    n = X.ndim
    REL = globals()["REL"] if rel is None else rel
    req = norm_rank_tt(n, rank)
    shp = [tuple(f.shape) for f in factors]
    if len(factors) != n or any(len(s) != 3 for s in shp):
        return f"{what}: {len(factors)} factors of shapes {shp} for a tensor of order {n}"
    if shp[0][0] != 1 or shp[-1][2] != 1:
        return f"{what}: boundary ranks are not 1: {shp}"
    for k in range(n):
        if shp[k][1] != X.shape[k]:
            return f"{what}: factor {k} has mode size {shp[k][1]} != {X.shape[k]}"
        if k + 1 < n and shp[k][2] != shp[k + 1][0]:
            return f"{what}: ranks of consecutive factors do not match: {shp}"
        if shp[k][2] > req[k + 1]:
            return f"{what}: returned rank {shp[k][2]} exceeds the requested rank {req[k + 1]} at bond {k + 1}"
    Xf = num(X)
    err = fro(Xf - tt_full(factors))
    nx = fro(Xf)
    tails = [tail(sv(Xf.reshape(int(np.prod(X.shape[:k])), -1)), req[k]) for k in range(1, n)]
    ub = math.sqrt(sum(t * t for t in tails))
    lb = max(tails) if tails else 0.0
    if not np.isfinite(err):
        return f"{what}: reconstruction is not finite"
    if err > ub * (1 + SLACK) + REL * nx and (ub_ok or ub <= REL * nx):
        if ub <= REL * nx:
            return f"{what}: not exact at sufficient rank: error {err:.3e} (relative {err / max(nx, 1e-300):.3e}), requested {req}"
        return f"{what}: error {err:.6e} exceeds sqrt(sum of discarded sigma^2) = {ub:.6e}, requested {req}"
    if err < lb * (1 - SLACK) - REL * nx:
        return f"{what}: error {err:.6e} is below the largest discarded tail {lb:.6e}: the advertised ranks {req} are not respected"
    return None


def pred_tt_identity(X, factors, calls, what="tensor_train"):
    """transcription of C09_tt_error_sigma_R: squared error = sum over the SVD calls of the run of the squared
    singular values that call discarded (S as returned by the backend for the WORKING unfolding, taped)."""
    n = len(factors)
    if len(calls) != n - 1:
        return f"{what}: {len(calls)} SVD calls for {n} factors (expected {n - 1})"
    Xf = num(X)
    err2 = fro(Xf - tt_full(factors)) ** 2
    disc = 0.0
    for k, (M, U, S, V) in enumerate(calls):
        r = factors[k].shape[2]
        disc += float(np.sum(np.asarray(S, dtype=float)[r:] ** 2))
    nx2 = fro(Xf) ** 2
    if abs(err2 - disc) > 1e-9 * nx2 + 1e-7 * max(err2, disc):
        return (f"{what}: squared error {err2:.9e} differs from the sum of the discarded squared singular values of the "
                f"working unfoldings {disc:.9e} (TT-SVD error identity)")
    return None


def strict_code_formula(shape, req):
    """independent transcription of the loop of validate_tt_rank(allow_overparametrization=False) as it is"""
    out = [1]
    for i, sz in enumerate(shape[:-1]):
        out.append(min(int(req[i]) * int(sz), int(np.prod(shape[i + 1:])), int(req[i + 1])))
    return out + [1]


def strict_realised_formula(shape, req):
    """the bonds TT-SVD realises (Coq: realised_tt_rank): the left factor is the bond obtained at the previous step"""
    out = [1]
    for i, sz in enumerate(shape[:-1]):
        out.append(min(out[-1] * int(sz), int(np.prod(shape[i + 1:])), int(req[i + 1])))
    return out + [1]


STRICT_CASES = []   # (shape, rank, code's strict answer, ranks returned by tensor_train) for the Coq-evaluated comparison


def check_validate_strict(chk, X, rank, factors):
    """validate_tt_rank(..., allow_overparametrization=False) is documented to return the rank realisable by TT-SVD:
    compare it with the ranks tensor_train really returned and with the proved closed form (C09_tensor_train_realised_rank)"""
    from tensorly.tt_tensor import validate_tt_rank
    shape = tuple(int(x) for x in X.shape)
    rank_arg = rank if isinstance(rank, int) else list(rank)
    st, strict = C.call_impl(lambda: [int(r) for r in validate_tt_rank(shape, rank=rank_arg, allow_overparametrization=False)], timeout=TIMEOUT)
    if st != "ok":
        return
    req = norm_rank_tt(len(shape), rank)
    realised = [1] + [int(f.shape[2]) for f in factors]
    chk.hist("validate_strict_checked", "tt")
    if len(STRICT_CASES) < 400 and max(shape) <= 50 and max(req) <= 400:
        STRICT_CASES.append((shape, rank, strict, realised))
    if realised != strict_realised_formula(shape, req):
        chk.finding(EP["tt"], {"function": "tt", "tensor": np.asarray(X), "rank": rank, "options": {}},
                    f"tensor_train: returned ranks {realised} are not min(previous bond * size, remaining size, request) = {strict_realised_formula(shape, req)}", "C09_realised_rank")
    if strict != realised:
        chk.finding("tensorly.tt_tensor.validate_tt_rank",
                    {"function": "validate_tt_rank", "shape": list(shape), "rank": rank, "strict": strict, "realised": realised},
                    f"validate_tt_rank(allow_overparametrization=False) = {strict} is not the rank TT-SVD realises ({realised}) for shape {shape}, request {req}",
                    "C09_validate_strict")


def clf_strict_uses_requested_left_rank(f):
    """known finding: the strict rule multiplies the REQUESTED left rank; exactly that formula reproduces the answer,
    and the realised ranks are the repaired formula"""
    inp = f.get("inputs", {})
    try:
        shape = [int(x) for x in inp["shape"]]; req = norm_rank_tt(len(shape), inp["rank"])
        return (inp.get("function") == "validate_tt_rank" and list(inp["strict"]) == strict_code_formula(shape, req)
                and list(inp["realised"]) == strict_realised_formula(shape, req) and list(inp["strict"]) != list(inp["realised"]))
    except Exception:
        return False


def _install_known_loader():
    """known_findings.json is assembled by the coordinator from known_findings.d/*.json; read our snippet directly as well so
    that the classification does not depend on when that merge was last run (same local helper as C05)."""
    import json, os
    orig = C.load_known
    if getattr(orig, "_c09", False):
        return

    def load(prop):
        ks = list(orig(prop))
        p = os.path.join(C.VERIF, "known_findings.d", f"{prop}.json")
        if os.path.exists(p):
            have = {k.get("id") for k in ks}
            ks += [k for k in json.load(open(p)).get("findings", []) if k.get("property") == prop and k.get("id") not in have]
        return ks
    load._c09 = True
    C.load_known = load


def interleave(X):
    d = X.ndim // 2
    idx = [i for p in zip(range(d), range(d, 2 * d)) for i in p]
    return np.transpose(X, idx).reshape([a * b for a, b in zip(X.shape[:d], X.shape[d:])])


def pred_ttm(X, rank, factors, rel=None, ub_ok=True):
    d = X.ndim // 2
    REL = globals()["REL"] if rel is None else rel
    shp = [tuple(f.shape) for f in factors]
    if len(factors) != d or any(len(s) != 4 for s in shp):
        return f"tensor_train_matrix: factor shapes {shp}"
    for k in range(d):
        if shp[k][1] != X.shape[k] or shp[k][2] != X.shape[d + k]:
            return f"tensor_train_matrix: factor {k} has shape {shp[k]} for in/out sizes {X.shape[k]},{X.shape[d + k]}"
    full = ttm_full(factors)
    if full.shape != X.shape:
        return f"tensor_train_matrix: reconstruction has shape {full.shape}"
    if d == 1:
        err = fro(num(X) - full)
        return None if err <= REL * fro(X) else f"tensor_train_matrix: single factor is not the matrix (error {err:.3e})"
    merged = [np.asarray(f).reshape(f.shape[0], f.shape[1] * f.shape[2], f.shape[3]) for f in factors]
    # transcription of C09_tensor_train_matrix_realised_rank: the bonds are the closed-form TT-SVD bonds on the merged sizes in_k * out_k
    mshape = [int(X.shape[k]) * int(X.shape[d + k]) for k in range(d)]
    got_b = [1] + [int(f.shape[3]) for f in factors]
    if got_b[-1] == 1 and all(int(factors[k].shape[3]) == int(factors[k + 1].shape[0]) for k in range(d - 1)):
        exp_b = strict_realised_formula(mshape, norm_rank_tt(d, rank))
        if got_b != exp_b:
            return (f"tensor_train_matrix: returned bonds {got_b} are not min(previous bond * in*out size, remaining size, request) = {exp_b} "
                    f"for merged sizes {mshape}, request {norm_rank_tt(d, rank)}")
    # the error of the TT-matrix equals the error of the TT of the interleaved tensor (a permutation of entries)
    msg = pred_tt(interleave(np.asarray(X)), rank, merged, "tensor_train_matrix", rel=rel, ub_ok=ub_ok)
    if msg:
        return msg
    err_direct = fro(num(X) - full)
    err_inter = fro(interleave(num(X)) - tt_full(merged))
    if abs(err_direct - err_inter) > REL * fro(X) + 1e-300:
        return "tensor_train_matrix: factors are not the split of the TT factors of the interleaved tensor"
    return None


def pred_tucker(X, rank, core, factors, rel=None, ub_ok=True):
    n = X.ndim
    REL = globals()["REL"] if rel is None else rel
    req = [rank] * n if isinstance(rank, int) else list(rank)
    if len(factors) != n or core.ndim != n:
        return f"tucker: {len(factors)} factors, core of order {core.ndim}"
    for k in range(n):
        U = factors[k]
        if U.ndim != 2 or U.shape[0] != X.shape[k] or U.shape[1] != core.shape[k]:
            return f"tucker: factor {k} of shape {U.shape} for mode size {X.shape[k]} and core {core.shape}"
        if core.shape[k] > req[k]:
            return f"tucker: core size {core.shape[k]} exceeds the requested rank {req[k]} on mode {k}"
    Xf = num(X)
    err = fro(Xf - tucker_full(core, factors)); nx = fro(Xf)
    tails = [tail(sv(np.moveaxis(Xf, k, 0).reshape(X.shape[k], -1)), req[k]) for k in range(n)]
    ub = math.sqrt(sum(t * t for t in tails)); lb = max(tails)
    if not np.isfinite(err):
        return "tucker: reconstruction is not finite"
    if err > ub * (1 + SLACK) + REL * nx and (ub_ok or ub <= REL * nx):
        if ub <= REL * nx:
            return f"tucker: not exact at sufficient rank: error {err:.3e} (relative {err / max(nx, 1e-300):.3e}), requested {req}"
        return f"tucker: error {err:.6e} exceeds sqrt(sum over modes of discarded sigma^2) = {ub:.6e}, requested {req}"
    if err < lb * (1 - SLACK) - REL * nx:
        return f"tucker: error {err:.6e} is below the largest discarded tail {lb:.6e}: the advertised ranks {req} are not respected"
    return None


def mode_mul(Z, M, k):
    """n-mode product Z x_k M (M: new_size x old_size), plain tensordot"""
    return np.moveaxis(np.tensordot(M, Z, axes=([1], [k])), 0, k)


def pred_tucker_identity(X, core, factors):
    """transcription of C09_tucker_error_identity / C09_tucker_error_upper_R for the returned (core, factors):
    if the factors have orthonormal columns, squared error = sum_k |Z_k - P_k Z_k|^2 (Z_0 = X, Z_{k+1} = Z_k x_k U_k^T)
    and <= sum_k |X - P_k X|^2."""
    Xf = num(X)
    Us = [np.asarray(U, dtype=float) for U in factors]
    for U in Us:
        if U.shape[1] and np.max(np.abs(U.T @ U - np.eye(U.shape[1]))) > 1e-8:
            return None          # the identity is stated for orthonormal columns only
    nx2 = fro(Xf) ** 2
    err2 = fro(Xf - tucker_full(core, factors)) ** 2
    Z = Xf; disc = 0.0; resid = 0.0
    for k, U in enumerate(Us):
        disc += fro(Z - mode_mul(mode_mul(Z, U.T, k), U, k)) ** 2
        resid += fro(Xf - mode_mul(mode_mul(Xf, U.T, k), U, k)) ** 2
        Z = mode_mul(Z, U.T, k)
    if abs(err2 - disc) > 1e-9 * nx2 + 1e-7 * max(err2, disc):
        return (f"tucker: squared error {err2:.9e} differs from the sum over modes of what the mode projectors discard "
                f"{disc:.9e} (Tucker error identity for orthonormal factors; is the core X x_k U_k^T ?)")
    if err2 > resid * (1 + SLACK) + REL * nx2:
        return f"tucker: squared error {err2:.9e} exceeds the sum over modes of |X - P_k X|^2 = {resid:.9e}"
    return None


TR_LITERAL = {}   # how often the literal requested-rank condition of C09_tensor_ring_exact_requested_ranks held on the judged tensor_ring runs


def pred_tr(X, rank, mode, factors, sufficient, rel=None, ub_ok=True):
    n = X.ndim
    REL = globals()["REL"] if rel is None else rel
    req = [rank] * (n + 1) if isinstance(rank, int) else list(rank)
    shp = [tuple(f.shape) for f in factors]
    if len(factors) != n or any(len(s) != 3 for s in shp):
        return f"tensor_ring: factor shapes {shp}"
    for k in range(n):
        if shp[k][1] != X.shape[k]:
            return f"tensor_ring: factor {k} has mode size {shp[k][1]} != {X.shape[k]}"
        if shp[k][2] != shp[(k + 1) % n][0]:
            return f"tensor_ring: ranks of consecutive factors do not match: {shp}"
        if shp[k][0] > req[k]:
            return f"tensor_ring: returned rank {shp[k][0]} exceeds the requested rank {req[k]} at bond {k} (start mode {mode})"
    # transcription of C09_tensor_ring_realised: with everything rotated to the start mode, the first core has exactly the requested
    # bonds and every later bond is min(previous bond * size, remaining size * first bond, request)
    m_ = int(mode) % n
    shp_r = [int(X.shape[(m_ + j) % n]) for j in range(n)]
    req_r = [int(req[(m_ + j) % n]) for j in range(n)] + [int(req[m_])]
    fr_ = list(factors[m_:]) + list(factors[:m_])
    exp_b = [req_r[0], req_r[1]]
    for k in range(1, n - 1):
        exp_b.append(min(exp_b[-1] * shp_r[k], int(np.prod(shp_r[k + 1:])) * req_r[0], req_r[k + 1]))
    got_b = [int(fr_[0].shape[0]), int(fr_[0].shape[2])] + [int(fr_[k].shape[2]) for k in range(1, n - 1)]
    if got_b != exp_b:
        return (f"tensor_ring: returned bonds {got_b} (rotated to start mode {mode}) are not min(previous bond * size, remaining size * first bond, "
                f"request) = {exp_b} for shape {tuple(X.shape)}, request {req}")
    Xf = num(X)
    err = fro(Xf - tr_full(factors)); nx = fro(Xf)
    if not np.isfinite(err):
        return "tensor_ring: reconstruction is not finite"
    if sufficient and err > REL * nx:
        return f"tensor_ring: not exact at sufficient rank: error {err:.3e} (relative {err / max(nx, 1e-300):.3e}), requested {req}, start mode {mode}"
    # transcription of C09_tensor_ring_exact_requested_ranks (condition on X and the REQUEST only): with input and request rotated to the
    # start mode, rank(first unfolding) <= r0 r1 and rank(k-th sequential unfolding) * r0 <= requested r_{k+1}  =>  exact
    Xr_ = np.transpose(Xf, list(range(m_, n)) + list(range(m_)))
    if nx > 0 and all(s_ > 0 for s_ in shp_r):
        lit = num_rank(sv(Xr_.reshape(shp_r[0], -1))) <= req_r[0] * req_r[1] and all(
            num_rank(sv(Xr_.reshape(int(np.prod(shp_r[:k + 1])), -1))) * req_r[0] <= req_r[k + 1] for k in range(1, n - 1))
        TR_LITERAL["holds" if lit else "fails"] = TR_LITERAL.get("holds" if lit else "fails", 0) + 1
        if lit and not sufficient:
            TR_LITERAL["holds_beyond_generator_label"] = TR_LITERAL.get("holds_beyond_generator_label", 0) + 1
        if lit and ub_ok and err > REL * nx:   # (randomized_svd: only when every range finder is exact, like the upper bound)
            return (f"tensor_ring: not exact although every requested rank meets the literal rank condition (rank of the first unfolding <= r0 r1, "
                    f"r0 * rank of the k-th sequential unfolding <= r_(k+1)): error {err:.3e} (relative {err / max(nx, 1e-300):.3e}), requested {req}, start mode {mode}")
    # cutting the ring between bonds a and b: the unfolding (modes a..b-1 | rest) of the result has rank <= r_a r_b
    lb = 0.0
    for a in range(n):
        for b in range(a + 1, n):
            rows = list(range(a, b)); cols = [i for i in range(n) if i not in rows]
            M = np.transpose(Xf, rows + cols).reshape(int(np.prod([X.shape[i] for i in rows])), -1)
            lb = max(lb, tail(sv(M), req[a] * req[b]))
    if err < lb * (1 - SLACK) - REL * nx:
        return f"tensor_ring: error {err:.6e} is below the largest discarded tail {lb:.6e}: the advertised ranks {req} are not respected"
    if ub_ok:
        # transcription of C09_tensor_ring_error_upper: with the input rotated to the start mode and r_k the bonds of the RETURNED
        # factors, error^2 <= tail^2 of the first unfolding at r_0 r_1 kept + sum_k tail^2 of the k-th sequential unfolding at r_k // r_0 kept
        m = int(mode) % n
        Xr = np.transpose(Xf, list(range(m, n)) + list(range(m)))
        fr = list(factors[m:]) + list(factors[:m])
        r0, r1 = fr[0].shape[0], fr[0].shape[2]
        t2 = tail(sv(Xr.reshape(Xr.shape[0], -1)), r0 * r1) ** 2
        for k in range(1, n - 1):
            t2 += tail(sv(Xr.reshape(int(np.prod(Xr.shape[:k + 1])), -1)), fr[k].shape[2] // max(r0, 1)) ** 2
        ub = math.sqrt(t2)
        if err > ub * (1 + SLACK) + REL * nx:
            return (f"tensor_ring: error {err:.6e} exceeds the ring root-sum-square bound {ub:.6e} (first unfolding at r0*r1 kept, later "
                    f"sequential unfoldings at bond // r0 kept; returned bonds {[f.shape[0] for f in factors]}, start mode {mode})")
    return None


# ----------------------------------------------------------------------------- running the implementation
LAST_KEPT = []    # truncation ranks of the SVD calls of the last run_impl (same order as the tape)
LAST_EIGH = []    # eigh calls of the last run_impl
LAST_SYM = []     # symeig_svd calls of the last run_impl
LAST_RAND = [[], [], []]   # randomized_svd calls, qr calls, drawn test matrices of the last run_impl


def sign_ambiguous(calls, kept):
    """True when the documented convention of svd_flip ("the entry of largest absolute value of every column of U is
    made positive") does not determine the sign of some KEPT singular vector: two entries of opposite sign tie for the
    largest magnitude.  The property does not say how such ties are broken, so these runs are judged by the predicates
    only and not by the exact comparison of the U-derived factors."""
    for k, (M, U, S, V) in enumerate(calls):
        U = np.asarray(U, dtype=float)
        r = U.shape[1]
        if k < len(kept) and kept[k] is not None and len(kept) == len(calls):
            r = min(r, int(kept[k]))
        for j in range(r):
            col = U[:, j]
            a = np.abs(col)
            top = a.max() if a.size else 0.0
            if top == 0.0:
                return True
            tied = col[a >= top * (1 - 1e-9)]
            if tied.size > 1 and (tied > 0).any() and (tied < 0).any():
                return True
    return False


def make_instance(kind, rank_obj, extra):
    """one DecompositionMixin object (re-used over several fit_transform calls by the sequence streams)"""
    from tensorly.decomposition import TensorTrain, TensorTrainMatrix, TensorRing, Tucker
    if kind == "tt":
        return TensorTrain(rank_obj, **extra)
    if kind == "ttm":
        return TensorTrainMatrix(rank_obj, **extra)
    if kind == "tr":
        return TensorRing(rank_obj, **extra)
    return Tucker(rank=rank_obj, **extra)


def run_impl(kind, X, rank, extra, via_class=False, rank_obj=None, instance=None):
    """returns (status, value, tape) ; value: list of factor arrays or (core, factors).
    via_class: go through the DecompositionMixin classes (TensorTrain / TensorTrainMatrix / TensorRing / Tucker).fit_transform
    rank_obj: hand THIS object (a list / tuple the caller keeps using) to the code instead of a fresh copy of `rank`
    instance: call fit_transform of THIS decomposition object (built earlier, possibly already used on another tensor)"""
    from tensorly.decomposition import tensor_train, tensor_train_matrix, tensor_ring, tucker
    if instance is not None:
        tensor_train = tensor_train_matrix = tensor_ring = tucker = lambda X_, r_, **kw: instance.fit_transform(X_)
    elif via_class:
        from tensorly.decomposition import TensorTrain, TensorTrainMatrix, TensorRing, Tucker
        tensor_train = lambda X_, r_, **kw: TensorTrain(r_, **kw).fit_transform(X_)
        tensor_train_matrix = lambda X_, r_, **kw: TensorTrainMatrix(r_, **kw).fit_transform(X_)
        tensor_ring = lambda X_, r_, **kw: TensorRing(r_, **kw).fit_transform(X_)
        tucker = lambda X_, r_, **kw: Tucker(rank=r_, **kw).fit_transform(X_)
    C.reset_backends()
    if extra.get("svd") == "randomized_svd":
        np.random.seed(20260929)     # randomized_svd draws from NumPy's global state (random_state is not passed down): reproducible replays
    rank_arg = rank if isinstance(rank, (int, float, str)) else list(rank)   # fresh list: the code writes into its own copy
    if rank_obj is not None:
        rank_arg = rank_obj
    with Tape() as tp:
        if kind == "tt":
            st, v = C.call_impl(lambda: [np.asarray(f) for f in tensor_train(X, rank_arg, **extra).factors], timeout=TIMEOUT)
        elif kind == "ttm":
            st, v = C.call_impl(lambda: [np.asarray(f) for f in tensor_train_matrix(X, rank_arg, **extra).factors], timeout=TIMEOUT)
        elif kind == "tr":
            st, v = C.call_impl(lambda: [np.asarray(f) for f in tensor_ring(X, rank_arg, **extra).factors], timeout=TIMEOUT)
        elif kind == "tucker":
            def f():
                t = tucker(X, rank_arg, **extra)
                return (np.asarray(t.core), [np.asarray(u) for u in t.factors])
            st, v = C.call_impl(f, timeout=TIMEOUT)
        else:
            raise KeyError(kind)
    LAST_KEPT[:] = list(tp.kept)
    LAST_EIGH[:] = list(tp.eigh_calls)
    LAST_SYM[:] = list(tp.sym_calls)
    LAST_RAND[:] = [list(tp.rand_calls), list(tp.qr_calls), list(tp.omegas)]
    return st, v, tp.calls


FULLREQ = {}     # (shape, rank, mode) of every tensor_ring input labelled "sufficient" (the premise of C09_tensor_ring_exact_full_request is
                 # evaluated on them inside Coq at the end of the run: Corr/C09.v kind KFullReq, sound by C09_tr_full_requestb_sound)


def predicate(kind, X, rank, extra, st, v, info, calls=None):
    """message | None for one implementation run (valid requests only)"""
    if kind == "tr" and info.get("sufficient") and info.get("valid", True) and not isinstance(rank, int) and len(FULLREQ) < 400:
        FULLREQ.setdefault((tuple(int(x) for x in X.shape), tuple(int(r) for r in rank), int(extra.get("mode", 0))), None)
    if st != "ok":
        if info.get("valid", True):
            return f"{kind}: raised on a valid request: {v}"
        return None
    method = extra.get("svd", "truncated_svd")
    if method != "truncated_svd" or np.iscomplexobj(X):
        return predicate_method(kind, X, rank, extra, v, info, method)
    try:
        if kind == "tt":
            msg = pred_tt(X, rank, v)
            if msg is None and calls is not None:
                msg = pred_tt_identity(X, v, calls)
            return msg
        if kind == "ttm":
            msg = pred_ttm(X, rank, v)
            if msg is None and calls is not None and X.ndim // 2 > 1:
                merged = [np.asarray(f).reshape(f.shape[0], f.shape[1] * f.shape[2], f.shape[3]) for f in v]
                msg = pred_tt_identity(interleave(np.asarray(X)), merged, calls, "tensor_train_matrix")
            return msg
        if kind == "tucker":
            return pred_tucker(X, rank, v[0], v[1]) or pred_tucker_identity(X, v[0], v[1])
        if kind == "tr":
            msg = pred_tr(X, rank, extra.get("mode", 0), v, info.get("sufficient", False))
            if msg is None and calls is not None and len(LAST_KEPT) == len(calls) and all(k is not None for k in LAST_KEPT):
                # transcription of C09_tensor_ring_error_sigma_R: squared error = discarded squared singular values, call by call
                Xf = num(X)
                err2 = fro(Xf - tr_full(v)) ** 2
                disc = sum(float(np.sum(np.asarray(S, dtype=float)[int(k):] ** 2)) for (M, U, S, V), k in zip(calls, LAST_KEPT))
                nx2 = fro(Xf) ** 2
                if abs(err2 - disc) > 1e-9 * nx2 + 1e-7 * max(err2, disc):
                    msg = (f"tensor_ring: squared error {err2:.9e} differs from the sum of the discarded squared singular values of the "
                           f"first and the working unfoldings {disc:.9e} (tensor-ring error identity)")
            return msg
    except Exception as e:  # malformed output (shapes that cannot be contracted ...)
        return f"{kind}: output cannot be reconstructed: {type(e).__name__}: {e}"
    return None


# ----------------------------------------------------------------------------- the other svd= methods
# tensor_train / tensor_train_matrix / tensor_ring / tucker take svd in {"truncated_svd", "symeig_svd", "randomized_svd"}.  The property
# (exact at sufficient rank, ranks respected, error between the largest discarded tail and the root-sum-square of the tails) does
# not depend on the method; what depends on it is the accuracy:
#   symeig_svd     singular values / vectors from eigh of a Gram matrix: accurate to about sqrt(eps) ||X|| (1.5e-8 relative), and for a
#                  rank-deficient unfolding the null-space columns of the derived factor are not orthonormal (recorded finding
#                  symeig_svd_rank_deficient of C05: expected, not judged here).  "Rounding error" is therefore 1e-6 relative.
#   randomized_svd exact (almost surely) when n_eigenvecs + n_oversamples reaches the smaller dimension or the rank of the matrix,
#                  which is what "sufficient rank" gives; when it truncates a larger matrix it is only near-optimal in expectation,
#                  so the root-sum-square upper bound is judged only on runs whose every range finder is exact (rand_exact).
METHODS = ["truncated_svd", "symeig_svd", "randomized_svd"]
REL_BY_METHOD = {"truncated_svd": REL, "symeig_svd": 1e-6, "randomized_svd": 1e-9}
N_OVERSAMPLES = 5


def rand_exact(kind, X, rank, extra, v):
    """every SVD call of the run has n_eigenvecs + n_oversamples >= the smaller dimension of its matrix (computed from the
    shapes of the returned factors): the randomized range finder then spans the whole column / row space"""
    shape = [int(x) for x in X.shape]
    mats = []
    if kind == "ttm":
        d = len(shape) // 2
        if d == 1:
            return True
        shape = [a * b for a, b in zip(shape[:d], shape[d:])]
        v = [np.asarray(f).reshape(f.shape[0], f.shape[1] * f.shape[2], f.shape[3]) for f in v]
        kind = "tt"
    n = len(shape)
    if kind == "tt":
        for k in range(n - 1):
            mats.append((v[k].shape[0] * shape[k], int(np.prod(shape[k + 1:])), v[k].shape[2]))
    elif kind == "tr":
        m = int(extra.get("mode", 0))
        shape = shape[m:] + shape[:m]; fs = list(v[m:]) + list(v[:m])
        r0 = fs[0].shape[0]
        mats.append((shape[0], int(np.prod(shape[1:])), r0 * fs[0].shape[2]))
        for k in range(1, n - 1):
            mats.append((fs[k].shape[0] * shape[k], int(np.prod(shape[k + 1:])) * r0, fs[k].shape[2]))
    else:
        req = [rank] * n if isinstance(rank, int) else list(rank)
        for k in range(n):
            mats.append((shape[k], int(np.prod(shape)) // max(shape[k], 1), int(req[k])))
    return all(ne + N_OVERSAMPLES >= min(r, c) for (r, c, ne) in mats)


RAND_IDENTITY = {}


def rand_is_transposed(d1, d2, ne):
    """the branch condition of randomized_svd (Model/SvdDecompRand.v rand_transposed)"""
    mx, mn_ = max(d1, d2), min(d1, d2)
    ne_ = min(int(ne), mx)
    n_dims = min(ne_ + N_OVERSAMPLES, mx)
    mn = min(mn_, n_dims)
    return (d2 < d1 and mn < ne_) or (d1 < d2 and ne_ < mn)


def pred_rand_identity(X, factors, rand_calls, captured, full=None, what="tensor_train"):
    """transcription of C09_tensor_train_randomized_error_identity: squared error of tensor_train(svd='randomized_svd') = sum over the
    randomized_svd calls of the run of |M_k - U_k diag(S_k) V_k|_F^2 (M_k the taped query, (U_k, S_k, V_k) the taped answer); judged only
    when every range finder spans the whole space or every call takes the direct branch (the transposed branch needs the captured range)"""
    n = len(factors)
    if len(rand_calls) != n - 1:
        return None
    if not captured and any(ne_ is None or rand_is_transposed(M_.shape[0], M_.shape[1], ne_) for (M_, ne_, U_, S_, V_, first_) in rand_calls):
        return None      # a transposed-branch call whose range finder need not span the row space: the theorem's premise is not known to hold
    Xf = num(X)
    err2 = fro(Xf - (full or tt_full)(factors)) ** 2
    disc = 0.0
    for (M_, ne_, U_, S_, V_, first_) in rand_calls:
        disc += fro(num(M_) - (num(U_) * num(S_)) @ num(V_)) ** 2
    nx2 = fro(Xf) ** 2
    RAND_IDENTITY[what + "_checked"] = RAND_IDENTITY.get(what + "_checked", 0) + 1
    if disc > 1e-18 * nx2:
        RAND_IDENTITY[what + "_truncating"] = RAND_IDENTITY.get(what + "_truncating", 0) + 1
    if abs(err2 - disc) > 1e-9 * nx2 + 1e-7 * max(err2, disc):
        return (f"{what}: squared error {err2:.9e} differs from the sum over the randomized_svd calls of |M_k - U_k S_k V_k|^2 = {disc:.9e} "
                f"(error identity for already truncated answers)")
    return None


def predicate_method(kind, X, rank, extra, v, info, method):
    """the property's predicates for a run with svd=symeig_svd / randomized_svd (structure, finiteness, ranks respected, exact at
    sufficient rank, lower bound; upper bound when the method is an SVD up to its accuracy); no tape-based identities (these
    methods do not go through the backend's svd in the way the identities are stated)"""
    rel = REL_BY_METHOD[method]
    try:
        arrs = ([v[0]] + list(v[1])) if kind == "tucker" else list(v)
        if not all(np.all(np.isfinite(np.asarray(a))) for a in arrs):
            return f"{kind} (svd={method}): non-finite factor"
        if np.iscomplexobj(X) and method == "symeig_svd":
            rel = 1e-6
        ub_ok = method != "randomized_svd" or rand_exact(kind, X, rank, extra, v)
        if kind == "tt":
            msg = pred_tt(X, rank, v, rel=rel, ub_ok=ub_ok)
            if msg is None and method == "randomized_svd" and not np.iscomplexobj(X):
                msg = pred_rand_identity(X, v, list(LAST_RAND[0]), ub_ok)
        elif kind == "ttm":
            msg = pred_ttm(X, rank, v, rel=rel, ub_ok=ub_ok)
        elif kind == "tucker":
            msg = pred_tucker(X, rank, v[0], v[1], rel=rel, ub_ok=ub_ok)
        else:
            msg = pred_tr(X, rank, extra.get("mode", 0), v, info.get("sufficient", False), rel=rel, ub_ok=ub_ok)
            if msg is None and method == "randomized_svd" and not np.iscomplexobj(X):
                # transcription of C09_tensor_ring_randomized_error_identity
                msg = pred_rand_identity(X, v, list(LAST_RAND[0]), ub_ok, full=tr_full, what="tensor_ring")
        return None if msg is None else msg.replace(":", f" (svd={method}):", 1)
    except Exception as e:
        return f"{kind} (svd={method}): output cannot be reconstructed: {type(e).__name__}: {e}"


def true_ranks(X):
    """numerical ranks of the sequential unfoldings (TT) and of the mode unfoldings (Tucker) of X"""
    Xf = num(X)
    n = Xf.ndim
    seq = [num_rank(sv(Xf.reshape(int(np.prod(Xf.shape[:k])), -1))) for k in range(1, n)]
    modes = [num_rank(sv(np.moveaxis(Xf, k, 0).reshape(Xf.shape[k], -1))) for k in range(n)]
    return seq, modes


def gen_method_cases(tier, rng, nrng):
    """all svd= methods x (low-rank / rank-deficient / generic inputs) x (over-requested, exactly sufficient, truncating ranks)
    x the four decompositions.  Low-rank input with over-requested ranks makes every method keep singular triplets of the
    null space of a rank-deficient working unfolding -- the regime in which a Gram-matrix based SVD divides by (clipped) zeros."""
    N = 120 if tier == "quick" else 1500
    low = ["lowtt", "lowml", "intlow", "negdiag", "negperm", "deficient", "lowtt", "lowml", "sparseint", "generic", "integer"]
    for i in range(N):
        method = METHODS[1 + (i % 2)] if i % 6 else "truncated_svd"
        kind = ["tt", "tr", "tucker", "ttm"][(i // 2) % 4]
        order = rng.choice([2, 3, 3, 4]) if kind != "ttm" else rng.choice([2, 4, 4])
        hi = {2: 7, 3: 6, 4: 4}[order]
        shape = tuple(rng.choice([2, 2, 3, 3, hi, rng.randint(1, hi)]) for _ in range(order))
        cls = low[(i // 8) % len(low)]
        X = make_tensor(cls, shape, nrng, rng)
        if X.dtype.kind == "f":
            X = X * rng.choice([1.0, 1.0, 4.0, 0.25])
            if rng.random() < 0.25:
                # complex data (same value class for the imaginary part): the Gram matrix of symeig_svd must be Hermitian and the
                # phase correction of svd_flip must leave U diag(S) V unchanged (fixes d995974, ca31a67)
                X = X + 1j * make_tensor(cls, shape, nrng, rng)
        style = ["over", "over", "true", "trunc"][rng.randrange(4)]
        extra = {"svd": method}
        info = {"cls": cls, "style": style, "valid": True}
        if kind in ("tt", "ttm"):
            Xi = X if kind == "tt" else (interleave(np.asarray(X)) if order > 2 else X)
            nn = order if kind == "tt" else order // 2
            seq, _ = true_ranks(Xi) if nn > 1 else ([], [])
            if style == "over":
                rank = rng.choice([[1] + [200] * (nn - 1) + [1], [1] + [r + rng.randint(1, 3) for r in seq] + [1], 40])
            elif style == "true":
                rank = [1] + [max(1, r) for r in seq] + [1]
            else:
                rank = [1] + [max(1, r - rng.randint(0, 1)) for r in seq] + [1]
            yield kind, X, rank, extra, info
        elif kind == "tucker":
            _, modes = true_ranks(X)
            if style == "over":
                rank = [s + rng.randint(0, 2) for s in shape] if rng.random() < 0.5 else [min(s, r + rng.randint(1, 2)) for s, r in zip(shape, modes)]
            elif style == "true":
                rank = [max(1, r) for r in modes]
            else:
                rank = [max(1, r - rng.randint(0, 1)) for r in modes]
            extra = dict(extra, n_iter_max=rng.choice([1, 2, 5]), tol=0, init="svd")
            yield kind, X, rank, extra, info
        else:
            mode = rng.randrange(order)
            sufficient = style != "trunc"
            rank = tr_rank_for(rng, list(shape), mode, sufficient)
            yield kind, X, rank, dict(extra, mode=mode), dict(info, sufficient=sufficient)


# ----------------------------------------------------------------------------- generators
def rand_tt(rng, shape, ranks):
    rs = [1] + list(ranks) + [1]
    fs = [rng.standard_normal((rs[k], shape[k], rs[k + 1])) for k in range(len(shape))]
    return tt_full(fs)


def rand_tucker(rng, shape, ranks):
    core = rng.standard_normal(ranks)
    fs = [rng.standard_normal((shape[k], ranks[k])) for k in range(len(shape))]
    return tucker_full(core, fs)


def make_tensor(cls, shape, nrng, rng):
    """value classes named by the property: generic, exactly low TT / multilinear rank, rank-deficient, integer"""
    n = len(shape)
    if cls == "generic":
        return nrng.standard_normal(shape) * rng.choice([1.0, 1.0, 10.0, 0.1])
    if cls == "lowtt":
        ranks = [rng.randint(1, 2) for _ in range(n - 1)]
        return rand_tt(nrng, shape, ranks)
    if cls == "lowml":
        ranks = [rng.randint(1, max(1, min(2, s))) for s in shape]
        return rand_tucker(nrng, shape, ranks)
    if cls == "deficient":
        X = nrng.standard_normal(shape)
        k = rng.randrange(n)
        if shape[k] >= 2:
            idx = [slice(None)] * n
            src = list(idx); dst = list(idx)
            src[k] = 0; dst[k] = shape[k] - 1
            if rng.random() < 0.5:
                X[tuple(dst)] = 2.0 * X[tuple(src)]     # a repeated slice
            else:
                X[tuple(dst)] = 0.0                     # a zero slice
        else:
            X = X * 0 + nrng.standard_normal(shape) * (nrng.random(shape) < 0.5)
            if not X.any():
                X.flat[0] = 1.0
        return X
    if cls == "integer":
        X = nrng.randint(-4, 5, size=shape).astype(np.int64)
        if not X.any():
            X.flat[0] = 1
        return X
    if cls in ("negdiag", "negdiag_int"):
        # negative superdiagonal tensor: singular vectors -e_i (no positive entry, exact zeros)
        X = np.zeros(shape, dtype=np.int64 if cls.endswith("_int") else float)
        for j in range(min(shape)):
            X[(j,) * n] = -(j + 1 + (0 if cls.endswith("_int") else rng.choice([0.0, 0.25, 0.5])))
        return X
    if cls in ("negperm", "negperm_int"):
        # negated partial permutation: at most one non-zero per slice of every mode, all entries negative
        X = np.zeros(shape, dtype=np.int64 if cls.endswith("_int") else float)
        k = max(1, min(shape) - rng.randint(0, 1))
        perms = [rng.sample(range(sz), min(k, sz)) for sz in shape]
        k = min(len(p) for p in perms)
        for j in range(k):
            X[tuple(p[j] for p in perms)] = -(1 if rng.random() < 0.5 else rng.randint(1, 4))
        return X
    if cls == "sparseint":
        # sparse integer tensor (integer dtype), mostly negative entries
        X = np.zeros(shape, dtype=np.int64)
        nnz = max(1, int(np.prod(shape)) // 4)
        for _ in range(nnz):
            X[tuple(rng.randrange(sz) for sz in shape)] = rng.choice([-3, -2, -1, -1, -1, 1, 2])
        if not X.any():
            X.flat[0] = -1
        return X
    if cls == "intlow":
        # integer tensor of low rank: sum of two integer outer products
        X = np.zeros(shape, dtype=np.int64)
        for _ in range(rng.randint(1, 2)):
            t = np.array(1, dtype=np.int64)
            for s in shape:
                t = np.multiply.outer(t, nrng.randint(-2, 3, size=s))
            X = X + t
        if not X.any():
            X.flat[0] = 1
        return X
    raise KeyError(cls)


CLASSES = ["generic", "lowtt", "lowml", "deficient", "integer", "intlow", "negdiag", "negperm_int", "sparseint", "negdiag_int", "negperm"]


def rank_choices(rng, n_entries, hi):
    """a rank vector with entries from 1 to beyond the mode sizes"""
    return [rng.choice([1, 1, 2, 2, 3, rng.randint(1, hi), hi + rng.randint(1, 3), 50]) for _ in range(n_entries)]


def tr_rank_for(rng, shape, mode, sufficient):
    """TR ranks (len n+1, r0 == rn).  The code requires r_mode * r_{mode+1} <= min(dims of the first unfolding)."""
    n = len(shape)
    rot = shape[mode:] + shape[:mode]
    cap = min(rot[0], int(np.prod(rot[1:])))
    if sufficient:
        # r_mode * r_{mode+1} = cap keeps the whole first unfolding; the later ranks are clipped by the code
        divs = [d for d in range(1, cap + 1) if cap % d == 0]
        r0 = rng.choice(divs); r1 = cap // r0
        rk_rot = [r0, r1] + [200] * (n - 2) + [r0]
    else:
        r0 = rng.randint(1, max(1, int(math.isqrt(cap)) + 0))
        r1 = rng.randint(1, max(1, cap // r0))
        rk_rot = [r0, r1] + [rng.choice([1, 2, 3, 200]) for _ in range(n - 2)] + [r0]
    # un-rotate: rank_rot = rank[mode:] + rank[:mode]  with rank[n] = rank[0]
    ring = rk_rot[:n]                       # bond of rotated position j is original bond (mode + j) % n
    rank = [0] * (n + 1)
    for j in range(n):
        rank[(mode + j) % n] = ring[j]
    rank[n] = rank[0]
    return rank


def gen_predicate_cases(tier, rng, nrng):
    """bigger cases judged by the predicates only"""
    N = 220 if tier == "quick" else 2400
    # tensor_ring: EVERY (order, start mode) pair of orders 2-5, once at sufficient rank and once truncating
    for rep in range(1 if tier == "quick" else 4):
        for order in (2, 3, 4, 5):
            for mode in range(order):
                for sufficient in (True, False):
                    shape = tuple(rng.choice([2, 2, 3]) for _ in range(order))
                    cls = rng.choice(["generic", "integer", "negperm", "lowtt"])
                    X = make_tensor(cls, shape, nrng, rng)
                    rank = tr_rank_for(rng, list(shape), mode, sufficient)
                    yield "tr", X, rank, {"mode": mode}, {"cls": cls, "sufficient": sufficient}
    dims_by_order = {2: (1, 7), 3: (1, 5), 4: (1, 4), 5: (1, 3)}
    for i in range(N):
        order = rng.choice([2, 3, 3, 4, 4, 5])
        lo, hi = dims_by_order[order]
        shape = tuple(rng.choice([1, 2, 2, 3, 3, hi, rng.randint(lo, hi)]) if rng.random() < 0.85 else 1 for _ in range(order))
        cls = CLASSES[i % len(CLASSES)]
        X = make_tensor(cls, shape, nrng, rng)
        kind = ["tt", "tucker", "tr", "ttm"][(i // len(CLASSES)) % 4]
        if kind == "ttm" and order % 2:
            kind = "tt"
        if kind == "tt" or kind == "ttm":
            nn = order if kind == "tt" else order // 2
            style = rng.random()
            if style < 0.15:
                rank = rng.choice([1, 2, 3, 5, 40])
            elif style < 0.4:
                rank = [1] + [200] * (nn - 1) + [1]           # sufficient: everything is kept
            else:
                rank = [1] + rank_choices(rng, nn - 1, max(shape)) + [1]
            yield kind, X, rank, {}, {"cls": cls}
        elif kind == "tucker":
            style = rng.random()
            if style < 0.1:
                rank = rng.choice([1, 2, 3, 9])
            elif style < 0.35:
                rank = [s + rng.randint(0, 2) for s in shape]  # sufficient
            else:
                rank = rank_choices(rng, order, max(shape))
            yield kind, X, rank, {}, {"cls": cls}
        else:
            mode = rng.randrange(order)
            sufficient = rng.random() < 0.5
            rank = tr_rank_for(rng, list(shape), mode, sufficient)
            if rng.random() < 0.25:      # a single int for every bond (validate_tr_rank's int branch), when the first SVD allows it
                rot = list(shape[mode:] + shape[:mode])
                r = rng.choice([1, 2, 2, 3])
                if r * r <= min(rot[0], int(np.prod(rot[1:]))):
                    rank, sufficient = r, False
            yield kind, X, rank, {"mode": mode}, {"cls": cls, "sufficient": sufficient}
    for item in gen_ttm3_cases(tier, rng, nrng, False):
        yield item


def gen_ttm3_cases(tier, rng, nrng, small):
    """tensor_train_matrix with THREE mode pairs (order 6; the interleaving permutation (0,3,1,4,2,5) differs from every order-4 one) and
    non-square pairs; small=True: <= 40 entries with dyadic values for the correspondence, else mode sizes 1-3 for the predicates"""
    N = (8 if tier == "quick" else 48) if small else (14 if tier == "quick" else 120)
    if small:
        # a SINGLE mode pair (the matrix is returned as one (1, in, out, 1) core before any rank validation), non-square / non-symmetric
        for j, shape in enumerate([(2, 3), (3, 2), (2, 2)] if tier == "quick" else [(2, 3), (3, 2), (2, 2), (3, 3), (1, 3), (3, 1), (2, 3), (3, 2)]):
            X = np.round(nrng.standard_normal(shape) * 16) / 16 if j % 2 == 0 else nrng.randint(-4, 5, size=shape)
            if not np.asarray(X).any():
                X.flat[0] = 1
            yield "ttm", X, rng.choice([[1, 1], 2, [1, 3, 1]]), {}, {"cls": "generic" if j % 2 == 0 else "integer", "valid": True, "ttm1": True}
    for i in range(N):
        while True:
            if small:
                shape = tuple(rng.choice([1, 2, 2]) for _ in range(6))
                if rng.random() < 0.3:
                    j = rng.randrange(6); shape = shape[:j] + (3,) + shape[j + 1:]
            else:
                shape = tuple(rng.choice([1, 2, 2, 3]) for _ in range(6))
            size = int(np.prod(shape))
            if (size <= 40 or not small) and size >= 4:
                break
        cls = CLASSES[i % len(CLASSES)]
        X = make_tensor(cls, shape, nrng, rng)
        if small and X.dtype.kind == "f":
            X = np.round(X * 16) / 16
            if not X.any():
                X.flat[0] = 1.0
        style = rng.random()
        if style < 0.15:
            rank = rng.choice([1, 2, 3, 7])
        elif style < 0.4:
            rank = [1, 200, 200, 1]
        else:
            rank = [1] + [rng.choice([1, 2, 3, 4, 9]) for _ in range(2)] + [1]
        yield "ttm", X, rank, {}, {"cls": cls, "valid": True, "ttm3": True}


def small_shapes(tier):
    out = []
    for o in (2, 3, 4):
        for s in itertools.product((1, 2, 3), repeat=o):
            if int(np.prod(s)) <= (24 if tier == "quick" else 36):
                out.append(s)
    return out


def gen_corr_cases(tier, rng, nrng):
    """small cases for the model <-> implementation comparison inside Coq"""
    shapes = small_shapes(tier)
    N = 170 if tier == "quick" else 1000
    # order-1 inputs: every function raises (tensor_train: the final unpacking of a 1-D remainder; tensor_ring / tucker: the result
    # classes need at least two factors; tensor_train_matrix: odd order) -- the model must answer Err (outside the property's orders 2-5)
    for shape, kind, rank, extra in [((3,), "tt", [1, 1], {}), ((2,), "tt", 2, {}), ((3,), "tr", [1, 1], {"mode": 0}), ((1,), "tr", 1, {"mode": 0}),
                                     ((3,), "tucker", [2], {"n_iter_max": 1, "tol": 0, "init": "svd"}), ((2,), "tucker", 1, {"n_iter_max": 0, "tol": 0, "init": "svd"}),
                                     ((3,), "ttm", [1, 1], {})]:
        yield kind, np.arange(1.0, 1.0 + shape[0]), rank, extra, {"cls": "order1", "valid": False}
    # tucker with several HOOI sweeps on generic tensors whose modes all have size >= 2 (every mode's update matters in every sweep)
    for i in range(6 if tier == "quick" else 30):
        shape = [(2, 2, 2), (2, 3, 2), (2, 2, 2, 2), (3, 2, 2, 2), (2, 2, 3, 2), (3, 3, 2)][i % 6]
        X = np.round(nrng.standard_normal(shape) * 16) / 16
        rank = [rng.choice([1, 2]) for _ in shape]
        yield "tucker", X, rank, {"n_iter_max": rng.choice([2, 3]), "tol": 0, "init": "svd"}, {"cls": "generic", "valid": True}
    # tensor_ring with ONE int >= 2 for every bond: valid only when the first unfolding has min dimension >= 4
    for i in range(6 if tier == "quick" else 30):
        shape, modes = rng.choice([((4, 2, 2), [0]), ((2, 4, 2), [1]), ((4, 4), [0, 1]), ((2, 2, 4), [2]), ((4, 2, 3), [0]), ((2, 2, 2, 4), [3])])
        cls = CLASSES[i % len(CLASSES)]
        X = make_tensor(cls, shape, nrng, rng)
        if X.dtype.kind == "f":
            X = np.round(X * 16) / 16
            if not X.any():
                X.flat[0] = 1.0
        yield "tr", X, 2, {"mode": rng.choice(modes)}, {"cls": cls, "valid": True, "sufficient": False}
    for i in range(N):
        shape = shapes[rng.randrange(len(shapes))]
        order = len(shape)
        cls = CLASSES[i % len(CLASSES)]
        X = make_tensor(cls, shape, nrng, rng)
        if X.dtype.kind == "f":
            X = np.round(X * 16) / 16          # dyadic entries keep the rationals short
            if not X.any():
                X.flat[0] = 1.0
        kind = ["tt", "tr", "tucker", "ttm", "tt", "tr"][(i // len(CLASSES)) % 6]
        if kind == "ttm" and order % 2:
            kind = "tucker"
        if kind in ("tt", "ttm"):
            nn = order if kind == "tt" else order // 2
            style = rng.random()
            if style < 0.15:
                rank = rng.choice([1, 2, 3, 7])
            elif style < 0.25:   # invalid requests: wrong length / boundary ranks
                rank = rng.choice([[1] + [2] * nn + [1], [2] + [2] * (nn - 1) + [1], [1] + [2] * (nn - 1) + [3], [1] * nn])
            else:
                rank = [1] + [rng.choice([1, 2, 3, 4, 9]) for _ in range(nn - 1)] + [1]
            valid = isinstance(rank, int) or (len(rank) == nn + 1 and rank[0] == 1 and rank[-1] == 1)
            if kind == "ttm" and nn == 1:
                valid = True
            yield kind, X, rank, {}, {"cls": cls, "valid": valid}
        elif kind == "tr":
            mode = rng.randrange(order)
            style = rng.random()
            if style < 0.12:
                rank = rng.choice([1, 2])
                rot = list(shape[mode:] + shape[:mode])
                valid = rank * rank <= min(rot[0], int(np.prod(rot[1:])))
            elif style < 0.22:
                rank = [rng.choice([1, 2, 3]) for _ in range(order + 1)]   # mostly r0 != rn or too large
                rot = list(shape[mode:] + shape[:mode])
                rr = rank[mode:] + rank[:mode]
                valid = rank[0] == rank[-1] and rr[0] * rr[1] <= min(rot[0], int(np.prod(rot[1:])))
            else:
                suff = rng.random() < 0.4
                rank = tr_rank_for(rng, list(shape), mode, suff)
                valid = True
            yield kind, X, rank, {"mode": mode}, {"cls": cls, "valid": valid, "sufficient": valid and style >= 0.22 and suff}
        else:
            it = rng.choice([0, 1, 1, 2])
            rank = rng.choice([1, 2, 5]) if rng.random() < 0.12 else [rng.choice([1, 2, 3, 4]) for _ in range(order)]
            yield kind, X, rank, {"n_iter_max": it, "tol": 0, "init": "svd"}, {"cls": cls, "valid": True}


def gen_sym_corr_cases(tier, rng, nrng, method="symeig_svd"):
    """small cases for the model <-> implementation comparison of svd="symeig_svd" (Model/SvdDecompSymeig.v inside the generic model)"""
    shapes = [s_ for s_ in small_shapes(tier) if int(np.prod(s_)) <= 24]
    N = (32 if tier == "quick" else 220) if method == "symeig_svd" else (14 if tier == "quick" else 130)
    cl = ["generic", "integer", "generic", "sparseint", "lowtt", "generic", "intlow", "deficient", "lowml", "negperm"]
    for i in range(N):
        shape = shapes[rng.randrange(len(shapes))]
        order = len(shape)
        cls = cl[i % len(cl)]
        X = make_tensor(cls, shape, nrng, rng)
        if X.dtype.kind == "f":
            X = np.round(X * 16) / 16
            if not X.any():
                X.flat[0] = 1.0
        kind = ["tt", "tucker", "tr", "tt", "ttm", "tucker"][(i // 2) % 6]
        if kind == "ttm" and order % 2:
            kind = "tt"
        extra = {"svd": method}
        if kind in ("tt", "ttm"):
            nn = order if kind == "tt" else order // 2
            if rng.random() < 0.1:
                rank = rng.choice([[1] + [2] * nn + [1], [2] + [1] * (nn - 1) + [1], 2, 1])
            else:
                rank = [1] + [rng.choice([1, 1, 2, 2, 3]) for _ in range(nn - 1)] + [1]
            valid = isinstance(rank, int) or (len(rank) == nn + 1 and rank[0] == 1 and rank[-1] == 1) or (kind == "ttm" and nn == 1)
            yield kind, X, rank, extra, {"cls": cls, "valid": valid}
        elif kind == "tr":
            mode = rng.randrange(order)
            rank = tr_rank_for(rng, list(shape), mode, False)
            yield kind, X, rank, dict(extra, mode=mode), {"cls": cls, "valid": True, "sufficient": False}
        else:
            rank = [rng.choice([1, 1, 2, 2, 3]) for _ in range(order)]
            yield kind, X, rank, dict(extra, n_iter_max=rng.choice([0, 1, 1, 2]), tol=0, init="svd"), {"cls": cls, "valid": True}


# ----------------------------------------------------------------------------- multi-call sequences / size-1 interior modes
# The functions write the bond they realised back into the rank list they work on (`rank[k + 1] = current_rank` in tensor_train
# and tensor_ring).  That list must be the validator's own copy: a caller that re-uses ONE rank list / tuple, or ONE
# TensorTrain / TensorTrainMatrix / TensorRing / Tucker object, for several tensors must get for EVERY tensor the decomposition of
# its original request (the model is a pure function of (tensor, request): each step of a sequence is compared with it).
SEQ_STYLES = ["function_shared_list", "class_object", "class_new_objects_shared_list", "function_tuple", "class_object_tuple"]


def shrink_shape(rng, shape, keep_first=False):
    """a shape of the same order with some modes shrunk (possibly to 1): TT-SVD realises smaller bonds on it"""
    out = [rng.choice([1, 1, max(1, s - 1), max(1, s // 2), s]) for s in shape]
    if keep_first:
        out[0] = shape[0]
    if out == list(shape):
        j = rng.randrange(1 if keep_first and len(shape) > 1 else 0, len(shape))
        out[j] = 1
    return tuple(out)


def tr_valid_for(shape, rank, mode):
    n = len(shape)
    rot = list(shape[mode:]) + list(shape[:mode])
    rk = [rank] * (n + 1) if isinstance(rank, int) else list(rank)
    rr = rk[mode:n] + rk[:mode + 1]
    return rr[0] * rr[1] <= min(rot[0], int(np.prod(rot[1:])))


def gen_sequences(tier, rng, nrng, small):
    """yields (kind, style, [X_1, X_2, ...], rank, extra, info): ONE rank request object / ONE decomposition object used for
    several tensors of the same order, typically a small tensor (whose realised bonds are clipped below the request) before a
    big one that needs the whole request"""
    N = (12 if tier == "quick" else 70) if small else (40 if tier == "quick" else 420)
    small_shapes_by_kind = {"tt": [(3, 3, 3), (2, 3, 3), (3, 2, 3), (2, 2, 2, 2), (4, 4), (3, 3), (2, 2, 3), (3, 1, 3), (2, 2, 2), (2, 3, 2, 2)],
                            "ttm": [(2, 2, 2, 2), (2, 3, 2, 2), (3, 2, 3, 2), (2, 2, 3, 3), (3, 3, 2, 2)],
                            "tr": [(4, 2, 2), (3, 3, 3), (2, 2, 2, 2), (3, 2, 3), (2, 4, 3), (4, 3, 2)],
                            "tucker": [(3, 3, 3), (2, 3, 3), (2, 2, 2, 2), (3, 4), (4, 2, 3)]}
    for i in range(N):
        kind = ["tt", "tt", "ttm", "tr", "tt", "tucker", "ttm", "tr"][i % 8]
        style = SEQ_STYLES[(i // 8 + i) % len(SEQ_STYLES)]      # every (function, style) pair occurs within 40 consecutive sequences
        if small:
            big = rng.choice(small_shapes_by_kind[kind])
        else:
            order = (rng.choice([2, 3, 3, 4]) if kind != "tr" else rng.choice([3, 3, 4])) if kind != "ttm" else rng.choice([4, 4, 6])
            hi = {2: 7, 3: 5, 4: 4, 6: 2}[order]
            big = tuple(rng.choice([2, 3, hi, hi, rng.randint(2, hi)]) for _ in range(order))
        n = len(big)
        extra, info = {}, {"cls": "sequence", "valid": True}
        if kind in ("tt", "ttm"):
            merged = big if kind == "tt" else tuple(a * b for a, b in zip(big[:n // 2], big[n // 2:]))
            nn = len(merged)
            full = strict_realised_formula(merged, [1] + [10 ** 6] * (nn - 1) + [1])
            pick = rng.random()
            if pick < 0.5:
                rank = list(full)                                   # exactly what the big tensor needs
            elif pick < 0.7:
                rank = [1] + [200] * (nn - 1) + [1]
            else:
                rank = [1] + [max(1, r - rng.randint(0, 2)) for r in full[1:-1]] + [1]
        elif kind == "tr":
            mode = 0 if rng.random() < 0.5 else rng.randrange(n)     # mode 0: no rotation, the validator's list is the working list
            suff = rng.random() < 0.6
            rank = tr_rank_for(rng, list(big), mode, suff)
            extra = {"mode": mode}
            info["sufficient"] = suff
        else:
            rank = [max(1, s - rng.randint(0, 1)) for s in big]
            extra = {"n_iter_max": rng.choice([0, 1, 2]), "tol": 0, "init": "svd"}
        if rng.random() < 0.15:
            # ONE int for every bond: no object is shared by the caller, but the calls must still be independent of each other
            # (a validator caching the list it builds for an int request would couple them)
            cap = min(big) if kind != "ttm" else 4
            rank = rng.choice([1, 2, 2, 3]) if kind != "tr" else rng.choice([1, 1, 2])
            if kind == "tr" and not tr_valid_for(big, rank, extra["mode"]):
                rank = 1
            info["sufficient"] = False
            style = "function_int" if style.startswith("function") else "class_object_int"
        pattern = rng.choice(["SB", "SB", "SB", "BSB", "SSB", "SBB"])
        shapes = []
        for ch in pattern:
            if ch == "B":
                shapes.append(big)
                continue
            sh = big
            for _ in range(12):
                sh = shrink_shape(rng, big)
                if kind != "tr" or tr_valid_for(sh, rank, extra["mode"]):
                    break
            else:
                sh = big
            shapes.append(sh)
        Xs = []
        for sh in shapes:
            cls = rng.choice(["generic", "generic", "integer", "lowtt"])
            X = make_tensor(cls, sh, nrng, rng)
            if small and X.dtype.kind == "f":
                X = np.round(X * 16) / 16
                if not X.any():
                    X.flat[0] = 1.0
            Xs.append(X)
        yield kind, style, Xs, rank, extra, info


def run_sequence(kind, style, Xs, rank, extra):
    """runs the whole sequence against the implementation; yields (step, X, st, v, calls, snapshot of the per-run recorder globals)"""
    if isinstance(rank, int):
        shared = rank
    elif style.endswith("tuple"):
        shared = tuple(rank)
    else:
        shared = list(rank)          # THE object every call of the sequence receives
    inst = None
    if style in ("class_object", "class_object_tuple", "class_object_int"):
        inst = make_instance(kind, shared, extra)
    for step, X in enumerate(Xs):
        if style == "class_new_objects_shared_list":
            inst = make_instance(kind, shared, extra)
        st, v, calls = run_impl(kind, X, rank, extra, rank_obj=shared, instance=inst)
        yield step, X, st, v, calls, (list(LAST_KEPT), list(LAST_EIGH), list(LAST_SYM), [list(x) for x in LAST_RAND])


def result_ranks(kind, v):
    """the ranks a result advertises: bond dimensions of the factors / shape of the Tucker core"""
    if kind == "tucker":
        return [int(x) for x in v[0].shape]
    return [int(f.shape[0]) for f in v] + [int(v[-1].shape[-1])]


def history_message(kind, X, rank, extra, st, v):
    """a call inside a sequence must return what the same call returns on its own with a fresh copy of the request (the
    decomposition is a function of the tensor and the request, not of earlier calls): same status, same ranks, same error"""
    st_f, v_f, _ = run_impl(kind, X, rank, extra)
    if timed_out(st_f, v_f) or timed_out(st, v):
        return None
    if (st == "ok") != (st_f == "ok"):
        return f"{kind}: status {st} ({str(v)[:80] if st != 'ok' else 'a result'}) in the sequence but {st_f} for the same call on its own"
    if st != "ok":
        return None
    ra, rb = result_ranks(kind, v), result_ranks(kind, v_f)
    if ra != rb:
        return f"{kind}: returns ranks {ra} in the sequence but {rb} for the same call on its own (request {rank})"
    rec = {"tt": tt_full, "tr": tr_full, "ttm": ttm_full}.get(kind)
    try:
        ea = fro(num(X) - (tucker_full(v[0], v[1]) if kind == "tucker" else rec(v)))
        eb = fro(num(X) - (tucker_full(v_f[0], v_f[1]) if kind == "tucker" else rec(v_f)))
    except Exception:
        return None
    if abs(ea - eb) > 1e-6 * fro(X) + 1e-6 * max(ea, eb):
        return f"{kind}: error {ea:.6e} in the sequence but {eb:.6e} for the same call on its own (request {rank})"
    return None


def restore_snapshot(snap):
    LAST_KEPT[:] = list(snap[0]); LAST_EIGH[:] = list(snap[1]); LAST_SYM[:] = list(snap[2]); LAST_RAND[:] = [list(x) for x in snap[3]]


def describe_seq(kind, style, Xs, step, rank, extra, info):
    return {"function": kind, "sequence_style": style, "sequence": [np.asarray(x) for x in Xs], "step": step, "tensor": np.asarray(Xs[step]),
            "rank": rank, "options": {k: v for k, v in extra.items()}, "class": "sequence", "sufficient_rank_requested": info.get("sufficient")}


def gen_unit_mode_cases(tier, rng, nrng, small):
    """size-1 INTERIOR modes with a requested bond that DROPS across them: (a, 1, b) with request (1, r1, r2 < r1, 1) -- the bond after
    the size-1 mode must still be clipped to the request (returned ranks = realised_tt_rank) and the lower bound must hold"""
    N = (12 if tier == "quick" else 50) if small else (35 if tier == "quick" else 300)
    for i in range(N):
        kind = ["tt", "tr", "tr", "ttm", "tt"][i % 5]
        order = rng.choice([3, 3, 4]) if not small else rng.choice([3, 3, 3, 4])
        hi = 3 if small else rng.choice([3, 4, 5])
        while True:
            shape = [rng.randint(2, hi) for _ in range(order)]
            ones = rng.sample(range(1, order - 1), rng.randint(1, max(1, order - 2) if order > 3 else 1)) if rng.random() < 0.85 else [rng.choice([0, order - 1])]
            for j in ones:
                shape[j] = 1
            if not small or int(np.prod(shape)) <= (24 if kind != "ttm" else 6):
                break
        cls = rng.choice(["generic", "generic", "integer", "lowtt"])
        extra, info = {}, {"cls": cls, "valid": True}
        if kind == "ttm":
            # both members of a pair have size 1 -> a size-1 interior mode of the merged tensor
            ins = [max(1, s if s == 1 else rng.choice([1, 2, s])) for s in shape]
            outs = [1 if s == 1 else max(1, rng.choice([2, 2, 3]) if ins[j] == 1 else rng.choice([1, 2])) for j, s in enumerate(shape)]
            shp = tuple(ins + outs)
            if small and int(np.prod(shp)) > 36:
                shp = tuple([2 if s != 1 else 1 for s in shape] * 2)
            merged = [a * b for a, b in zip(shp[:order], shp[order:])]
        else:
            shp = tuple(shape); merged = list(shape)
        X = make_tensor(cls, shp, nrng, rng)
        if small and X.dtype.kind == "f":
            X = np.round(X * 16) / 16
            if not X.any():
                X.flat[0] = 1.0
        if kind == "tr":
            mode = rng.randrange(order)
            rot = list(shp[mode:]) + list(shp[:mode])
            cap = min(rot[0], int(np.prod(rot[1:])))
            r1 = cap; r0 = 1
            rk_rot = [r0, r1]
            cur = r1
            for j in range(1, order - 1):      # decreasing requests along the ring, also across the size-1 modes
                cur = max(1, cur - rng.randint(0, 2))
                rk_rot.append(cur)
            rk_rot.append(r0)
            rank = [0] * (order + 1)
            for j in range(order):
                rank[(mode + j) % order] = rk_rot[j]
            rank[order] = rank[0]
            yield kind, X, rank, {"mode": mode}, dict(info, sufficient=False)
            continue
        full = strict_realised_formula(merged, [1] + [10 ** 6] * (order - 1) + [1])
        rank = [1]
        cur = None
        for j in range(1, order):
            if cur is None:
                cur = full[j]
            elif merged[j - 1] == 1 or rng.random() < 0.5:
                cur = max(1, cur - rng.randint(1, 2))     # the request drops across the size-1 mode
            else:
                cur = full[j]
            rank.append(cur)
        rank.append(1)
        yield kind, X, rank, extra, info


# ----------------------------------------------------------------------------- AST tie of the integer decision logic
# The rank-clipping / rotation / reordering / validation expressions of the CURRENT source are translated from the Python ast
# to Gallina on every run and PROVED equal (coqc) to what the model functions compute (realised_body <- chain_loop by
# C09_tensor_train_realised_rank / chain_loop_realised, tr_rotate_rank, rotate, tr_core, strict_body_code).  A source statement
# that cannot be found / translated any more is counted (the differential correspondence still covers it, not a verdict);
# a translated statement whose goal does not prove means the model no longer mirrors the code.
class Untranslatable(Exception):
    pass


def _is_list(node):
    import ast
    if isinstance(node, ast.Subscript):
        return isinstance(node.slice, ast.Slice)
    if isinstance(node, ast.Call) and isinstance(node.func, ast.Name):
        return node.func.id in ("tuple", "list", "range")
    if isinstance(node, ast.BinOp) and isinstance(node.op, ast.Add):
        return _is_list(node.left) and _is_list(node.right)
    return False


def _ga(node, env):
    """Python expression (ast) -> Gallina term over nat / list; env maps source sub-expressions (ast.unparse text) to Gallina"""
    import ast
    src = ast.unparse(node)
    if src in env:
        return env[src]
    if isinstance(node, ast.Constant) and isinstance(node.value, int) and node.value >= 0:
        return str(node.value)
    if isinstance(node, ast.Name):
        raise Untranslatable(f"free name {node.id}")
    if isinstance(node, ast.BinOp):
        a, b = node.left, node.right
        if isinstance(node.op, ast.Mult):
            return f"({_ga(a, env)} * {_ga(b, env)})"
        if isinstance(node.op, ast.Sub):
            return f"({_ga(a, env)} - {_ga(b, env)})"
        if isinstance(node.op, ast.Add):
            la, lb = _ga(a, env), _ga(b, env)
            return f"({la} ++ {lb})" if (_is_list(a) and _is_list(b)) else f"({la} + {lb})"
    if isinstance(node, ast.Call) and isinstance(node.func, ast.Name):
        f = node.func.id
        args = [_ga(x, env) for x in node.args]
        if f in ("int", "tuple", "list") and len(args) == 1:
            return args[0]
        if f == "min" and len(args) >= 2:
            out = args[-1]
            for x in reversed(args[:-1]):
                out = f"(Nat.min {x} {out})"
            return out
        if f == "range" and len(args) == 1:
            return f"(seq 0 {args[0]})"
        if f == "range" and len(args) == 2:
            return f"(seq {args[0]} ({args[1]} - {args[0]}))"
    if isinstance(node, ast.Compare) and len(node.ops) == 1 and isinstance(node.ops[0], (ast.Gt, ast.Lt, ast.GtE, ast.LtE)):
        a, b = _ga(node.left, env), _ga(node.comparators[0], env)
        return {ast.Gt: f"({b} <? {a})", ast.Lt: f"({a} <? {b})", ast.GtE: f"({b} <=? {a})", ast.LtE: f"({a} <=? {b})"}[type(node.ops[0])]
    if isinstance(node, ast.Subscript):
        l = _ga(node.value, env)
        sl = node.slice
        if isinstance(sl, ast.Slice) and sl.step is None:
            def neg(x):
                return isinstance(x, ast.UnaryOp) and isinstance(x.op, ast.USub)
            lo, hi = sl.lower, sl.upper
            if lo is not None and neg(lo) and hi is None:
                return f"(lastn {_ga(lo.operand, env)} {l})"
            if lo is None and hi is not None and neg(hi):
                return f"(firstn (length {l} - {_ga(hi.operand, env)}) {l})"
            if lo is None and hi is not None:
                return f"(firstn {_ga(hi, env)} {l})"
            if lo is not None and hi is None:
                return f"(skipn {_ga(lo, env)} {l})"
            if lo is not None and hi is not None:
                return f"(firstn ({_ga(hi, env)} - {_ga(lo, env)}) (skipn {_ga(lo, env)} {l}))"
        elif not isinstance(sl, ast.Slice):
            return f"(nth {_ga(sl, env)} {l} 0)"
    raise Untranslatable(src)


def _is_tl(node, name):
    import ast
    return (isinstance(node, ast.Call) and isinstance(node.func, ast.Attribute) and node.func.attr == name
            and isinstance(node.func.value, ast.Name) and node.func.value.id == "tl")


def _gm(node, env):
    """matrix expression of symeig_svd (ast) -> Gallina term over Model/SvdDecompSymeig.v (Op : fops F in scope)"""
    import ast
    if isinstance(node, ast.Name) and node.id in env:
        return env[node.id]
    if _is_tl(node, "dot") and len(node.args) == 2:
        return f"(matmul Op {_gm(node.args[0], env)} {_gm(node.args[1], env)})"
    if _is_tl(node, "transpose") and len(node.args) == 1 and not node.keywords:
        return f"(mtrans Op {_gm(node.args[0], env)})"
    if _is_tl(node, "conj") and len(node.args) == 1 and not node.keywords:
        return _gm(node.args[0], env)        # the model is over real carriers: complex conjugation is the identity there
    if isinstance(node, ast.BinOp) and isinstance(node.op, ast.Div) and _is_tl(node.right, "reshape") \
            and ast.unparse(node.right.args[1]).replace(" ", "") == "(1,-1)":
        return f"(div_cols Op {_gm(node.left, env)} {_gm(node.right.args[0], env)})"
    if _is_tl(node, "flip"):
        ax = [k.value.value for k in node.keywords if k.arg == "axis" and isinstance(k.value, ast.Constant)]
        inner = node.args[0]
        if not node.keywords and len(node.args) == 1:
            return f"(rev {_gm(inner, env)})"          # 1-D flip of the singular values
        if ax == [1]:
            return f"(flip_cols Op {_gm(inner, env)})"
        if ax == [0]:
            return f"(flip_rows Op {_gm(inner, env)})"
    raise Untranslatable(ast.unparse(node))


def symeig_ast_goals():
    """goals regenerated from the CURRENT source of tensorly/tenalg/svd.py symeig_svd.
    verdict goals (semantic, proved with case analysis + lia): which Gram matrix goes to eigh in which case, the clip level,
    the three slice bounds of the return expression.  non-verdict goal (syntactic): the whole body is Model.symeig_raw."""
    import ast, os
    tree = ast.parse(open(os.path.join(C.REPO, "tensorly/tenalg/svd.py")).read())
    fn = [n for n in ast.walk(tree) if isinstance(n, ast.FunctionDef) and n.name == "symeig_svd"]
    if not fn:
        raise Untranslatable("symeig_svd not found")
    fn = fn[0]
    iff = [n for n in fn.body if isinstance(n, ast.If) and isinstance(n.test, ast.Compare) and "dim_1" in ast.unparse(n.test)]
    if len(iff) != 1 or not iff[0].orelse:
        raise Untranslatable("the dim_1 / dim_2 branch of symeig_svd")
    iff = iff[0]
    cond = _ga(iff.test, {"dim_1": "(nrows M)", "dim_2": "(ncols M)"})
    # simple matrix definitions made before the branch (e.g. matrix_h = tl.conj(tl.transpose(matrix)))
    prelude = {"matrix": "M"}
    for st in fn.body[:fn.body.index(iff)]:
        if isinstance(st, ast.Assign) and len(st.targets) == 1 and isinstance(st.targets[0], ast.Name):
            try:
                prelude[st.targets[0].id] = _gm(st.value, prelude)
            except Untranslatable:
                pass

    def branch(stmts):
        """(Gram expression, clip a_min expression, {U, S, V} environment after the branch) of one branch"""
        eig = [st for st in stmts if isinstance(st, ast.Assign) and _is_tl(st.value, "eigh")]
        if len(eig) != 1 or not isinstance(eig[0].targets[0], ast.Tuple) or len(eig[0].targets[0].elts) != 2:
            raise Untranslatable("eigh statement")
        sname, wname = [e.id for e in eig[0].targets[0].elts]
        gram = _gm(eig[0].value.args[0], dict(prelude))
        env = dict(prelude)
        env.update({wname: "W", sname: "s"})
        clip_arg = None
        for st in stmts:
            if st is eig[0] or not isinstance(st, ast.Assign) or len(st.targets) != 1 or not isinstance(st.targets[0], ast.Name):
                continue
            tgt = st.targets[0].id
            if tgt == sname:
                v = st.value     # S = tl.sqrt(tl.clip(S, <a_min>))
                if not (_is_tl(v, "sqrt") and _is_tl(v.args[0], "clip") and isinstance(v.args[0].args[0], ast.Name) and v.args[0].args[0].id == sname):
                    raise Untranslatable(ast.unparse(st))
                cl = v.args[0]
                amin = cl.args[1] if len(cl.args) > 1 else next((k.value for k in cl.keywords if k.arg == "a_min"), None)
                if amin is None or len(cl.args) > 2 or any(k.arg == "a_max" for k in cl.keywords):
                    raise Untranslatable(ast.unparse(st))
                if _is_tl(amin, "eps"):
                    clip_arg = "eps"
                elif isinstance(amin, ast.Constant) and amin.value == 0:
                    clip_arg = "(f0 Op)"
                else:
                    clip_arg = "other_level"      # any other clip level: the model clips at tl.eps -> the goal below cannot be proved
            else:
                env[tgt] = _gm(st.value, env)
        if clip_arg is None or not {"U", "S", "V"} <= set(env):
            raise Untranslatable("branch does not define U, S, V")
        return gram, clip_arg, env
    gA, cA, envA = branch(iff.body)
    gB, cB, envB = branch(iff.orelse)
    # U, S, V = (flips) ; return (slices)
    after = fn.body[fn.body.index(iff) + 1:]
    flips = [st for st in after if isinstance(st, ast.Assign) and isinstance(st.targets[0], ast.Tuple) and isinstance(st.value, ast.Tuple)
             and [e.id for e in st.targets[0].elts if isinstance(e, ast.Name)] == ["U", "S", "V"]]
    ret = [st for st in after if isinstance(st, ast.Return) and isinstance(st.value, ast.Tuple) and len(st.value.elts) == 3]
    if len(flips) != 1 or len(ret) != 1:
        raise Untranslatable("flip / return statements")

    def tup(env):
        return "(" + ", ".join(_gm(e, env) for e in flips[0].value.elts) + ")"
    senv = {"dim_1": "d1", "dim_2": "d2", "n_eigenvecs": "ne"}
    bounds = []
    for e, want in zip(ret[0].value.elts, ["U[:, :_]", "S[:_]", "V[:_, :]"]):
        if not isinstance(e, ast.Subscript):
            raise Untranslatable(ast.unparse(e))
        sl = e.slice
        if want == "S[:_]":
            ok = isinstance(sl, ast.Slice) and sl.lower is None and sl.step is None and sl.upper is not None
            b = sl.upper if ok else None
        else:
            ok = isinstance(sl, ast.Tuple) and len(sl.elts) == 2 and all(isinstance(x, ast.Slice) for x in sl.elts)
            full, part = (sl.elts[0], sl.elts[1]) if want.startswith("U") else (sl.elts[1], sl.elts[0])
            ok = ok and full.lower is None and full.upper is None and part.lower is None and part.upper is not None and part.step is None
            b = part.upper if ok else None
        if not ok:
            raise Untranslatable(ast.unparse(e))
        bounds.append(_ga(b, senv))
    robust = ("repeat match goal with |- context [?a <? ?b] => destruct (Nat.ltb_spec a b) | |- context [?a <=? ?b] => destruct (Nat.leb_spec a b) end; "
              "try reflexivity; try lia")
    verdict = [
        ("symeig_gram_branch", f"forall (F : Type) (Op : fops F) (M : tensor F), gram_query Op M = if {cond} then {gA} else {gB}",
         "intros; unfold gram_query; " + robust),
        ("symeig_clip_level", f"forall (F : Type) (Op : fops F) (eps other_level x : F), clip_min Op {cA} x = clip_min Op eps x /\\ clip_min Op {cB} x = clip_min Op eps x",
         "intros; split; reflexivity"),
        ("symeig_return_slices", "forall (F : Type) (Op : fops F) (d1 d2 ne : nat) (U : tensor F) (Sv : list F) (V : tensor F), "
         f"symeig_truncate Op d1 d2 ne (U, Sv, V) = (cols_firstn Op {bounds[0]} U, firstn {bounds[1]} Sv, rows_firstn Op {bounds[2]} V)",
         "intros; unfold symeig_truncate; "
         "repeat match goal with |- context [cols_firstn _ ?a _] => match goal with |- context [cols_firstn _ ?b _] => assert_fails (constr_eq a b); replace b with a by lia end end; "
         "repeat match goal with |- context [rows_firstn _ ?a _] => match goal with |- context [rows_firstn _ ?b _] => assert_fails (constr_eq a b); replace b with a by lia end end; "
         "repeat match goal with |- context [firstn ?a _] => match goal with |- context [firstn ?b _] => assert_fails (constr_eq a b); replace b with a by lia end end; reflexivity"),
    ]
    syntactic = ("symeig_body", f"forall (F : Type) (Op : fops F) (M W : tensor F) (s : list F), symeig_raw Op M W s = if {cond} then {tup(envA)} else {tup(envB)}",
                 "intros; unfold symeig_raw; " + robust)
    return verdict, syntactic


def _find_stmt(fn, pred, nth=0):
    import ast
    hits = [n for n in ast.walk(fn) if pred(n)]
    hits.sort(key=lambda n: (n.lineno, n.col_offset))
    if len(hits) <= nth:
        raise Untranslatable("statement not found")
    return hits[nth]


def _assign_to(name):
    import ast
    return lambda n: isinstance(n, ast.Assign) and len(n.targets) == 1 and isinstance(n.targets[0], ast.Name) and n.targets[0].id == name


def ast_tie(chk):
    import ast, os, subprocess
    def fn_of(relpath, fname):
        tree = ast.parse(open(os.path.join(C.REPO, relpath)).read())
        for n in ast.walk(tree):
            if isinstance(n, ast.FunctionDef) and n.name == fname:
                return n
        raise Untranslatable(f"{fname} not found")
    goals, skipped = [], []

    def add(name, build):
        try:
            goals.append((name, build()))
        except (Untranslatable, OSError, SyntaxError, KeyError, IndexError) as e:
            skipped.append(f"{name}: {e}")

    LOOP_ENV = {"rank[k]": "rk", "tensor_size[k]": "n", "rank[k + 1]": "(hd 1 ranks)", "n_column": "(prod (n2 :: rest2))"}

    def loop_goal(relpath, fname):
        fn = fn_of(relpath, fname)
        n_row = _ga(_find_stmt(fn, _assign_to("n_row")).value, LOOP_ENV)
        cur = _ga(_find_stmt(fn, _assign_to("current_rank")).value, dict(LOOP_ENV, n_row=n_row))
        return (f"forall (n n2 : nat) (rest2 : list nat) (rk : nat) (ranks : list nat),\n  realised_body (n :: n2 :: rest2) rk ranks = "
                f"{cur} :: realised_body (n2 :: rest2) {cur} (tl ranks)", "intros; rewrite realised_body_cons; first [reflexivity | match goal with |- ?a :: _ = ?b :: _ => replace b with a by lia end; reflexivity]")
    add("tt_loop_rank_clipping", lambda: loop_goal("tensorly/decomposition/_tt.py", "tensor_train"))
    add("tr_loop_rank_clipping", lambda: loop_goal("tensorly/decomposition/_tr_svd.py", "tensor_ring"))

    GENERIC = {}

    def tr_goals():
        fn = fn_of("tensorly/decomposition/_tr_svd.py", "tensor_ring")
        env = {"rank": "rank", "mode": "mode", "n_dim": "n_dim", "__list_add__": True}
        rot = _ga(_find_stmt(fn, _assign_to("rank"), 1).value, env)
        order = _ga(_find_stmt(fn, _assign_to("order")).value, env)
        reorder = _ga(_find_stmt(fn, _assign_to("factors"), 1).value, {"factors": "fs", "mode": "mode", "__list_add__": True})
        import ast as _a
        cond = _find_stmt(fn, lambda n: isinstance(n, _a.If) and isinstance(n.test, _a.Compare) and "rank[0] * rank[1]" in _a.unparse(n.test.left)
                          and any(isinstance(b, _a.Raise) for b in n.body))
        c = _ga(cond.test, {"rank[0]": "(nth 0 rk 0)", "rank[1]": "(nth 1 rk 0)", "n_row": "(hd 0 (shape Xp))", "n_column": "(prod (tl (shape Xp)))"})
        # tr_rank_rotation: the goal "literally the model's expression" is informative only (GENERIC[...]); what decides is the evaluation of the
        # source expression on generic requests (distinct entries, rank[n] = rank[0] as validate_tr_rank guarantees, every order 2-6 and every
        # start mode >= 1): a slicing / concatenation expression that agrees with the model there is a semantics-preserving rewrite
        GENERIC["tr_rank_rotation"] = f"forall (n_dim mode : nat) (rank : list nat), {rot} = tr_rotate_rank n_dim mode rank"
        # (only the first n_dim entries are ever read, by the code - rank[0], rank[1], rank[k + 1] for k <= n_dim - 2 - and by the model)
        return [("tr_rank_rotation", "forallb (fun n_dim => forallb (fun mode => if list_eq_dec Nat.eq_dec "
                 f"(firstn n_dim ((fun (n_dim mode : nat) (rank : list nat) => {rot}) n_dim mode (seq 1 n_dim ++ [1]))) (firstn n_dim (tr_rotate_rank n_dim mode (seq 1 n_dim ++ [1]))) "
                 "then true else false) (seq 1 (n_dim - 1))) (seq 2 5) = true", "vm_compute; reflexivity"),
                ("tr_mode_order", f"forall (n_dim mode : nat), mode <= n_dim -> {order} = rotate mode (seq 0 n_dim)", "intros; symmetry; now apply rotate_seq"),
                ("tr_factor_reorder", f"forall (fs : list (tensor Q)) (mode : nat), {reorder} = lastn mode fs ++ firstn (length fs - mode) fs", "intros; reflexivity"),
                ("tr_first_rank_check_condition", f"forall (Xp : tensor Q) (rk : list nat), {c} = (Nat.min (hd 0 (shape Xp)) (prod (tl (shape Xp))) <? nth 0 rk 0 * nth 1 rk 0)",
                 "intros; apply Bool.eq_true_iff_eq; rewrite !Nat.ltb_lt; lia"),
                ("tr_first_rank_check", f"forall (svd : nat -> tensor Q -> svdans) (Xp : tensor Q) (rk : list nat), {c} = true -> tr_core Qops svd Xp rk = Err",
                 "intros svd Xp rk H; assert (H2 : (Nat.min (hd 0 (shape Xp)) (prod (tl (shape Xp))) <? nth 0 rk 0 * nth 1 rk 0) = true) by (revert H; rewrite !Nat.ltb_lt; lia); unfold tr_core; cbv zeta; rewrite H2; reflexivity")]
    try:
        for g in tr_goals():
            goals.append((g[0], (g[1], g[2])))
    except (Untranslatable, OSError, SyntaxError, KeyError, IndexError) as e:
        skipped.append(f"tensor_ring decision logic: {e}")

    def strict_goal():
        fn = fn_of("tensorly/tt_tensor.py", "validate_tt_rank")
        env = {"validated_rank[i]": "(nth i validated 0)", "s": "s", "rank[i + 1]": "(nth (S i) rank 0)", "n_column": "(prod (s2 :: rest2))"}
        n_row = _ga(_find_stmt(fn, _assign_to("n_row")).value, env)
        import ast as _a
        app = _find_stmt(fn, lambda n: isinstance(n, _a.Call) and isinstance(n.func, _a.Attribute) and n.func.attr == "append"
                         and isinstance(n.func.value, _a.Name) and n.func.value.id == "validated_rank" and isinstance(n.args[0], _a.Call))
        e = _ga(app.args[0], dict(env, n_row=n_row))
        return (f"forall (s s2 : nat) (rest2 : list nat) (i : nat) (validated rank : list nat),\n  strict_loop_code (s :: s2 :: rest2) i validated rank = "
                f"strict_loop_code (s2 :: rest2) (S i) (validated ++ [{e}]) rank", "intros; rewrite strict_loop_code_cons; first [reflexivity | do 3 f_equal; lia]")
    add("validate_tt_rank_strict_step", strict_goal)
    sym_syntactic = None
    try:
        sym_verdict, sym_syntactic = symeig_ast_goals()
        for g in sym_verdict:
            goals.append((g[0], (g[1], g[2])))
    except (Untranslatable, OSError, SyntaxError, KeyError, IndexError, AttributeError, StopIteration) as e:
        skipped.append(f"symeig_svd body: {e}")

    d = os.path.join(C.BUILD, "ast", f"C09_{os.getpid()}"); os.makedirs(d, exist_ok=True)
    fnm = os.path.join(d, "C09_ast.v")
    with open(fnm, "w") as f:
        f.write("From Coq Require Import List Arith QArith Lia Bool. Import ListNotations.\n"
                "From TLV Require Import Base.Shape Base.PyList Base.Tensor Base.Ops Model.Base Model.SvdDecomp Model.SvdDecompSymeig Proofs.SvdDecompRing Proofs.SvdDecompValidate.\nOpen Scope nat_scope.\n")
        for name, (stmt, tac) in goals:
            f.write(f"Lemma ast_{name} : {stmt}.\nProof. {tac}. Qed.\n")
        for name, stmt in GENERIC.items():
            f.write(f"Goal {stmt}.\nProof. first [ intros; reflexivity | idtac \"AST-GENERIC-ONLY {name}\" ]. Abort.\n")
    failed = []
    generic_only = []
    try:
        r = subprocess.run(["timeout", "300", "coqc", "-R", os.path.join(C.COQ, "theories"), "TLV", fnm], capture_output=True, text=True, cwd=d)
        if r.returncode == 124:
            skipped.append("coqc timed out on the generated goals (machine load)")
        elif r.returncode != 0:
            failed.append((r.stdout + r.stderr)[-900:])
        else:
            generic_only = [name for name in GENERIC if f"AST-GENERIC-ONLY {name}" in (r.stdout + r.stderr)]
    except OSError as e:
        skipped.append(f"coqc not run: {e}")
    syn_state = "not generated"
    if sym_syntactic is not None:
        # non-verdict: is the whole body of symeig_svd still literally Model.symeig_raw ?  (a semantics-preserving rewrite of the
        # matrix expressions fails this syntactic goal; the differential symeig correspondence is what decides then)
        fn2 = os.path.join(d, "C09_ast_sym.v")
        with open(fn2, "w") as f:
            f.write("From Coq Require Import List Arith QArith Lia Bool. Import ListNotations.\n"
                    "From TLV Require Import Base.Shape Base.PyList Base.Tensor Base.Ops Model.Base Model.SvdDecomp Model.SvdDecompSymeig.\nOpen Scope nat_scope.\n"
                    f"Lemma ast_{sym_syntactic[0]} : {sym_syntactic[1]}.\nProof. {sym_syntactic[2]}. Qed.\n")
        try:
            r2 = subprocess.run(["timeout", "300", "coqc", "-R", os.path.join(C.COQ, "theories"), "TLV", fn2], capture_output=True, text=True, cwd=d)
            syn_state = "identical" if r2.returncode == 0 else ("timeout" if r2.returncode == 124 else "differs (not a verdict)")
        except OSError:
            syn_state = "coqc not run"
    import shutil
    shutil.rmtree(d, ignore_errors=True)
    chk.cov["ast_symeig_body_vs_model"] = syn_state
    chk.cov["ast_tie"] = {"goals_generated_from_source": [g[0] for g in goals], "not_translatable_counted": skipped,
                          "no_longer_literally_the_model_expression_but_equal_on_generic_inputs": generic_only,
                          "proved": (not failed) and bool(goals) and not any("timed out" in x for x in skipped)}
    chk.checker_cmds.append("coqc on build/ast/C09_*/C09_ast.v (goals regenerated from the Python ast of _tt.py, _tr_svd.py, tt_tensor.py)")
    for msg in failed:
        chk.broken.append({"what": "AST tie C09: a decision expression of the current source is no longer what the model computes", "detail": msg})


# ----------------------------------------------------------------------------- Gallina literals
def qt(a):
    a = np.asarray(a)
    return C.qtensor(a.shape, [x.item() for x in a.ravel()])


def rank_lit(rank):
    return f"(inl {C.nat(rank)})" if isinstance(rank, int) else f"(inr {C.nat_list(rank)})"


def tape_lit(calls):
    if not calls:
        return "(@nil tape_entry)"
    ents = []
    for (M, U, S, V) in calls:
        ents.append(f"({qt(M)}, ({qt(U)}, {C.q_list([x.item() for x in S])}, {qt(V)}))")
    return "[" + ";\n   ".join(ents) + "]"


def sym_tape_lit(eigh_calls):
    """tape of a svd="symeig_svd" run: (Gram query, (W, s, lambda as 1 x K)); s = sqrt(clip(lambda, eps)) is the square-root oracle's
    answer to the model's own query (the model clips by itself and checks s > 0, s^2 = clip(lambda, eps))"""
    if not eigh_calls:
        return "(@nil tape_entry)"
    eps = float(np.finfo(np.float64).eps)
    ents = []
    for (G, lam, W) in eigh_calls:
        lam = np.asarray(lam, dtype=float)
        sq = np.sqrt(np.clip(lam, eps, None))
        ents.append(f"({qt(np.asarray(G, dtype=float))}, ({qt(W)}, {C.q_list([x.item() for x in sq])}, {qt(lam.reshape(1, -1))}))")
    return "[" + ";\n   ".join(ents) + "]"


QR_PER_CALL = 5     # first projection + 2 power iterations x 2 (n_iter = 2, the default the decompositions use)


def rand_tape_lit(rand_calls, qr_calls, omegas, svd_calls):
    """tape of a svd="randomized_svd" run (Corr/C09.v tape_rand): per randomized_svd call a group of 7 entries
    (Omega, (_, [n_eigenvecs], _)), 5 x (QR query, (Q, _, _)), (reduced matrix, LAPACK answer); then the remaining svd calls
    (the HOOI sweeps of tucker).  None when the recorded calls do not have that structure."""
    n = len(rand_calls)
    if len(qr_calls) != QR_PER_CALL * n or len(omegas) != n or len(svd_calls) < n:
        return None
    if [rc[5] for rc in rand_calls] != list(range(n)):      # the k-th svd call is the inner call of the k-th randomized_svd call
        return None
    dummy = "(mk [] [])"
    ents = []
    for k, (M, ne, U, S, V, first) in enumerate(rand_calls):
        if ne is None:
            return None
        # the code brings the drawn matrix into the context (dtype) of the matrix it multiplies: for an integer-dtype input the
        # Gaussian test matrix is truncated to integers.  The tape carries the matrix that was really multiplied: the candidate
        # (as drawn / cast to the dtype of the input of randomized_svd) that reproduces the first QR query (the model checks
        # that query again, exactly)
        q0 = np.asarray(qr_calls[QR_PER_CALL * k][0], dtype=float)
        om = None
        for cand in (np.asarray(omegas[k]), np.asarray(omegas[k]).astype(np.asarray(M).dtype)):
            for A_ in (np.asarray(M), np.asarray(M).T):
                if A_.shape[1] == cand.shape[0] and (A_.shape[0], cand.shape[1]) == q0.shape \
                        and np.allclose(A_.astype(float) @ cand.astype(float), q0, rtol=1e-10, atol=1e-12):
                    om = cand.astype(float)
                    break
            if om is not None:
                break
        if om is None:
            return None
        ents.append(f"({qt(om)}, ({dummy}, {C.q_list([int(ne)])}, {dummy}))")
        for (A, Qm) in qr_calls[QR_PER_CALL * k: QR_PER_CALL * (k + 1)]:
            ents.append(f"({qt(np.asarray(A, dtype=float))}, ({qt(Qm)}, (@nil Q), {dummy}))")
        (Mr, Ur, Sr, Vr) = svd_calls[k]
        ents.append(f"({qt(Mr)}, ({qt(Ur)}, {C.q_list([x.item() for x in Sr])}, {qt(Vr)}))")
    for (Mr, Ur, Sr, Vr) in svd_calls[n:]:
        ents.append(f"({qt(Mr)}, ({qt(Ur)}, {C.q_list([x.item() for x in Sr])}, {qt(Vr)}))")
    return "[" + ";\n   ".join(ents) + "]"


def sym_ill_conditioned(sym_calls):
    """a symeig_svd call of the run kept a triplet of the numerical null space (S <= 1e-6 S_max, in particular the clipped
    sqrt(eps) ones): its derived column is rounding noise divided by a tiny number, so the factor comparison would compare
    noise (recorded finding symeig_svd_rank_deficient of C05) -- such runs are judged by the predicates only"""
    for (M, n, U, S, V) in sym_calls:
        S = np.asarray(S, dtype=float)
        if S.size and (S[0] <= 0 or S[-1] <= 1e-6 * S[0]):
            return True
    return False


def kind_lit(kind, extra):
    if extra.get("svd") == "symeig_svd":
        return "(KSym " + kind_lit(kind, {k: v_ for k, v_ in extra.items() if k != "svd"}) + ")"
    if extra.get("svd") == "randomized_svd":
        return "(KRand " + kind_lit(kind, {k: v_ for k, v_ in extra.items() if k != "svd"}) + ")"
    if kind == "tt":
        return "KTT"
    if kind == "ttm":
        return "KTTM"
    if kind == "tr":
        return f"(KTR {C.nat(extra.get('mode', 0))})"
    return f"(KTucker {C.nat(extra['n_iter_max'])})"


def outcome_lit(kind, st, v):
    if st != "ok":
        return "OErr"
    if kind == "tucker":
        return f"(OTucker {qt(v[0])} [" + "; ".join(qt(f) for f in v[1]) + "])"
    return "(OFactors [" + "; ".join(qt(f) for f in v) + "])"


def timed_out(st, v):
    return st == "crash" and v == "timeout"


def finite(st, v, calls):
    arrs = []
    if st == "ok":
        arrs += ([v[0]] + list(v[1])) if isinstance(v, tuple) else list(v)
    for c in calls:
        arrs += list(c)
    return all(np.all(np.isfinite(np.asarray(a))) for a in arrs)


def describe(kind, X, rank, extra, info):
    return {"function": kind, "tensor": np.asarray(X), "rank": rank, "options": {k: v for k, v in extra.items()},
            "class": info.get("cls"), "sufficient_rank_requested": info.get("sufficient")}


EP = {"tt": "tensorly.decomposition.tensor_train", "ttm": "tensorly.decomposition.tensor_train_matrix",
      "tr": "tensorly.decomposition.tensor_ring", "tucker": "tensorly.decomposition.tucker"}


def load_corpus():
    import glob, json, os
    out = []
    for p in sorted(glob.glob(os.path.join(C.VERIF, "corpus", "C09", "*.json"))):
        try:
            d = json.load(open(p))
            out.append((d["function"], C.from_jsonable_array(d["tensor"]), d["rank"], d.get("options", {}),
                        {"cls": "corpus", "valid": d.get("valid", True), "sufficient": d.get("sufficient_rank_requested", False)}))
        except Exception:
            pass
    return out


def run(chk):
    rng = random.Random(chk.seed)
    nrng = np.random.RandomState(rng.randrange(2 ** 31))
    del STRICT_CASES[:]
    FULLREQ.clear()
    TR_LITERAL.clear()
    RAND_IDENTITY.clear()
    chk.build_proofs()
    # common.print_assumptions also captures the header line "Axioms:" that Coq prints before the list; it is not an axiom
    chk.axioms = {k: [a for a in v if a != "Axioms"] for k, v in (getattr(chk, "axioms", None) or {}).items()}
    chk.broken = [b for b in chk.broken if not (str(b.get("what", "")).endswith("depends on non-stdlib axioms")
                                                and not C.own_axioms([a for a in b.get("detail", []) if a != "Axioms"]))]
    tier = chk.tier
    ast_tie(chk)
    # ---- correspondence cases (small) -------------------------------------------------------
    cases, meta = [], []
    resid = []
    orth = []
    eigh_resid = []
    # every step of a multi-call sequence (one shared rank object / one decomposition object) is a correspondence case of its own:
    # the model is a pure function of (tensor, ORIGINAL request), so a write-back into the caller's request shows up here
    seq_items = []
    for (kind, style, Xs, rank, extra, info) in gen_sequences(tier, rng, nrng, True):
        if any(x.size > 40 for x in Xs):
            continue
        for (step, X, st, v, calls, snap) in run_sequence(kind, style, Xs, rank, extra):
            seq_items.append((kind, X, rank, extra, dict(info, cls="sequence", _pre=(st, v, calls, snap), _seq=(style, Xs, step))))
            chk.hist("corr_sequence_step", f"{kind}/{style}")
    for (kind, X, rank, extra, info) in (load_corpus() + list(gen_corr_cases(tier, rng, nrng)) + list(gen_unit_mode_cases(tier, rng, nrng, True)) + seq_items + list(gen_ttm3_cases(tier, rng, nrng, True))
                                         + list(gen_sym_corr_cases(tier, rng, nrng)) + list(gen_sym_corr_cases(tier, rng, nrng, "randomized_svd"))):
        if X.size > 40:
            continue
        if "_pre" in info:
            st, v, calls, snap = info["_pre"]
            restore_snapshot(snap)
        else:
            st, v, calls = run_impl(kind, X, rank, extra)
        if info.get("cls") in ("generic", "integer", "lowtt") and any(s_ == 1 for s_ in X.shape[1:-1]):
            chk.hist("corr_unit_interior_mode", kind)
        sym = extra.get("svd") == "symeig_svd"
        rnd = extra.get("svd") == "randomized_svd"
        if rnd:
            # the (M, U, S, V) of every randomized_svd call (U = Q U_t, already truncated) decide the sign-ambiguity test for those
            # calls; the inner svd calls themselves are not sign-flipped
            rand_calls, qr_calls, omegas = [list(x) for x in LAST_RAND]
            svd_calls = list(calls)
            nr = len(rand_calls)
            calls = [(M_, U_, S_, V_) for (M_, n_, U_, S_, V_, f_) in rand_calls] + svd_calls[nr:]
            kept_hooi = list(LAST_KEPT)[nr:] if len(LAST_KEPT) == len(svd_calls) else [None] * max(0, len(svd_calls) - nr)
            LAST_KEPT[:] = [None] * nr + kept_hooi
        if sym:
            # the oracle of these runs is eigh; the (M, U, S, V) of every symeig_svd call stand in for the svd tape in the
            # sign-ambiguity test (U is already truncated to the kept columns)
            # tucker: only the initialisation passes svd= on; the HOOI sweeps call svd_interface with the default truncated_svd,
            # so such a run has X.ndim symeig calls followed by ordinary svd calls (modelled as it is, see Corr/C09.v KSym)
            eigh_calls, sym_calls, svd_calls = list(LAST_EIGH), list(LAST_SYM), list(calls)
            calls = [(M_, U_, S_, V_) for (M_, n_, U_, S_, V_) in sym_calls] + svd_calls
            LAST_KEPT[:] = [None] * len(sym_calls) + (list(LAST_KEPT) if len(LAST_KEPT) == len(svd_calls) else [None] * len(svd_calls))
        if timed_out(st, v):
            chk.hist("skipped_timeout", kind)
            continue
        if not finite(st, v, calls):
            chk.finding(EP[kind], describe(kind, X, rank, extra, info), "non-finite output or SVD query", "C09_finite")
            continue
        msg = predicate(kind, X, rank, extra, st, v, info, calls)
        if msg:
            if "_seq" in info:
                style_, Xs_, step_ = info["_seq"]
                chk.finding(EP[kind], describe_seq(kind, style_, Xs_, step_, rank, extra, info),
                            f"call {step_ + 1} of a sequence sharing one rank request ({style_}): " + msg, "C09_call_sequence")
            else:
                chk.finding(EP[kind], describe(kind, X, rank, extra, info), msg, "C09_bounds")
        chk.hist("corr_class", info["cls"])
        if info.get("ttm3"):
            chk.hist("corr_ttm_three_mode_pairs", st)
        if info.get("ttm1"):
            chk.hist("corr_ttm_single_mode_pair", st)
        if kind == "tt" and st == "ok":
            check_validate_strict(chk, X, rank, v)
        if sign_ambiguous(calls, LAST_KEPT):
            # the sign of a kept singular vector is not fixed by the documented convention: predicates only
            chk.hist("corr_sign_ambiguous_predicates_only", kind)
            continue
        if sym and (len(eigh_calls) != len(sym_calls) or sym_ill_conditioned(sym_calls) or (svd_calls and not (kind == "tucker" and len(sym_calls) == X.ndim))):
            chk.hist("corr_symeig_null_space_kept_predicates_only", kind)
            continue
        if rnd:
            the_tape = rand_tape_lit(rand_calls, qr_calls, omegas, svd_calls)
            if the_tape is None or (len(svd_calls) > nr and not (kind == "tucker" and nr == X.ndim)):
                chk.hist("corr_randomized_unexpected_call_structure_predicates_only", kind)
                continue
        cid = len(cases)
        if not rnd:
            the_tape = (f"({sym_tape_lit(eigh_calls)} ++\n   {tape_lit(svd_calls)})" if sym else tape_lit(calls))
        cases.append(f"({cid}%nat, {kind_lit(kind, extra)}, {qt(X)}, {rank_lit(rank)},\n  {the_tape},\n  {outcome_lit(kind, st, v)})")
        if sym:
            chk.hist("corr_symeig", kind)
        if rnd:
            chk.hist("corr_randomized", kind)
        meta.append((kind, X, rank, extra, info, st))
        if sym:   # measured eigh contract: W orthogonal, G W = W diag(lambda)
            for (G_, lam_, W_) in eigh_calls:
                G_ = np.asarray(G_, dtype=float)
                eigh_resid.append(max(float(np.max(np.abs(W_ @ W_.T - np.eye(W_.shape[0])))),
                                      float(np.max(np.abs(G_ @ W_ - W_ * lam_))) / max(1.0, float(np.max(np.abs(G_))))))
        for (M, U, S, V) in (svd_calls if (sym or rnd) else calls):   # measured oracle contract: LAPACK's answer reproduces its query, U / Vh are orthonormal
            k = len(S)
            resid.append(float(np.max(np.abs((U[:, :k] * S) @ V[:k, :] - M))) / max(1.0, float(np.max(np.abs(M)))) if M.size else 0.0)
            if M.size:
                orth.append(max(float(np.max(np.abs(U[:, :k].T @ U[:, :k] - np.eye(k)))), float(np.max(np.abs(V[:k, :] @ V[:k, :].T - np.eye(k))))))
        nontriv = X.size > 1
        chk.count(key=("corr", kind, X.shape, str(rank), tuple(sorted(extra.items())), info["cls"]), nontrivial=nontriv)
        chk.hist("corr_function", kind); chk.hist("corr_outcome", st); chk.hist("corr_order", X.ndim)
        if cid % 41 == 0:
            chk.sample({"stream": "correspondence", "function": kind, "shape": list(X.shape), "rank": rank, "options": {k: str(v_) for k, v_ in extra.items()},
                        "class": info["cls"], "outcome": st, "svd_calls": len(calls),
                        "factor_shapes": ([list(f.shape) for f in (v[1] if kind == "tucker" else v)] if st == "ok" else str(v)[:80])})
    # validate_tt_rank(allow_overparametrization=False) as the code is + the realised ranks of these correspondence runs, evaluated in Coq
    n_main = len(cases)
    for (shape, rank_s, strict, realised) in list(STRICT_CASES):
        cid = len(cases)
        shp_lit = "(mk " + C.nat_list(list(shape)) + " (@nil Q))"
        cases.append(f"({cid}%nat, KStrict, {shp_lit}, {rank_lit(rank_s)}, (@nil tape_entry), (ORanks {C.nat_list(strict)} {C.nat_list(realised)}))")
        meta.append(("strict", np.zeros(shape), rank_s, {}, {"cls": "strict", "strict": strict, "realised": realised}, "ok"))
    chk.cov["strict_rank_cases_in_coq"] = len(cases) - n_main
    # cost-balanced sharding: the symeig / randomized cases (several times dearer than the others) sit at the end of the list, so
    # the cases are dealt round-robin over at most 16 shards (quick) before being cut into consecutive chunks; the ids travel
    # inside the literals, so the order of the list is irrelevant for the verdict
    n_sh = max(1, min(16, -(-len(cases) // 8))) if tier == "quick" else max(1, -(-len(cases) // 40))
    dealt = [c for k in range(n_sh) for c in cases[k::n_sh]]
    failing, n_eval, broken = C.run_case_shards("C09", HEADER, "case", dealt, shard=-(-len(cases) // n_sh) if cases else 1, timeout=900)
    chk.checker_cmds.append("coqc (vm_compute) on generated build/cases/C09/*.v: Corr.C09.failing")
    chk.cov["traces_validated_against_impl"] = n_eval
    for b in broken:
        chk.broken.append({"what": "correspondence corr:C09 shard not evaluated", "detail": b})
    for i in sorted(failing):
        kind, X, rank, extra, info, st = meta[i]
        case_d = {"function": kind, "shape": list(X.shape), "tensor": np.asarray(X), "rank": rank, "options": {k: str(v_) for k, v_ in extra.items()}, "impl_outcome": st}
        if "_seq" in info:
            case_d.update({"sequence_style": info["_seq"][0], "step": info["_seq"][2], "sequence_shapes": [list(x.shape) for x in info["_seq"][1]]})
        chk.disagreement("corr:C09 (Model/SvdDecomp.v vs tensorly/decomposition/_tt.py,_tr_svd.py,_tucker.py,tenalg/svd.py)", case_d)
    # ---- predicate cases (larger; search / test part, toleranced) ---------------------------
    extra_budget = 3 if (failing or chk.broken) else 1     # widen the search around a broken correspondence
    n_pred = 0
    for rep in range(extra_budget):
        for (kind, X, rank, extra, info) in gen_predicate_cases(tier, rng, nrng):
            n_pred += 1
            via_class = rng.random() < 0.15 or n_pred % 5 == 0      # the class entry points of the same modules
            rank_call = rank
            if kind in ("tt", "tucker") and rng.random() < 0.08:
                # fractional / 'same' rank requests: the request is what validate_*_rank makes of it (computed by the implementation's
                # own validator, then treated as the list request by the predicates)
                rank_call = rng.choice([0.3, 0.6, 1.0, "same"])
                try:
                    if kind == "tt":
                        from tensorly.tt_tensor import validate_tt_rank
                        rank = [int(r) for r in validate_tt_rank(tuple(X.shape), rank=rank_call)]
                    else:
                        from tensorly.tucker_tensor import validate_tucker_rank
                        rank = [int(r) for r in validate_tucker_rank(tuple(X.shape), rank=rank_call)]
                    chk.hist("pred_fractional_rank", kind)
                except Exception:
                    rank_call = rank
            st, v, calls = run_impl(kind, X, rank_call, extra, via_class=via_class)
            chk.hist("pred_entry", "class.fit_transform" if via_class else "function")
            if via_class and st == "ok":
                # the class entry point must return the decomposition of the function with the same arguments
                st_f, v_f, _ = run_impl(kind, X, rank_call, extra, via_class=False)
                if st_f == "ok":
                    fa = ([v[0]] + list(v[1])) if kind == "tucker" else list(v)
                    fb = ([v_f[0]] + list(v_f[1])) if kind == "tucker" else list(v_f)
                    same = len(fa) == len(fb) and all(a.shape == b.shape and np.allclose(a, b, rtol=1e-12, atol=1e-12) for a, b in zip(fa, fb))
                    if not same:
                        chk.finding(EP[kind], describe(kind, X, rank, extra, info),
                                    f"{kind}: the class entry point (fit_transform) does not return the decomposition of the function with the same arguments", "C09_class_entry")
                st, v, calls = run_impl(kind, X, rank_call, extra, via_class=True)   # restore the tape / kept ranks of the judged run
            if timed_out(st, v):
                chk.hist("skipped_timeout", kind)
                continue
            info = dict(info, valid=True)
            msg = predicate(kind, X, rank, extra, st, v, info, calls)
            chk.count(key=("pred", kind, X.shape, str(rank), tuple(sorted(extra.items())), info["cls"]), nontrivial=X.size > 1)
            chk.hist("pred_function", kind); chk.hist("pred_order", X.ndim); chk.hist("pred_class", info["cls"])
            if info.get("ttm3"):
                chk.hist("pred_ttm_three_mode_pairs", st)
            if msg:
                chk.finding(EP[kind], describe(kind, X, rank, extra, info), msg, "C09_bounds")
            if kind == "tt" and st == "ok":
                check_validate_strict(chk, X, rank, v)
    # ---- size-1 interior modes with a request that drops across them (predicates + realised-rank formula) ----
    for (kind, X, rank, extra, info) in gen_unit_mode_cases(tier, rng, nrng, False):
        extra = dict(extra)
        if rng.random() < 0.3:
            extra["svd"] = rng.choice(METHODS[1:])
        st, v, calls = run_impl(kind, X, rank, extra, via_class=rng.random() < 0.2)
        if timed_out(st, v):
            chk.hist("skipped_timeout", kind)
            continue
        msg = predicate(kind, X, rank, extra, st, v, info, calls)
        chk.count(key=("unit_mode", kind, X.shape, str(rank), tuple(sorted((k, str(v_)) for k, v_ in extra.items())), info["cls"]), nontrivial=X.size > 1)
        chk.hist("unit_mode_stream", kind)
        if msg:
            chk.finding(EP[kind], describe(kind, X, rank, extra, info), msg, "C09_bounds")
        if kind == "tt" and st == "ok":
            check_validate_strict(chk, X, rank, v)
    # ---- multi-call sequences: one rank list / tuple / decomposition object used for several tensors (predicates, every step) ----
    for (kind, style, Xs, rank, extra, info) in gen_sequences(tier, rng, nrng, False):
        extra = dict(extra)
        if rng.random() < 0.25:
            extra["svd"] = rng.choice(METHODS[1:])
        for (step, X, st, v, calls, snap) in run_sequence(kind, style, Xs, rank, extra):
            if timed_out(st, v):
                chk.hist("skipped_timeout", kind)
                continue
            restore_snapshot(snap)
            msg = predicate(kind, X, rank, extra, st, v, info, calls) or history_message(kind, X, rank, extra, st, v)
            chk.count(key=("sequence", kind, style, step, X.shape, str(rank), tuple(sorted((k, str(v_)) for k, v_ in extra.items()))), nontrivial=X.size > 1)
            chk.hist("sequence_stream", f"{kind}/{style}"); chk.hist("sequence_step", step)
            if msg:
                chk.finding(EP[kind], describe_seq(kind, style, Xs, step, rank, extra, info),
                            f"call {step + 1} of a sequence sharing one rank request ({style}): " + msg, "C09_call_sequence")
            if kind == "tt" and st == "ok" and "svd" not in extra:
                check_validate_strict(chk, X, rank, v)
    # ---- every svd= method on low-rank / rank-deficient inputs with over-requested, sufficient and truncating ranks ----
    for (kind, X, rank, extra, info) in gen_method_cases(tier, rng, nrng):
        via_class = rng.random() < 0.1
        st, v, calls = run_impl(kind, X, rank, extra, via_class=via_class)
        if timed_out(st, v):
            chk.hist("skipped_timeout", kind)
            continue
        msg = predicate(kind, X, rank, extra, st, v, info, calls)
        chk.count(key=("method", kind, X.shape, str(rank), tuple(sorted((k, str(v_)) for k, v_ in extra.items())), info["cls"]), nontrivial=X.size > 1)
        chk.hist("method_stream", f"{kind}/{extra['svd']}"); chk.hist("method_rank_style", info["style"]); chk.hist("method_class", info["cls"])
        chk.hist("method_dtype", "complex" if np.iscomplexobj(X) else str(X.dtype))
        if msg:
            chk.finding(EP[kind], describe(kind, X, rank, extra, info), msg, "C09_svd_methods")
    # ---- the generator's label "sufficient" for tensor_ring inputs = the decidable premise of the exactness theorem (evaluated in Coq) ----
    fr_cases, fr_meta = [], []
    for (shape_, rank_, mode_) in list(FULLREQ):
        cid = len(fr_cases)
        shp_lit = "(mk " + C.nat_list(list(shape_)) + " (@nil Q))"
        fr_cases.append(f"({cid}%nat, (KFullReq {C.nat(mode_)}), {shp_lit}, {rank_lit(list(rank_))}, (@nil tape_entry), OErr)")
        fr_meta.append((shape_, rank_, mode_))
    if fr_cases:
        failing_fr, n_fr, broken_fr = C.run_case_shards("C09", HEADER, "case", fr_cases, shard=400, timeout=600, tag="fullreq")
        chk.cov["tensor_ring_sufficient_labels_checked_in_coq"] = n_fr
        for b in broken_fr:
            chk.broken.append({"what": "correspondence corr:C09 shard (sufficient labels) not evaluated", "detail": b})
        for i in sorted(failing_fr):
            shape_, rank_, mode_ = fr_meta[i]
            chk.disagreement("corr:C09 sufficient-rank label (harness tr_rank_for(sufficient=True) vs tr_full_requestb, the premise of C09_tensor_ring_exact_full_request)",
                             {"function": "tr", "shape": list(shape_), "rank": list(rank_), "options": {"mode": mode_}})
    chk.cov["tensor_ring_literal_requested_rank_condition"] = dict(TR_LITERAL)
    chk.cov["tensor_train_randomized_error_identity"] = dict(RAND_IDENTITY)
    if resid:
        chk.cov["oracle_residuals"] = {"svd_calls_taped": len(resid), "max_relative_residual_U_S_V_minus_M": max(resid),
                                       "max_orthonormality_residual_UtU_VVt_minus_I": max(orth) if orth else 0.0}
    if eigh_resid:
        chk.cov["eigh_oracle_residuals"] = {"eigh_calls_taped": len(eigh_resid), "max_residual_WWt_minus_I_or_GW_minus_Wlambda": max(eigh_resid)}
    chk.cov["exhaustive"] = False
    chk.cov["rule"] = ("correspondence: random tensors of order 2-4 over mode sizes {1,2,3} (<= 24 entries quick / 36 thorough), eleven value classes "
                       "(generic dyadic, exactly low TT rank, exactly low multilinear rank, rank-deficient, integer, integer low rank, negative superdiagonal (float / int dtype), negated partial permutation (float / int dtype), sparse integer), "
                       "tensor_train / tensor_train_matrix / tensor_ring (every start mode) / tucker (0-2 HOOI sweeps, tol=0), int and list ranks from 1 to beyond "
                       "the mode sizes plus invalid requests; model over Q fed with the taped LAPACK answers; U-derived factors exact, products |d| <= 1e-9 + 1e-9(|a|+|b|). "
                       "symeig correspondence: the same functions with svd='symeig_svd' on tensors of <= 24 entries, model = transcription of symeig_svd over Q fed with eigh's taped answers, "
                       "all factors |d| <= 1e-7 + 1e-7(|a|+|b|); "
                       "tensor_train_matrix with three mode pairs (order 6, <= 40 entries) in the correspondence and (mode sizes 1-3) in the predicates; "
                       "predicates (tests): order 2-5, mode sizes 1-7, same classes, default options; tensor_ring additionally judged exact whenever the literal "
                       "requested-rank condition of C09_tensor_ring_exact_requested_ranks holds numerically; "
                       "svd-method stream (tests): svd in {truncated_svd, symeig_svd, randomized_svd} x the four decompositions x low-rank / rank-deficient / generic inputs "
                       "x over-requested / exactly sufficient / truncating ranks (order 2-4, mode sizes 1-7; no exception, finite, ranks respected, exact at sufficient rank, bounds; "
                       "symeig_svd judged at 1e-6 relative, randomized_svd's upper bound only when every range finder is exact); "
                       "distinct key = (stream, function, shape, rank request, options, value class); non-trivial = more than one entry")
    chk.assumptions = ["exact-arithmetic semantics: floating-point rounding is not modelled (products compared with tolerance 1e-9)",
                       "numpy.linalg.svd is an oracle: its recorded answers are handed to the model; the theorems assume the SVD contract for the answers of a run",
                       "lower bounds relative to the spectrum of the unfoldings of X and the TT-SVD root-sum-square upper bound are full theorems (C09_eckart_young, C09_tt_error_root_sum_square), and so is the Tucker bound with HOOI sweeps (C09_tucker_hooi_error_bound)",
                       "predicate thresholds: exact = 1e-9 relative; bounds with factor (1 +- 1e-8) and floor 1e-9 ||X||"]
    chk.trusted += ["numpy.linalg.svd (LAPACK gesdd) as SVD oracle for the implementation and, independently, for the predicates' singular values",
                    "NumPy reshape/transpose/moveaxis as modelled in Base/Tensor.v; n-mode product modelled at index level (Model/SvdDecomp.v mode_dot)",
                    "tape recorder: NumpyBackend.register_method('svd' / 'eigh', wrapper) in harness/props/C09.py",
                    "svd='symeig_svd' correspondence: numpy.linalg.eigh (LAPACK syevd) and numpy.sqrt are the oracles (eigh's query and the "
                    "square-root contract are checked by the model); runs that keep a triplet of the numerical null space are judged by the predicates only"]
    _install_known_loader()
    return chk.finish({})


def replay(payload):
    if payload.get("kind") != "failing-input":
        print("replay file names a broken theorem/correspondence, not an input:", payload.get("theorem_or_correspondence"))
        return 1
    inp = payload["inputs"]
    kind = inp["function"]
    if kind == "validate_tt_rank":
        from tensorly.tt_tensor import validate_tt_rank
        shape = tuple(inp["shape"]); rank = inp["rank"]
        strict = [int(r) for r in validate_tt_rank(shape, rank=rank if isinstance(rank, int) else list(rank), allow_overparametrization=False)]
        realised = strict_realised_formula(shape, norm_rank_tt(len(shape), rank))
        print("replay: validate_tt_rank strict", shape, rank, "->", strict, "realised by TT-SVD:", realised)
        return 1 if strict != realised else 0
    rank = inp["rank"]
    extra = dict(inp.get("options") or {})
    info = {"valid": True, "sufficient": bool(inp.get("sufficient_rank_requested"))}
    if inp.get("sequence_style"):
        Xs = [C.from_jsonable_array(a) for a in inp["sequence"]]
        bad = 0
        for (step, X, st, v, calls, snap) in run_sequence(kind, inp["sequence_style"], Xs, rank, extra):
            if timed_out(st, v):
                print("replay: implementation call timed out (machine load); not a verdict")
                continue
            restore_snapshot(snap)
            msg = ("non-finite output or SVD query" if not finite(st, v, calls) else None) or predicate(kind, X, rank, extra, st, v, info, calls) \
                or history_message(kind, X, rank, extra, st, v)
            print("replay: sequence", inp["sequence_style"], "call", step + 1, kind, X.shape, rank, extra, "->", msg or "holds")
            bad += 1 if msg else 0
        return 1 if bad else 0
    X = C.from_jsonable_array(inp["tensor"])
    st, v, calls = run_impl(kind, X, rank, extra)
    if timed_out(st, v):
        print("replay: implementation call timed out (machine load); not a verdict")
        return 0
    msg = None
    if not finite(st, v, calls):
        msg = "non-finite output or SVD query"
    msg = msg or predicate(kind, X, rank, extra, st, v, info, calls)
    print("replay:", kind, X.shape, rank, extra, "->", msg or "holds")
    return 1 if msg else 0
